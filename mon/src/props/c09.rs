//! C09 — streaming is transparent: results independent of I/O fragmentation and faults.
//!
//! Oracle: DIFFERENTIAL OVER SCHEDULES. Run R0 = (all-at-once source, read_to_end consumer,
//! all-accepting sink) is the reference history of a case; every other (source schedule,
//! consumer pattern, sink acceptance schedule) run of the same case must give identical results
//! (bytes, literal metadata, verification verdict, error class Ok/Err). Fault runs inject one
//! `io::Error` at call k of the source or sink (once or sticky); the API must answer `Err`, or
//! `Ok` with a result identical to R0 (a fault that hit a call whose result the library may
//! legitimately ignore); `Ok` with a different result is "fault swallowed".
//!
//! Families (the `mine()` sequence never depends on results):
//!   S  small components, exhaustive compositions: Base64Decoder, Base64Reader, both stacked,
//!      NormalizedReader, LineWriter, SignatureHasher (io::Write)
//!   D  Dearmor of a small armor: every 1- and 2-split schedule, every Fixed(k)
//!   E  CFB StreamEncryptor / StreamDecryptor (protected check-first, protected streaming,
//!      unprotected), AEAD StreamEncryptor / StreamDecryptor, PacketParser
//!   B  MessageBuilder::from_reader: source schedules and sink acceptance schedules
//!   R  Message reader: source schedules x consumer patterns (binary and armored)
//!   K  certificates / messages with armor headers through the composed entry points
//!   F  fault injection into all of the above (Other once / sticky, Interrupted once)
//!   U  inputs the library REFUSES: the Ok/Err class must not depend on the schedule either. Every short
//!      string over {CR, LF, 'a', UTF-8 lead / continuation octets} through the Utf8 builder under every
//!      composition; long texts with one illegal spot at the chunk edges (also: damaged armors in D,
//!      arbitrary base64 texts in S, truncated / trailing-data messages in M)
//!   X  MIXED consumer schedules on one reader: read(n), zero-length reads, fill_buf + consume(0 / k / all),
//!      then read_to_end / read_to_string / a loop of mixed steps, optionally asking again after the end:
//!      message reader (all configurations, binary and armored, sizes around the 8192-octet windows),
//!      stream encryptors / decryptors, Dearmor, base64 stack, NormalizedReader

use std::cell::RefCell;
use std::io::{self, BufRead, Read, Write};
use std::rc::Rc;
use std::sync::{Arc, Mutex};

use generic_array::typenum::{U4, U64};
use pgp::armor::{BlockType, Dearmor};
use pgp::base64::{Base64Decoder, Base64Reader};
use pgp::composed::{
    ArmorOptions, DecryptionOptions, Message, MessageBuilder, PlainSessionKey, SignedSecretKey,
    SubpacketConfig, TheRing,
};
use pgp::crypto::aead::{AeadAlgorithm, ChunkSize};
use pgp::crypto::hash::HashAlgorithm;
use pgp::crypto::sym::SymmetricKeyAlgorithm;
use pgp::line_writer::{LineBreak, LineWriter};
use pgp::normalize_lines::NormalizedReader;
use pgp::packet::{
    DataMode, PacketParser, SignatureConfig, SignatureType, Subpacket, SubpacketData,
    SymEncryptedProtectedData,
};
use pgp::ser::Serialize;
use pgp::types::{
    CompressionAlgorithm, KeyDetails, Password, Seipdv1ReadMode, StringToKey, Timestamp,
};
use rand::{Rng, RngCore, SeedableRng};
use rand_chacha::ChaCha8Rng;
use serde_json::{json, Value};

use crate::core::{describe_case, hexs, Ctx};
use crate::hooks;
use crate::rec::RecSigner;
use crate::rfc;
use crate::shim::{
    chunks_by_splits, composition_splits, drain, drain_read, Consume, Fault, FaultKind, Sched,
};
use crate::zoo;

// ------------------------------------------------------------------------------------------
// local shims. `Message::from_bytes` wants `BufRead + Debug + Send`, which the shared
// `shim::SchedReader` (Rc log, no Debug) cannot give; the local source also keeps a correct
// window when `read` and `fill_buf` are mixed, and the local sink counts `flush` as a fault point.

#[derive(Debug, Default, Clone)]
struct Log {
    calls: usize,
    bytes: usize,
    faults_raised: usize,
    calls_after_fault: usize,
    zero_returns: usize,
    flushes: usize,
    /// stream position at the start of each call
    offsets: Vec<u32>,
}

type LogRef = Arc<Mutex<Log>>;

fn new_log() -> LogRef {
    Arc::new(Mutex::new(Log::default()))
}

fn mk_err(k: FaultKind) -> io::Error {
    match k {
        FaultKind::Other => io::Error::other("injected fault"),
        FaultKind::Interrupted => io::Error::new(io::ErrorKind::Interrupted, "injected interrupt"),
        FaultKind::WouldBlock => io::Error::new(io::ErrorKind::WouldBlock, "injected wouldblock"),
        FaultKind::UnexpectedEof => io::Error::new(io::ErrorKind::UnexpectedEof, "injected eof"),
    }
}

struct Stepper {
    sched: Sched,
    idx: usize,
    rng: ChaCha8Rng,
}

impl std::fmt::Debug for Stepper {
    fn fmt(&self, f: &mut std::fmt::Formatter<'_>) -> std::fmt::Result {
        write!(f, "Stepper({})", self.sched.name())
    }
}

impl Stepper {
    fn new(sched: Sched) -> Self {
        let seed = match &sched {
            Sched::Random(s, _) => *s,
            _ => 0,
        };
        Stepper { sched, idx: 0, rng: ChaCha8Rng::seed_from_u64(seed) }
    }
    /// size of the next piece when the stream is at `pos` and the caller wants `want`
    fn next(&mut self, pos: usize, want: usize) -> usize {
        match &self.sched {
            Sched::All => want,
            Sched::Fixed(n) => (*n).max(1).min(want),
            Sched::Cycle(v) => {
                let n = v[self.idx % v.len()].max(1);
                self.idx += 1;
                n.min(want)
            }
            Sched::SplitAt(v) => match v.iter().copied().find(|o| *o > pos) {
                Some(o) => (o - pos).min(want),
                None => want,
            },
            Sched::Random(_, max) => {
                let m = (*max).max(1);
                self.rng.gen_range(1..=m).min(want)
            }
        }
    }
}

/// Schedule driven source: `Read + BufRead + Debug + Send`.
#[derive(Debug)]
struct Src {
    data: Arc<Vec<u8>>,
    pos: usize,
    step: Stepper,
    fault: Option<Fault>,
    log: LogRef,
    window: usize,
}

impl Src {
    fn new(data: &Arc<Vec<u8>>, sched: &Sched) -> Self {
        Src {
            data: data.clone(),
            pos: 0,
            step: Stepper::new(sched.clone()),
            fault: None,
            log: new_log(),
            window: 0,
        }
    }
    fn of(data: &[u8], sched: &Sched) -> Self {
        Self::new(&Arc::new(data.to_vec()), sched)
    }
    fn fault(mut self, f: Option<Fault>) -> Self {
        self.fault = f;
        self
    }
    fn log(&self) -> LogRef {
        self.log.clone()
    }
    fn check_fault(&mut self) -> io::Result<()> {
        let mut log = self.log.lock().unwrap();
        let call = log.calls;
        log.calls += 1;
        let p = self.pos as u32;
        log.offsets.push(p);
        if let Some(f) = self.fault {
            if call == f.at_call || (f.sticky && call > f.at_call) {
                log.faults_raised += 1;
                return Err(mk_err(f.kind));
            }
            if call > f.at_call {
                log.calls_after_fault += 1;
            }
        }
        Ok(())
    }
}

impl Read for Src {
    fn read(&mut self, buf: &mut [u8]) -> io::Result<usize> {
        self.check_fault()?;
        if buf.is_empty() {
            return Ok(0);
        }
        let remaining = self.data.len() - self.pos;
        let n = if self.window > 0 {
            self.window.min(buf.len())
        } else {
            self.step.next(self.pos, buf.len()).min(remaining)
        };
        buf[..n].copy_from_slice(&self.data[self.pos..self.pos + n]);
        self.pos += n;
        self.window = self.window.saturating_sub(n);
        let mut log = self.log.lock().unwrap();
        log.bytes += n;
        if n == 0 {
            log.zero_returns += 1;
        }
        Ok(n)
    }
}

impl BufRead for Src {
    fn fill_buf(&mut self) -> io::Result<&[u8]> {
        self.check_fault()?;
        if self.window == 0 {
            let remaining = self.data.len() - self.pos;
            self.window = self.step.next(self.pos, usize::MAX).min(remaining);
            if self.window == 0 {
                self.log.lock().unwrap().zero_returns += 1;
            }
        }
        Ok(&self.data[self.pos..self.pos + self.window])
    }
    fn consume(&mut self, amt: usize) {
        let amt = amt.min(self.window);
        self.pos += amt;
        self.window -= amt;
        self.log.lock().unwrap().bytes += amt;
    }
}

/// Schedule driven sink (short writes); `write` and `flush` calls are both fault points.
struct Sink {
    out: Rc<RefCell<Vec<u8>>>,
    step: Stepper,
    fault: Option<Fault>,
    log: Rc<RefCell<Log>>,
}

impl Sink {
    fn new(sched: &Sched) -> Self {
        Sink {
            out: Rc::new(RefCell::new(Vec::new())),
            step: Stepper::new(sched.clone()),
            fault: None,
            log: Rc::new(RefCell::new(Log::default())),
        }
    }
    fn fault(mut self, f: Option<Fault>) -> Self {
        self.fault = f;
        self
    }
    fn check_fault(&mut self) -> io::Result<()> {
        let mut log = self.log.borrow_mut();
        let call = log.calls;
        log.calls += 1;
        let p = self.out.borrow().len() as u32;
        log.offsets.push(p);
        if let Some(f) = self.fault {
            if call == f.at_call || (f.sticky && call > f.at_call) {
                log.faults_raised += 1;
                return Err(mk_err(f.kind));
            }
            if call > f.at_call {
                log.calls_after_fault += 1;
            }
        }
        Ok(())
    }
}

impl Write for Sink {
    fn write(&mut self, buf: &[u8]) -> io::Result<usize> {
        self.check_fault()?;
        if buf.is_empty() {
            return Ok(0);
        }
        let pos = self.out.borrow().len();
        let n = self.step.next(pos, buf.len()).max(1).min(buf.len());
        self.out.borrow_mut().extend_from_slice(&buf[..n]);
        self.log.borrow_mut().bytes += n;
        Ok(n)
    }
    fn flush(&mut self) -> io::Result<()> {
        self.check_fault()?;
        self.log.borrow_mut().flushes += 1;
        Ok(())
    }
}

// ------------------------------------------------------------------------------------------
// outcomes and judging

#[derive(Debug, Clone, PartialEq, Eq)]
struct Out {
    /// error class: false = Ok, true = Err
    err: bool,
    /// stage at which the error was raised / free text of the error (not compared)
    note: String,
    /// bytes produced / released (compared only when both runs are Ok)
    data: Vec<u8>,
    /// metadata and verdicts (compared only when both runs are Ok)
    meta: String,
}

impl Out {
    fn ok(data: Vec<u8>, meta: impl Into<String>) -> Self {
        Out { err: false, note: String::new(), data, meta: meta.into() }
    }
    fn err(stage: &str, e: impl std::fmt::Display, data: Vec<u8>) -> Self {
        let mut s = format!("{stage}: {e}");
        s.truncate(160);
        Out { err: true, note: s, data, meta: String::new() }
    }
    fn same(&self, o: &Out) -> bool {
        self.err == o.err && (self.err || (self.data == o.data && self.meta == o.meta))
    }
    fn brief(&self) -> String {
        if self.err {
            format!("Err({}) after {} bytes", self.note, self.data.len())
        } else {
            format!("Ok({} bytes, meta={})", self.data.len(), trunc(&self.meta, 100))
        }
    }
}

fn trunc(s: &str, n: usize) -> String {
    if s.len() <= n {
        s.to_string()
    } else {
        let mut e = n;
        while !s.is_char_boundary(e) {
            e -= 1;
        }
        format!("{}…", &s[..e])
    }
}

fn first_diff(a: &[u8], b: &[u8]) -> usize {
    a.iter().zip(b.iter()).position(|(x, y)| x != y).unwrap_or(a.len().min(b.len()))
}

/// Differential judgement of a clean (fault free) run against R0.
fn judge(ctx: &mut Ctx, comp: &str, r0: &Out, got: &Out, what: &dyn Fn() -> String, replay: &dyn Fn() -> Value) -> bool {
    judge_as(ctx, comp, "sched", r0, got, what, replay)
}

/// `oracle` names the schedule dimension that was varied: "sched" (source / sink / homogeneous consumer
/// schedules) or "mixed" (several access styles on one reader).
fn judge_as(ctx: &mut Ctx, comp: &str, oracle: &str, r0: &Out, got: &Out, what: &dyn Fn() -> String, replay: &dyn Fn() -> Value) -> bool {
    if r0.same(got) {
        return true;
    }
    let sym = if r0.err != got.err {
        if got.err { format!("ok-became-err{}", err_class(&got.note)) } else { "err-became-ok".to_string() }
    } else if r0.data != got.data {
        let c = if got.data.len() < r0.data.len() {
            "shorter"
        } else if got.data.len() > r0.data.len() {
            "longer"
        } else {
            "same-length"
        };
        format!("data-differs/{c}")
    } else {
        "meta-differs".to_string()
    };
    ctx.violation(
        format!("C09/{comp}/{oracle}/{sym}"),
        format!(
            "{}: R0 = {}, this run = {}; first difference at byte {}",
            what(),
            r0.brief(),
            got.brief(),
            first_diff(&r0.data, &got.data)
        ),
        replay(),
    );
    false
}

/// Like `Ctx::guarded`, but the panic signature is `<prefix>/panic/<file>/<message slug>`: it does not
/// carry the line number, so that an unrelated edit of the same source file does not rename a finding.
fn guarded<T>(ctx: &mut Ctx, sigprefix: &str, replay: impl FnOnce() -> Value, f: impl FnOnce() -> T) -> Option<T> {
    match crate::core::guard(f) {
        Ok(v) => Some(v),
        Err(p) => {
            let loc = p.short_loc();
            let file = loc.rsplit_once(':').map(|(f, _)| f.to_string()).unwrap_or(loc);
            let mut slug = String::new();
            for c in p.msg.chars().take(48) {
                if c.is_ascii_alphanumeric() {
                    slug.push(c.to_ascii_lowercase());
                } else if !slug.ends_with('-') {
                    slug.push('-');
                }
            }
            let slug = slug.trim_matches('-').to_string();
            if p.in_harness() {
                ctx.inconclusive(format!("harness panic at {}: {}", p.loc, p.msg));
                return None;
            }
            ctx.violation(format!("{sigprefix}/panic/{file}/{slug}"), format!("panic: {} at {}", p.msg, p.loc), replay());
            None
        }
    }
}

/// stable class of an error text (only where the text names a parsing stage)
fn err_class(note: &str) -> &'static str {
    if note.contains("armor header") {
        "/armor-header"
    } else if note.contains("armor footer") {
        "/armor-footer"
    } else {
        ""
    }
}

fn kind_name(k: FaultKind) -> &'static str {
    match k {
        FaultKind::Other => "other",
        FaultKind::Interrupted => "interrupted",
        FaultKind::WouldBlock => "wouldblock",
        FaultKind::UnexpectedEof => "eof",
    }
}

/// Judgement of a fault run. `raised` = the shim really returned the injected error.
fn judge_fault(
    ctx: &mut Ctx,
    comp: &str,
    r0: &Out,
    got: &Out,
    raised: usize,
    f: &Fault,
    what: &dyn Fn() -> String,
    replay: &dyn Fn() -> Value,
) {
    if raised == 0 {
        ctx.tally("fault.not-reached", 1);
        return;
    }
    ctx.tally(&format!("fault.raised.{}", kind_name(f.kind)), 1);
    if got.err {
        ctx.tally("fault.surfaced-as-err", 1);
        return;
    }
    if r0.same(got) {
        // the error hit a call whose result does not influence the result (e.g. a probing read
        // after all data was consumed, or an Interrupted that was retried)
        ctx.tally(&format!("fault.ok-identical.{}", kind_name(f.kind)), 1);
        ctx.seen("fault.ok-identical.components", comp);
        if !matches!(f.kind, FaultKind::Interrupted) {
            // "an error raised by the underlying source or sink surfaces as an error": a raised error other than
            // an (retried) interruption must not end in Ok, even if the bytes happen to be complete
            let mode = if f.sticky { "sticky" } else { "once" };
            let mode = if matches!(f.kind, FaultKind::UnexpectedEof) { format!("eof-kind-error/{mode}") } else { mode.to_string() };
            ctx.violation(
                format!("C09/{comp}/fault-swallowed/identical-result/{mode}"),
                format!(
                    "{}: injected {} error at call {} ({mode}, raised {raised}x) did not surface: the run ended in the same clean result as without the fault ({})",
                    what(),
                    kind_name(f.kind),
                    f.at_call,
                    got.brief()
                ),
                replay(),
            );
        }
        return;
    }
    let mode = if f.sticky { "sticky" } else { "once" };
    let sig = match f.kind {
        FaultKind::Interrupted => format!("C09/{comp}/interrupted/different-output/{mode}"),
        FaultKind::UnexpectedEof => format!("C09/{comp}/fault-swallowed/eof-kind-error/{mode}"),
        _ => format!("C09/{comp}/fault-swallowed/{mode}"),
    };
    let c = if r0.err {
        "R0 is Err".to_string()
    } else if got.data.len() < r0.data.len() {
        format!("result SHORTER by {} bytes", r0.data.len() - got.data.len())
    } else if got.data != r0.data {
        format!("result differs at byte {}", first_diff(&r0.data, &got.data))
    } else {
        "metadata differs".to_string()
    };
    ctx.violation(
        sig,
        format!(
            "{}: injected {} error at call {} ({mode}, raised {raised}x) ended in a clean result: R0 = {}, this run = {} ({c})",
            what(),
            kind_name(f.kind),
            f.at_call,
            r0.brief(),
            got.brief()
        ),
        replay(),
    );
}

fn fault_prefix(comp: &str, k: FaultKind) -> String {
    match k {
        FaultKind::Interrupted => format!("C09/{comp}/interrupted"),
        _ => format!("C09/{comp}/fault"),
    }
}

/// Fault call indices for a clean run of `n` calls: all for n <= 64, else the first and last
/// ones, the calls adjacent to the given stream offsets, plus 64 sampled ones.
fn fault_points(n: usize, offsets: &[u32], boundaries: &[usize], rng: &mut ChaCha8Rng, all_upto: usize, sampled: usize) -> Vec<usize> {
    if n <= all_upto {
        return (0..n).collect();
    }
    let mut v: Vec<usize> = vec![0, 1, 2, 3, n - 4, n - 3, n - 2, n - 1];
    for b in boundaries {
        // first call that starts at or after the boundary, and its neighbours
        let i = offsets.partition_point(|o| (*o as usize) < *b);
        for d in [-1i64, 0, 1] {
            let k = i as i64 + d;
            if k >= 0 && (k as usize) < n {
                v.push(k as usize);
            }
        }
    }
    for _ in 0..sampled {
        v.push(rng.gen_range(0..n));
    }
    v.sort_unstable();
    v.dedup();
    v
}

// ------------------------------------------------------------------------------------------
// schedules

fn sched_json(s: &Sched) -> Value {
    match s {
        Sched::All => json!("all"),
        Sched::Fixed(n) => json!({"fixed": n}),
        Sched::Cycle(v) => json!({"cycle": v}),
        Sched::SplitAt(v) => json!({"split_at": v}),
        Sched::Random(s, m) => json!({"random_seed": s, "max": m}),
    }
}

/// Adversarial schedules for a stream of `len` bytes with the given layer boundaries.
fn adversarial(len: usize, boundaries: &[usize], seeds: &[u64], thorough: bool) -> Vec<Sched> {
    let mut v = vec![
        Sched::Fixed(1),
        Sched::Fixed(2),
        Sched::Fixed(3),
        Sched::Fixed(7),
        Sched::Fixed(64),
        Sched::Fixed(512),
        Sched::Fixed(8192),
        Sched::Cycle(vec![1, 511, 512, 513]),
        Sched::Cycle(vec![8191, 1, 8192, 8193]),
    ];
    if thorough {
        v.extend([
            Sched::Fixed(63),
            Sched::Fixed(65),
            Sched::Fixed(511),
            Sched::Fixed(513),
            Sched::Fixed(8191),
            Sched::Fixed(8193),
            Sched::Cycle(vec![1, 2, 3, 5, 8, 13, 21]),
            Sched::Cycle(vec![4, 1023, 1]),
        ]);
    }
    if !boundaries.is_empty() {
        let mut sp = vec![];
        for b in boundaries {
            for d in [-1i64, 0, 1] {
                let o = *b as i64 + d;
                if o > 0 && (o as usize) < len {
                    sp.push(o as usize);
                }
            }
        }
        sp.sort_unstable();
        sp.dedup();
        if !sp.is_empty() {
            v.push(Sched::SplitAt(sp));
        }
        let exact: Vec<usize> = boundaries.iter().copied().filter(|b| *b > 0 && *b < len).collect();
        if !exact.is_empty() {
            v.push(Sched::SplitAt(exact));
        }
    }
    for (i, s) in seeds.iter().enumerate() {
        v.push(Sched::Random(*s, [5usize, 700, 9000, 100][i % 4]));
    }
    v
}

/// Layer boundaries of an OpenPGP packet stream: every packet start, every header end and every
/// partial chunk edge of the outermost framing (taken from the reference deframer).
fn stream_boundaries(data: &[u8]) -> Vec<usize> {
    let mut out = vec![];
    let Ok(pkts) = rfc::frame::deframe(data) else {
        return out;
    };
    for p in &pkts {
        out.push(p.offset);
        out.push(p.offset + p.encoded_len);
        if p.partial_chunks.is_empty() {
            out.push(p.offset + p.encoded_len - p.body.len());
        } else {
            // tag octet, then (length octet, chunk)*
            let mut o = p.offset + 1;
            for c in &p.partial_chunks {
                o += 1;
                out.push(o);
                o += *c as usize;
                out.push(o);
            }
        }
    }
    out.sort_unstable();
    out.dedup();
    out
}

fn consumers_buf(thorough: bool) -> Vec<Consume> {
    let mut v = Consume::all_basic();
    v.push(Consume::Read(8192));
    v.push(Consume::Read(8193));
    if thorough {
        v.extend([
            Consume::Read(2),
            Consume::Read(511),
            Consume::Read(513),
            Consume::Read(8191),
            Consume::Buf(512),
            Consume::Buf(8191),
            Consume::Mixed(1),
            Consume::Mixed(700),
            Consume::ReadCycle(vec![8191, 1, 2]),
        ]);
    }
    v
}

// ------------------------------------------------------------------------------------------
// mixed consumer schedules: ONE reader is driven through several access styles in one session
// (`read(n)`, zero-length reads, `fill_buf`/`consume(k)` incl. a pure peek, then `read_to_end` /
// `read_to_string` / a loop of mixed steps). `shim::Consume` only has homogeneous patterns.

#[derive(Clone, Debug, PartialEq, Eq, Hash)]
enum Op {
    /// `read` into a buffer of n octets; n = 0 is a zero-length read (returns Ok(0), not an end of stream)
    Read(usize),
    /// `fill_buf`, take min(k, available) octets and `consume` exactly those (k = 0: a peek, `consume(0)`)
    Fill(usize),
}

#[derive(Clone, Debug, PartialEq, Eq, Hash)]
enum Fin {
    /// `read_to_end`
    ToEnd,
    /// `read_to_string` (only generated for payloads that are valid UTF-8; if the prefix stopped inside a
    /// multi-octet character the driver first completes that character with one-octet reads)
    ToString,
    /// cycle through the steps until the end of the stream
    Ops(Vec<Op>),
}

#[derive(Clone, Debug, PartialEq, Eq, Hash)]
struct Mix {
    /// prefix steps
    pre: Vec<Op>,
    /// the prefix is cycled until at least this many octets were released (0: it is run once)
    until: usize,
    fin: Fin,
    /// after the end of the stream was reported: one more `read`, `fill_buf` and `read_to_end`; they must
    /// release nothing and must not fail (a consumer that asks once more gets the same result)
    probe_after_end: bool,
}

impl Mix {
    fn new(pre: &[Op], until: usize, fin: Fin) -> Self {
        Mix { pre: pre.to_vec(), until, fin, probe_after_end: false }
    }
    fn probe(mut self) -> Self {
        self.probe_after_end = true;
        self
    }
    fn name(&self) -> String {
        fn ops(v: &[Op]) -> String {
            v.iter()
                .map(|o| match o {
                    Op::Read(n) => format!("r{n}"),
                    Op::Fill(usize::MAX) => "fall".to_string(),
                    Op::Fill(k) => format!("f{k}"),
                })
                .collect::<Vec<_>>()
                .join(",")
        }
        let fin = match &self.fin {
            Fin::ToEnd => "read_to_end".to_string(),
            Fin::ToString => "read_to_string".to_string(),
            Fin::Ops(v) => format!("loop[{}]", ops(v)),
        };
        let until = if self.until > 0 { format!("*until{}", self.until) } else { String::new() };
        format!("[{}]{until}>{fin}{}", ops(&self.pre), if self.probe_after_end { ">probe" } else { "" })
    }
    fn fin_class(&self) -> &'static str {
        match self.fin {
            Fin::ToEnd => "read_to_end",
            Fin::ToString => "read_to_string",
            Fin::Ops(_) => "loop",
        }
    }
    /// access styles used before the final step (coverage evidence)
    fn pre_class(&self) -> &'static str {
        let r = self.pre.iter().any(|o| matches!(o, Op::Read(n) if *n > 0));
        let z = self.pre.iter().any(|o| matches!(o, Op::Read(0)));
        let p = self.pre.iter().any(|o| matches!(o, Op::Fill(0)));
        let f = self.pre.iter().any(|o| matches!(o, Op::Fill(k) if *k > 0));
        match (r, f, p, z) {
            (false, false, false, false) => "none",
            (true, false, false, false) => "read",
            (false, true, false, false) => "fill-consume",
            (false, false, true, false) => "peek",
            (false, false, false, true) => "zero-read",
            _ => "several",
        }
    }
}

/// The mixed schedules for a reader whose internal window is `b` octets (8192 for the message reader layers
/// and the decryptors). `text`: the payload is valid UTF-8, so `read_to_string` is a legitimate consumer.
fn mixes(b: usize, text: bool, thorough: bool) -> Vec<Mix> {
    use Op::{Fill, Read};
    let all = usize::MAX;
    let mut v = vec![
        // one access of another style, then read_to_end
        Mix::new(&[Read(0)], 0, Fin::ToEnd),
        Mix::new(&[Read(1)], 0, Fin::ToEnd),
        Mix::new(&[Read(7)], 0, Fin::ToEnd),
        Mix::new(&[Read(b - 1)], 0, Fin::ToEnd),
        Mix::new(&[Read(b)], 0, Fin::ToEnd),
        Mix::new(&[Read(b + 1)], 0, Fin::ToEnd),
        Mix::new(&[Fill(0)], 0, Fin::ToEnd),
        Mix::new(&[Fill(0), Fill(0)], 0, Fin::ToEnd).probe(),
        Mix::new(&[Fill(1)], 0, Fin::ToEnd),
        Mix::new(&[Fill(b - 1)], 0, Fin::ToEnd),
        Mix::new(&[Fill(all)], 0, Fin::ToEnd),
        Mix::new(&[Read(5), Fill(0)], 0, Fin::ToEnd),
        Mix::new(&[Fill(0), Read(5)], 0, Fin::ToEnd),
        Mix::new(&[Fill(3), Read(0), Read(4)], 0, Fin::ToEnd),
        // read_to_end after a partial consumption that crosses / stops exactly at the window edges
        Mix::new(&[Fill(100)], b + 1, Fin::ToEnd),
        Mix::new(&[Read(b / 2)], b, Fin::ToEnd),
        Mix::new(&[Read(3000)], 2 * b + 1, Fin::ToEnd),
        Mix::new(&[Fill(all), Read(1)], b + 2, Fin::ToEnd).probe(),
        Mix::new(&[Fill(all)], 2 * b, Fin::ToEnd),
        // loops that interleave zero-length reads, peeks, reads and fill_buf/consume
        Mix::new(&[], 0, Fin::Ops(vec![Read(0), Read(7)])),
        Mix::new(&[], 0, Fin::Ops(vec![Read(0), Read(b), Read(0)])).probe(),
        Mix::new(&[], 0, Fin::Ops(vec![Fill(0), Read(3), Fill(2)])),
        Mix::new(&[], 0, Fin::Ops(vec![Read(0), Fill(0), Fill(all)])),
        Mix::new(&[Read(b + 1)], 0, Fin::Ops(vec![Fill(5), Read(b - 1)])),
        Mix::new(&[], 0, Fin::ToEnd).probe(),
    ];
    if text {
        v.extend([
            Mix::new(&[], 0, Fin::ToString),
            Mix::new(&[Read(1)], 0, Fin::ToString),
            Mix::new(&[Read(0), Fill(0)], 0, Fin::ToString),
            Mix::new(&[Fill(5)], 0, Fin::ToString),
            Mix::new(&[Read(b)], 0, Fin::ToString),
            Mix::new(&[Fill(100)], b + 1, Fin::ToString).probe(),
        ]);
    }
    if thorough {
        v.extend([
            Mix::new(&[Read(2)], 0, Fin::ToEnd),
            Mix::new(&[Read(b / 2)], 0, Fin::ToEnd),
            Mix::new(&[Read(2 * b)], 0, Fin::ToEnd),
            Mix::new(&[Fill(b)], 0, Fin::ToEnd),
            Mix::new(&[Fill(b / 2), Fill(0)], 0, Fin::ToEnd),
            Mix::new(&[Read(1)], b - 1, Fin::ToEnd),
            Mix::new(&[Fill(1)], 600, Fin::ToEnd),
            Mix::new(&[Read(b), Fill(0)], 3 * b, Fin::ToEnd),
            Mix::new(&[Fill(all), Fill(0), Read(0)], 2 * b, Fin::ToEnd),
            Mix::new(&[Read(b - 1)], 0, Fin::Ops(vec![Fill(all)])),
            Mix::new(&[Fill(1)], 0, Fin::Ops(vec![Read(b)])),
            Mix::new(&[], 0, Fin::Ops(vec![Read(1), Fill(0), Fill(b - 2), Read(0)])),
        ]);
        if text {
            v.extend([Mix::new(&[Read(b - 1)], 0, Fin::ToString), Mix::new(&[Fill(all)], 0, Fin::ToString), Mix::new(&[Read(3)], 2 * b, Fin::ToString)]);
        }
    }
    v
}

/// Mixed schedules for small scopes (inputs of a few octets): every step size is 0, 1 or 2.
fn small_mixes() -> Vec<Mix> {
    use Op::{Fill, Read};
    vec![
        Mix::new(&[Read(0)], 0, Fin::ToEnd),
        Mix::new(&[Read(1)], 0, Fin::ToEnd).probe(),
        Mix::new(&[Read(2)], 0, Fin::ToEnd),
        Mix::new(&[Fill(0)], 0, Fin::ToEnd),
        Mix::new(&[Fill(1)], 0, Fin::ToEnd),
        Mix::new(&[Read(1), Fill(0), Fill(1)], 0, Fin::ToEnd),
        Mix::new(&[Read(1)], 3, Fin::ToEnd),
        Mix::new(&[], 0, Fin::Ops(vec![Read(0), Read(1)])).probe(),
        Mix::new(&[], 0, Fin::Ops(vec![Fill(0), Fill(1), Read(2)])),
    ]
}

/// What the driver needs from a reader. `BufPort` = a real `BufRead`; `ReadPort` = a plain `Read`, for
/// which a `Fill(k)` step becomes a `read` of k octets (k = 0: a zero-length read).
trait Port {
    fn rd(&mut self, buf: &mut [u8]) -> io::Result<usize>;
    /// `None`: the reader reported the end of the stream
    fn fill_take(&mut self, k: usize, out: &mut Vec<u8>) -> io::Result<Option<usize>>;
    fn to_end(&mut self, out: &mut Vec<u8>) -> io::Result<usize>;
    fn to_string(&mut self, out: &mut String) -> io::Result<usize>;
}

struct BufPort<'a, R: BufRead + ?Sized>(&'a mut R);
struct ReadPort<'a, R: Read + ?Sized>(&'a mut R);

impl<R: BufRead + ?Sized> Port for BufPort<'_, R> {
    fn rd(&mut self, buf: &mut [u8]) -> io::Result<usize> {
        self.0.read(buf)
    }
    fn fill_take(&mut self, k: usize, out: &mut Vec<u8>) -> io::Result<Option<usize>> {
        let b = self.0.fill_buf()?;
        if b.is_empty() {
            return Ok(None);
        }
        let n = k.min(b.len());
        out.extend_from_slice(&b[..n]);
        self.0.consume(n);
        Ok(Some(n))
    }
    fn to_end(&mut self, out: &mut Vec<u8>) -> io::Result<usize> {
        self.0.read_to_end(out)
    }
    fn to_string(&mut self, out: &mut String) -> io::Result<usize> {
        self.0.read_to_string(out)
    }
}

impl<R: Read + ?Sized> Port for ReadPort<'_, R> {
    fn rd(&mut self, buf: &mut [u8]) -> io::Result<usize> {
        self.0.read(buf)
    }
    fn fill_take(&mut self, k: usize, out: &mut Vec<u8>) -> io::Result<Option<usize>> {
        let mut buf = vec![0u8; k.min(8192)];
        let n = self.0.read(&mut buf)?;
        if n == 0 && k > 0 {
            return Ok(None);
        }
        out.extend_from_slice(&buf[..n]);
        Ok(Some(n))
    }
    fn to_end(&mut self, out: &mut Vec<u8>) -> io::Result<usize> {
        self.0.read_to_end(out)
    }
    fn to_string(&mut self, out: &mut String) -> io::Result<usize> {
        self.0.read_to_string(out)
    }
}

/// Runs one mixed schedule. Like `shim::drain`: stops at the first error, retries `Interrupted` of a single
/// `read` / `fill_buf` (at most 1000 times).
fn drain_mix(p: &mut dyn Port, mix: &Mix) -> crate::shim::Drained {
    use crate::shim::Drained;
    let mut out: Vec<u8> = Vec::new();
    let mut interrupts = 0usize;
    // one step; Ok(true) = the end of the stream was reported
    let mut step = |p: &mut dyn Port, op: &Op, out: &mut Vec<u8>| -> io::Result<bool> {
        loop {
            let r = match op {
                Op::Read(n) => {
                    let mut buf = vec![0u8; *n];
                    p.rd(&mut buf).map(|got| {
                        out.extend_from_slice(&buf[..got.min(*n)]);
                        got == 0 && *n > 0
                    })
                }
                Op::Fill(k) => p.fill_take(*k, out).map(|o| o.is_none()),
            };
            match r {
                Err(e) if e.kind() == io::ErrorKind::Interrupted && interrupts < 1000 => interrupts += 1,
                r => return r,
            }
        }
    };
    let mut ended = false;
    // prefix
    if !mix.pre.is_empty() {
        'pre: loop {
            let before = out.len();
            for op in &mix.pre {
                match step(p, op, &mut out) {
                    Ok(true) => {
                        ended = true;
                        break 'pre;
                    }
                    Ok(false) => {}
                    Err(e) => return Drained { data: out, err: Some(e) },
                }
                if mix.until > 0 && out.len() >= mix.until {
                    break 'pre;
                }
            }
            if mix.until == 0 || out.len() == before {
                break;
            }
        }
    }
    // final step (also when the prefix already saw the end: asking again must give nothing more)
    match &mix.fin {
        Fin::ToEnd => {
            if let Err(e) = p.to_end(&mut out) {
                return Drained { data: out, err: Some(e) };
            }
        }
        Fin::ToString => {
            // complete a character the prefix may have cut
            for _ in 0..3 {
                match std::str::from_utf8(&out) {
                    Err(e) if e.error_len().is_none() && !ended => match step(p, &Op::Read(1), &mut out) {
                        Ok(true) => ended = true,
                        Ok(false) => {}
                        Err(e) => return Drained { data: out, err: Some(e) },
                    },
                    _ => break,
                }
            }
            let mut s = String::new();
            let r = p.to_string(&mut s);
            out.extend_from_slice(s.as_bytes());
            if let Err(e) = r {
                return Drained { data: out, err: Some(e) };
            }
        }
        Fin::Ops(v) => {
            let progress = v.iter().any(|o| !matches!(o, Op::Read(0) | Op::Fill(0)));
            while !ended && progress {
                for op in v {
                    match step(p, op, &mut out) {
                        Ok(true) => {
                            ended = true;
                            break;
                        }
                        Ok(false) => {}
                        Err(e) => return Drained { data: out, err: Some(e) },
                    }
                }
            }
        }
    }
    if mix.probe_after_end {
        for op in [Op::Read(4), Op::Fill(usize::MAX)] {
            if let Err(e) = step(p, &op, &mut out) {
                return Drained { data: out, err: Some(e) };
            }
        }
        if let Err(e) = p.to_end(&mut out) {
            return Drained { data: out, err: Some(e) };
        }
    }
    Drained { data: out, err: None }
}

/// A consumer schedule: one of the shared homogeneous patterns or a local mixed one.
#[derive(Clone, Copy)]
enum AnyCons<'a> {
    S(&'a Consume),
    M(&'a Mix),
}

impl AnyCons<'_> {
    fn name(&self) -> String {
        match self {
            AnyCons::S(c) => c.name(),
            AnyCons::M(m) => m.name(),
        }
    }
}

fn drain_any<R: BufRead>(r: &mut R, c: AnyCons<'_>) -> crate::shim::Drained {
    match c {
        AnyCons::S(c) => drain(r, c),
        AnyCons::M(m) => drain_mix(&mut BufPort(r), m),
    }
}

fn drain_read_any<R: Read>(r: &mut R, c: AnyCons<'_>) -> crate::shim::Drained {
    match c {
        AnyCons::S(c) => drain_read(r, c),
        AnyCons::M(m) => drain_mix(&mut ReadPort(r), m),
    }
}

/// The same schedule without its zero-length reads (None: it has none).
fn strip_zero_reads(m: &Mix) -> Option<Mix> {
    let has = |v: &[Op]| v.iter().any(|o| matches!(o, Op::Read(0)));
    let strip = |v: &[Op]| v.iter().filter(|o| !matches!(o, Op::Read(0))).cloned().collect::<Vec<_>>();
    let fin_has = matches!(&m.fin, Fin::Ops(v) if has(v));
    if !has(&m.pre) && !fin_has {
        return None;
    }
    let mut n = m.clone();
    n.pre = strip(&m.pre);
    if let Fin::Ops(v) = &m.fin {
        n.fin = Fin::Ops(strip(v));
    }
    Some(n)
}

/// Judgement of a mixed-schedule run. A difference is reported as `C09/<comp>/mixed/..`; if the schedule contains
/// zero-length reads and the same schedule WITHOUT them agrees with R0, the zero-length read is what the reader
/// does not tolerate and the class is `C09/<comp>/zero-length-read/..` (`read(&mut [])` must return Ok(0) and
/// leave the reader untouched: std::io::Read names the empty buffer as the second meaning of Ok(0)).
fn judge_mix(ctx: &mut Ctx, comp: &str, r0: &Out, got: &Out, m: &Mix, rerun: &dyn Fn(&Mix) -> Out, what: &dyn Fn() -> String, replay: &dyn Fn() -> Value) -> bool {
    if r0.same(got) {
        return true;
    }
    let oracle = match strip_zero_reads(m) {
        Some(m2) => match crate::core::guard(|| rerun(&m2)) {
            Ok(o) if r0.same(&o) => "zero-length-read",
            _ => "mixed",
        },
        None => "mixed",
    };
    judge_as(ctx, comp, oracle, r0, got, what, replay)
}

/// Runs every (source schedule, mixed consumer) pair of a component and compares with R0.
/// `per`: 0 = full cross product, k = a window of k mixes rotating with the schedule index.
#[allow(clippy::too_many_arguments)]
fn mix_diff(ctx: &mut Ctx, comp: &str, desc: &str, r0: &Out, scheds: &[Sched], mixes: &[Mix], per: usize, replay_base: &Value, runner: &dyn Fn(&Sched, AnyCons<'_>) -> Out) {
    let salt = crate::core::hash64(&desc) as usize % 1000;
    for (si, sc) in scheds.iter().enumerate() {
        let picked: Vec<&Mix> = if per == 0 || per >= mixes.len() { mixes.iter().collect() } else { (0..per).map(|t| &mixes[(si * per + salt + t) % mixes.len()]).collect() };
        for m in picked {
            let replay = || {
                let mut v = replay_base.clone();
                v["sched"] = sched_json(sc);
                v["consumer"] = json!(m.name());
                v
            };
            let got = guarded(ctx, &format!("C09/{comp}/mixed"), replay, || runner(sc, AnyCons::M(m)));
            ctx.eval();
            let Some(got) = got else { continue };
            ctx.cover(&("mix", comp, desc, sc.name(), m.name()));
            ctx.seen(&format!("mix.{comp}"), format!("{}+{}", m.pre_class(), m.fin_class()));
            judge_mix(ctx, comp, r0, &got, m, &|m2| runner(sc, AnyCons::M(m2)), &|| format!("{comp} {desc}, source {} {}, mixed consumer {}", sc.name(), sched_json(sc), m.name()), &replay);
        }
    }
}

fn payload(rng: &mut ChaCha8Rng, n: usize, text: bool) -> Vec<u8> {
    if text {
        // compressible UTF-8 text with CRLF line ends and multi-octet characters (legal for Utf8
        // literals; exercises the CR|LF and the UTF-8 carry states across read boundaries)
        const WORDS: [&str; 8] = ["abc", "de fg", "h", "é", "€uro", "𝄞", " ", "klmno pq"];
        let mut v = Vec::with_capacity(n + 16);
        while v.len() < n {
            let l = rng.gen_range(0..14usize);
            for _ in 0..l {
                v.extend_from_slice(WORDS[rng.gen_range(0..8usize)].as_bytes());
            }
            v.extend_from_slice(b"\r\n");
        }
        v.truncate(n);
        if let Err(e) = std::str::from_utf8(&v) {
            for b in v.iter_mut().skip(e.valid_up_to()) {
                *b = b'.';
            }
        }
        if v.last() == Some(&b'\r') {
            *v.last_mut().unwrap() = b'.';
        }
        v
    } else {
        let mut v = vec![0u8; n];
        rng.fill_bytes(&mut v);
        v
    }
}

// ------------------------------------------------------------------------------------------

pub fn run(ctx: &mut Ctx) {
    // Safety net: a panic outside the guarded library calls (a harness fault, or a library panic in
    // a place no guard covers) must not take the shard down silently.
    let env = MsgEnv::new();
    let fams: [(&str, &dyn Fn(&mut Ctx)); 8] = [
        ("U", &|c: &mut Ctx| family_text_refusal(c, &env)),
        ("X", &|c: &mut Ctx| family_mixed(c, &env)),
        ("F", &|c: &mut Ctx| family_files(c, &env)),
        ("S", &family_small),
        ("D", &family_dearmor),
        ("E", &family_streams),
        ("K", &|c: &mut Ctx| family_keys(c, &env)),
        ("M", &|c: &mut Ctx| family_messages(c, &env)),
    ];
    for (name, f) in fams {
        let before = ctx.case_counter;
        let t0 = crate::core::thread_cpu_s();
        let r = crate::core::guard(|| f(&mut *ctx));
        ctx.tally(&format!("cpu_ms.family.{name}"), ((crate::core::thread_cpu_s() - t0) * 1000.0) as u64);
        if let Err(p) = r {
            ctx.inconclusive(format!("family {name}: unguarded panic after case {} (this shard lost the rest of the family): {} at {}", ctx.case_counter.saturating_sub(before), p.msg, p.loc));
        }
    }
}

// ==========================================================================================
// Family S: small components, exhaustive compositions

const B64: &[u8; 64] = b"ABCDEFGHIJKLMNOPQRSTUVWXYZabcdefghijklmnopqrstuvwxyz0123456789+/";

fn run_b64_decoder(text: &Arc<Vec<u8>>, sched: &Sched, cons: &Consume, fault: Option<Fault>) -> (Out, LogRef) {
    let src = Src::new(text, sched).fault(fault);
    let log = src.log();
    let mut d = Base64Decoder::new(src);
    let r = drain_read(&mut d, cons);
    let out = match r.err {
        None => Out::ok(r.data, ""),
        Some(e) => Out::err("read", e, r.data),
    };
    (out, log)
}

fn run_b64_reader(text: &Arc<Vec<u8>>, sched: &Sched, cons: &Consume, fault: Option<Fault>) -> (Out, LogRef) {
    let src = Src::new(text, sched).fault(fault);
    let log = src.log();
    let mut d = Base64Reader::new(src);
    let r = drain_read(&mut d, cons);
    let out = match r.err {
        None => Out::ok(r.data, ""),
        Some(e) => Out::err("read", e, r.data),
    };
    (out, log)
}

fn run_b64_stack(text: &Arc<Vec<u8>>, sched: &Sched, cons: &Consume, fault: Option<Fault>) -> (Out, LogRef) {
    run_b64_stack_any(text, sched, AnyCons::S(cons), fault)
}

fn run_b64_stack_any(text: &Arc<Vec<u8>>, sched: &Sched, cons: AnyCons<'_>, fault: Option<Fault>) -> (Out, LogRef) {
    let src = Src::new(text, sched).fault(fault);
    let log = src.log();
    let mut d = Base64Decoder::new(Base64Reader::new(src));
    let r = drain_read_any(&mut d, cons);
    let out = match r.err {
        None => Out::ok(r.data, ""),
        Some(e) => Out::err("read", e, r.data),
    };
    (out, log)
}

fn run_normalized(text: &Arc<Vec<u8>>, lb: LineBreak, sched: &Sched, cons: &Consume, fault: Option<Fault>) -> (Out, LogRef) {
    run_normalized_any(text, lb, sched, AnyCons::S(cons), fault)
}

fn run_normalized_any(text: &Arc<Vec<u8>>, lb: LineBreak, sched: &Sched, cons: AnyCons<'_>, fault: Option<Fault>) -> (Out, LogRef) {
    let src = Src::new(text, sched).fault(fault);
    let log = src.log();
    let mut d = NormalizedReader::new(src, lb);
    let r = drain_read_any(&mut d, cons);
    let out = match r.err {
        None => Out::ok(r.data, ""),
        Some(e) => Out::err("read", e, r.data),
    };
    (out, log)
}

fn lb_name(lb: LineBreak) -> &'static str {
    match lb {
        LineBreak::Crlf => "crlf",
        LineBreak::Lf => "lf",
        LineBreak::Cr => "cr",
    }
}

/// LineWriter with width 4 (small scope) or 64: chunks written with write_all, then finish().
fn run_line_writer(data: &[u8], splits: &[usize], wide: bool, lb: LineBreak, sink_sched: &Sched, fault: Option<Fault>) -> (Out, usize, usize) {
    let mut sink = Sink::new(sink_sched).fault(fault);
    let out = sink.out.clone();
    let log = sink.log.clone();
    let res: io::Result<()> = (|| {
        if wide {
            let mut w = LineWriter::<_, U64>::new(&mut sink, lb);
            for c in chunks_by_splits(data, splits) {
                w.write_all(c)?;
            }
            w.finish()?;
        } else {
            let mut w = LineWriter::<_, U4>::new(&mut sink, lb);
            for c in chunks_by_splits(data, splits) {
                w.write_all(c)?;
            }
            w.finish()?;
        }
        Ok(())
    })();
    let bytes = out.borrow().clone();
    let l = log.borrow();
    let o = match res {
        Ok(()) => Out::ok(bytes, ""),
        Err(e) => Out::err("write", e, bytes),
    };
    (o, l.calls, l.faults_raised)
}

fn nth_string(mut idx: u64, len: usize, alpha: &[u8]) -> Vec<u8> {
    let mut s = vec![0u8; len];
    for c in s.iter_mut() {
        *c = alpha[(idx % alpha.len() as u64) as usize];
        idx /= alpha.len() as u64;
    }
    s
}

fn small_consumers() -> Vec<Consume> {
    vec![Consume::ToEnd, Consume::Read(1), Consume::Read(2), Consume::Read(3), Consume::Read(5), Consume::Read(4096)]
}

fn family_small(ctx: &mut Ctx) {
    let nmax = ctx.qt(10usize, 12usize);
    let cons = small_consumers();
    let smix = small_mixes();

    // --- S1: Base64Decoder over a raw source, Base64Reader, and both stacked -----------------
    // texts: canonical base64 of d bytes (d = 0..=nmax*3/4) without and with line breaks
    for variant in 0..3u32 {
        for dlen in 0..=9usize {
            if !ctx.mine() {
                continue;
            }
            let mut rng = Ctx::fixed_rng("c09.b64", dlen as u64);
            let data: Vec<u8> = (0..dlen).map(|_| rng.gen()).collect();
            let enc = rfc::armor::b64_encode(&data).into_bytes();
            // variant 0: plain, 1: LF after every 4 chars, 2: CRLF in the middle
            let mut text = vec![];
            for (i, c) in enc.iter().enumerate() {
                if variant == 1 && i > 0 && i % 4 == 0 {
                    text.push(b'\n');
                }
                if variant == 2 && i == enc.len() / 2 {
                    text.extend_from_slice(b"\r\n");
                }
                text.push(*c);
            }
            if text.len() > nmax {
                continue;
            }
            let n = text.len();
            let text = Arc::new(text);
            let stripped: Vec<u8> = text.iter().copied().filter(|c| *c != b'\r' && *c != b'\n').collect();
            describe_case(&format!("S1 b64 variant {variant} dlen {dlen} text {:?}", String::from_utf8_lossy(&text)));
            ctx.cover(&("S1", variant, dlen));
            ctx.seen("S.b64.text_len", n.to_string());

            let comps: [(&str, bool); 3] = [("base64-decoder", variant == 0), ("base64-reader", true), ("base64-stack", true)];
            for (comp, applicable) in comps {
                if !applicable {
                    continue;
                }
                let runner = |sc: &Sched, c: &Consume, f: Option<Fault>| match comp {
                    "base64-decoder" => run_b64_decoder(&text, sc, c, f),
                    "base64-reader" => run_b64_reader(&text, sc, c, f),
                    _ => run_b64_stack(&text, sc, c, f),
                };
                let r0 = guarded(ctx, &format!("C09/{comp}/sched"), || json!({"text": hexs(&text)}), || runner(&Sched::All, &Consume::ToEnd, None).0);
                ctx.eval();
                let Some(r0) = r0 else { continue };
                // anchor R0 on the independent reference: the all-at-once history must itself be right
                let want: &[u8] = if comp == "base64-reader" { &stripped } else { &data };
                if r0.err || r0.data != want {
                    ctx.violation(
                        format!("C09/{comp}/r0-wrong"),
                        format!("all-at-once run of {comp} over {:?} gives {} (want {} bytes)", String::from_utf8_lossy(&text), r0.brief(), want.len()),
                        json!({"text": hexs(&text)}),
                    );
                    continue;
                }
                let ncomp = 1u64 << n.saturating_sub(1);
                for mask in 0..ncomp {
                    let sc = Sched::SplitAt(composition_splits(n, mask));
                    for c in &cons {
                        let replay = || json!({"family": "S1", "component": comp, "text": hexs(&text), "mask": mask, "consumer": c.name()});
                        let got = guarded(ctx, &format!("C09/{comp}/sched"), replay, || runner(&sc, c, None).0);
                        ctx.eval();
                        let Some(got) = got else { continue };
                        judge(ctx, comp, &r0, &got, &|| format!("{comp} over {:?}, source pieces split at {:?}, consumer {}", String::from_utf8_lossy(&text), composition_splits(n, mask), c.name()), &replay);
                    }
                    if comp == "base64-stack" {
                        for t in 0..2u64 {
                            let m = &smix[((mask * 2 + t) as usize + dlen) % smix.len()];
                            let replay = || json!({"family": "S1", "component": comp, "text": hexs(&text), "mask": mask, "consumer": m.name()});
                            let got = guarded(ctx, &format!("C09/{comp}/mixed"), replay, || run_b64_stack_any(&text, &sc, AnyCons::M(m), None).0);
                            ctx.eval();
                            let Some(got) = got else { continue };
                            ctx.seen("mix.base64-stack", format!("{}+{}", m.pre_class(), m.fin_class()));
                            judge_mix(ctx, comp, &r0, &got, m, &|m2| run_b64_stack_any(&text, &sc, AnyCons::M(m2), None).0, &|| format!("{comp} over {:?}, source pieces split at {:?}, mixed consumer {}", String::from_utf8_lossy(&text), composition_splits(n, mask), m.name()), &replay);
                        }
                    }
                }
                ctx.tally(&format!("S.{comp}.compositions"), ncomp);
                // faults: every call index of two schedules
                for sc in [Sched::All, Sched::Fixed(1), Sched::Fixed(3)] {
                    let Some((_, log)) = guarded(ctx, &format!("C09/{comp}/sched"), || json!({"text": hexs(&text)}), || runner(&sc, &Consume::Read(2), None)) else { continue };
                    let ncalls = log.lock().unwrap().calls;
                    for k in 0..ncalls {
                        for (kind, sticky) in [(FaultKind::Other, false), (FaultKind::Other, true), (FaultKind::Interrupted, false), (FaultKind::UnexpectedEof, false), (FaultKind::UnexpectedEof, true)] {
                            let f = Fault { at_call: k, sticky, kind };
                            let replay = || json!({"family": "S1", "component": comp, "text": hexs(&text), "sched": sched_json(&sc), "fault_call": k, "sticky": sticky, "kind": kind_name(kind)});
                            let r = guarded(ctx, &fault_prefix(comp, kind), replay, || runner(&sc, &Consume::Read(2), Some(f)));
                            ctx.eval();
                            let Some((got, log)) = r else { continue };
                            let raised = log.lock().unwrap().faults_raised;
                            judge_fault(ctx, comp, &r0, &got, raised, &f, &|| format!("{comp} over {:?} sched {}", String::from_utf8_lossy(&text), sc.name()), &replay);
                        }
                    }
                }
            }
        }
    }

    // --- S1b: ARBITRARY short texts over {A, B, =, LF, !}: mostly not decodable (the decoder stops silently at the
    // first quantum it cannot decode, it never refuses). R0 decides how much is decoded (no expectation
    // of our own); whether the text is refused, and what was decoded if it is accepted, must not depend on the
    // composition of the source reads nor on the consumer ---------------------------------------------------
    let blen = ctx.qt(5usize, 6usize);
    for len in 1..=blen {
        let nstr = 5u64.pow(len as u32);
        for group in 0..nstr.div_ceil(125) {
            if !ctx.mine() {
                continue;
            }
            describe_case(&format!("S1b arbitrary base64 texts of length {len}, group {group}"));
            for si in group * 125..((group + 1) * 125).min(nstr) {
                let text = Arc::new(nth_string(si, len, b"AB=\n!"));
                ctx.cover(&("S1b", &*text));
                for comp in ["base64-decoder", "base64-reader", "base64-stack"] {
                    let runner = |sc: &Sched, c: AnyCons<'_>| match comp {
                        "base64-decoder" => {
                            let mut d = Base64Decoder::new(Src::new(&text, sc));
                            let r = drain_read_any(&mut d, c);
                            r.err.map(|e| Out::err("read", e, vec![])).unwrap_or(Out::ok(r.data, ""))
                        }
                        "base64-reader" => {
                            let mut d = Base64Reader::new(Src::new(&text, sc));
                            let r = drain_read_any(&mut d, c);
                            r.err.map(|e| Out::err("read", e, vec![])).unwrap_or(Out::ok(r.data, ""))
                        }
                        _ => run_b64_stack_any(&text, sc, c, None).0,
                    };
                    let Some(r0) = guarded(ctx, &format!("C09/{comp}/sched"), || json!({"family": "S1b", "text": hexs(&text)}), || runner(&Sched::All, AnyCons::S(&Consume::ToEnd))) else { continue };
                    ctx.eval();
                    ctx.seen(&format!("S1b.{comp}.r0-class"), if r0.err { "refused" } else { "accepted" });
                    for mask in 0..1u64 << (len - 1) {
                        let sc = Sched::SplitAt(composition_splits(len, mask));
                        for c in [Consume::ToEnd, Consume::Read(1), Consume::Read(3)] {
                            if mask == 0 && c == Consume::ToEnd {
                                continue;
                            }
                            let replay = || json!({"family": "S1b", "component": comp, "text": hexs(&text), "mask": mask, "consumer": c.name()});
                            let got = guarded(ctx, &format!("C09/{comp}/sched"), replay, || runner(&sc, AnyCons::S(&c)));
                            ctx.eval();
                            let Some(got) = got else { continue };
                            judge(ctx, comp, &r0, &got, &|| format!("{comp} over the arbitrary text {:?}, source pieces split at {:?}, consumer {}", String::from_utf8_lossy(&text), composition_splits(len, mask), c.name()), &replay);
                        }
                    }
                }
            }
        }
    }

    // --- S2: long base64 streams (decoder buffer 1024 / 768), adversarial schedules ------------
    let long_sizes: Vec<usize> = if ctx.quick() {
        vec![1, 3, 765, 767, 768, 769, 1536, 1537, 3000]
    } else {
        vec![1, 2, 3, 48, 765, 766, 767, 768, 769, 770, 1535, 1536, 1537, 3000, 8192, 24581]
    };
    for (i, dlen) in long_sizes.iter().enumerate() {
        for lines in [false, true] {
            if !ctx.mine() {
                continue;
            }
            let mut rng = ctx.rng("S2", i as u64);
            let data = payload(&mut rng, *dlen, false);
            let enc = rfc::armor::b64_encode(&data).into_bytes();
            let mut text = vec![];
            for (j, c) in enc.iter().enumerate() {
                if lines && j > 0 && j % 64 == 0 {
                    text.push(b'\n');
                }
                text.push(*c);
            }
            let n = text.len();
            let text = Arc::new(text);
            ctx.cover(&("S2", dlen, lines));
            describe_case(&format!("S2 long base64 dlen {dlen} lines {lines}"));
            let seeds: Vec<u64> = (0..ctx.qt(3, 8)).map(|_| rng.gen()).collect();
            let scheds = adversarial(n, &[1024, 2048, 768], &seeds, !ctx.quick());
            let lcons = [Consume::ToEnd, Consume::Read(1), Consume::Read(7), Consume::Read(767), Consume::Read(768), Consume::Read(769), Consume::Read(4096)];
            let comps: Vec<&str> = if lines { vec!["base64-stack"] } else { vec!["base64-decoder", "base64-stack"] };
            for comp in comps {
                let runner = |sc: &Sched, c: &Consume, f: Option<Fault>| match comp {
                    "base64-decoder" => run_b64_decoder(&text, sc, c, f),
                    _ => run_b64_stack(&text, sc, c, f),
                };
                let Some(r0) = guarded(ctx, &format!("C09/{comp}/sched"), || json!({"dlen": dlen}), || runner(&Sched::All, &Consume::ToEnd, None).0) else { continue };
                ctx.eval();
                if r0.err || r0.data != data {
                    ctx.violation(format!("C09/{comp}/r0-wrong"), format!("all-at-once run over {} chars gives {}", n, r0.brief()), json!({"family": "S2", "dlen": dlen, "lines": lines}));
                    continue;
                }
                for sc in &scheds {
                    for c in &lcons {
                        let replay = || json!({"family": "S2", "component": comp, "dlen": dlen, "lines": lines, "sched": sched_json(sc), "consumer": c.name(), "text": hexs(&text)});
                        let got = guarded(ctx, &format!("C09/{comp}/sched"), replay, || runner(sc, c, None).0);
                        ctx.eval();
                        let Some(got) = got else { continue };
                        judge(ctx, comp, &r0, &got, &|| format!("{comp} over {n} base64 chars (lines={lines}), source {}, consumer {}", sc.name(), c.name()), &replay);
                    }
                }
            }
        }
    }

    // --- S3: NormalizedReader: every string over {CR, LF, a} x every composition ---------------
    let slen = ctx.qt(7usize, 8usize);
    for len in 0..=slen {
        let nstr = 3u64.pow(len as u32);
        for group in 0..nstr.div_ceil(27) {
            if !ctx.mine() {
                continue;
            }
            for si in group * 27..((group + 1) * 27).min(nstr) {
                let s = Arc::new(nth_string(si, len, b"\r\na"));
                ctx.cover(&("S3", &*s));
                for lb in [LineBreak::Crlf, LineBreak::Lf, LineBreak::Cr] {
                    let comp = "normalized-reader";
                    let Some(r0) = guarded(ctx, "C09/normalized-reader/sched", || json!({"s": hexs(&s)}), || run_normalized(&s, lb, &Sched::All, &Consume::ToEnd, None).0) else { continue };
                    ctx.eval();
                    // independent anchor (LF and CRLF -> line break; lone CR kept)
                    let want = ref_normalize(&s, lb);
                    if r0.err || r0.data != want {
                        ctx.violation("C09/normalized-reader/r0-wrong", format!("NormalizedReader({:?},{}) all-at-once gives {:?}, reference {:?}", String::from_utf8_lossy(&s), lb_name(lb), String::from_utf8_lossy(&r0.data), String::from_utf8_lossy(&want)), json!({"s": hexs(&s), "lb": lb_name(lb)}));
                        continue;
                    }
                    let ncomp = 1u64 << len.saturating_sub(1);
                    for mask in 0..ncomp {
                        let sc = Sched::SplitAt(composition_splits(len, mask));
                        for c in [Consume::ToEnd, Consume::Read(1), Consume::Read(3)] {
                            let replay = || json!({"family": "S3", "s": hexs(&s), "lb": lb_name(lb), "mask": mask, "consumer": c.name()});
                            let got = guarded(ctx, "C09/normalized-reader/sched", replay, || run_normalized(&s, lb, &sc, &c, None).0);
                            ctx.eval();
                            let Some(got) = got else { continue };
                            judge(ctx, comp, &r0, &got, &|| format!("NormalizedReader({:?},{}) source split at {:?} consumer {}", String::from_utf8_lossy(&s), lb_name(lb), composition_splits(len, mask), c.name()), &replay);
                        }
                        {
                            let m = &smix[(si + mask) as usize % smix.len()];
                            let replay = || json!({"family": "S3", "s": hexs(&s), "lb": lb_name(lb), "mask": mask, "consumer": m.name()});
                            let got = guarded(ctx, "C09/normalized-reader/mixed", replay, || run_normalized_any(&s, lb, &sc, AnyCons::M(m), None).0);
                            ctx.eval();
                            if let Some(got) = got {
                                ctx.seen("mix.normalized-reader", format!("{}+{}", m.pre_class(), m.fin_class()));
                                judge_mix(ctx, comp, &r0, &got, m, &|m2| run_normalized_any(&s, lb, &sc, AnyCons::M(m2), None).0, &|| format!("NormalizedReader({:?},{}) source split at {:?} mixed consumer {}", String::from_utf8_lossy(&s), lb_name(lb), composition_splits(len, mask), m.name()), &replay);
                            }
                        }
                    }
                }
            }
        }
    }
    // window edge (512) with every pattern of length <= 3 straddling it, adversarial schedules, faults
    for plen in 1..=3usize {
        for pi in 0..3u64.pow(plen as u32) {
            if !ctx.mine() {
                continue;
            }
            let pat = nth_string(pi, plen, b"\r\na");
            ctx.cover(&("S3e", &pat));
            for edge in [512usize, 1024] {
                for shift in 0..=plen {
                    let mut s = vec![b'x'; edge - shift];
                    s.extend_from_slice(&pat);
                    s.extend_from_slice(b"yz");
                    let n = s.len();
                    let s = Arc::new(s);
                    let lb = [LineBreak::Crlf, LineBreak::Lf, LineBreak::Cr][(pi as usize + shift) % 3];
                    let Some(r0) = guarded(ctx, "C09/normalized-reader/sched", || json!({"s": hexs(&s)}), || run_normalized(&s, lb, &Sched::All, &Consume::ToEnd, None).0) else { continue };
                    ctx.eval();
                    let want = ref_normalize(&s, lb);
                    if r0.err || r0.data != want {
                        ctx.violation("C09/normalized-reader/r0-wrong", format!("NormalizedReader all-at-once differs from reference for pattern {:?} at {}", String::from_utf8_lossy(&pat), edge - shift), json!({"s": hexs(&s), "lb": lb_name(lb)}));
                        continue;
                    }
                    let scheds = [
                        Sched::Fixed(1),
                        Sched::Fixed(511),
                        Sched::Fixed(513),
                        Sched::SplitAt(vec![edge - 1, edge, edge + 1]),
                        Sched::SplitAt(vec![edge - shift, edge]),
                        Sched::Cycle(vec![511, 1, 2]),
                        Sched::Random(pi * 7 + shift as u64, 300),
                    ];
                    for sc in &scheds {
                        for c in [Consume::ToEnd, Consume::Read(1), Consume::Read(511), Consume::Read(600)] {
                            let replay = || json!({"family": "S3e", "s": hexs(&s), "lb": lb_name(lb), "sched": sched_json(sc), "consumer": c.name()});
                            let got = guarded(ctx, "C09/normalized-reader/sched", replay, || run_normalized(&s, lb, sc, &c, None).0);
                            ctx.eval();
                            let Some(got) = got else { continue };
                            judge(ctx, "normalized-reader", &r0, &got, &|| format!("NormalizedReader pattern {:?} at offset {} ({} bytes) source {} consumer {}", String::from_utf8_lossy(&pat), edge - shift, n, sc.name(), c.name()), &replay);
                        }
                    }
                    // faults at every call of three schedules
                    if shift == 0 && edge == 512 {
                        for sc in [Sched::All, Sched::Fixed(200), Sched::SplitAt(vec![511, 512, 513])] {
                            let Some((_, log)) = guarded(ctx, "C09/normalized-reader/sched", || json!({"s": hexs(&s)}), || run_normalized(&s, lb, &sc, &Consume::Read(100), None)) else { continue };
                            let ncalls = log.lock().unwrap().calls;
                            for k in 0..ncalls {
                                for (kind, sticky) in [(FaultKind::Other, false), (FaultKind::Other, true), (FaultKind::Interrupted, false), (FaultKind::UnexpectedEof, false), (FaultKind::UnexpectedEof, true)] {
                                    let f = Fault { at_call: k, sticky, kind };
                                    let replay = || json!({"family": "S3e", "s": hexs(&s), "lb": lb_name(lb), "sched": sched_json(&sc), "fault_call": k, "sticky": sticky, "kind": kind_name(kind)});
                                    let r = guarded(ctx, &fault_prefix("normalized-reader", kind), replay, || run_normalized(&s, lb, &sc, &Consume::Read(100), Some(f)));
                                    ctx.eval();
                                    let Some((got, log)) = r else { continue };
                                    let raised = log.lock().unwrap().faults_raised;
                                    judge_fault(ctx, "normalized-reader", &r0, &got, raised, &f, &|| format!("NormalizedReader over {n} bytes sched {}", sc.name()), &replay);
                                }
                            }
                        }
                    }
                }
            }
        }
    }

    // --- S4: LineWriter (width 4): all compositions of the written chunks; sink schedules --------
    for len in 0..=nmax {
        if !ctx.mine() {
            continue;
        }
        let data: Vec<u8> = (0..len).map(|i| b'a' + i as u8).collect();
        ctx.cover(&("S4", len));
        for lb in [LineBreak::Lf, LineBreak::Crlf] {
            let Some((r0, _, _)) = guarded(ctx, "C09/line-writer/sched", || json!({"len": len}), || run_line_writer(&data, &[], false, lb, &Sched::All, None)) else { continue };
            ctx.eval();
            let want = ref_lines(&data, 4, lb);
            if r0.err || r0.data != want {
                ctx.violation("C09/line-writer/r0-wrong", format!("LineWriter<4> single write of {len} bytes gives {:?}, reference {:?}", String::from_utf8_lossy(&r0.data), String::from_utf8_lossy(&want)), json!({"len": len, "lb": lb_name(lb)}));
                continue;
            }
            let ncomp = 1u64 << len.saturating_sub(1);
            for mask in 0..ncomp {
                let splits = composition_splits(len, mask);
                for sink_sc in [Sched::All, Sched::Fixed(1), Sched::Fixed(3)] {
                    let replay = || json!({"family": "S4", "len": len, "lb": lb_name(lb), "mask": mask, "sink": sched_json(&sink_sc)});
                    let got = guarded(ctx, "C09/line-writer/sched", replay, || run_line_writer(&data, &splits, false, lb, &sink_sc, None).0);
                    ctx.eval();
                    let Some(got) = got else { continue };
                    judge(ctx, "line-writer", &r0, &got, &|| format!("LineWriter<4>({}) {len} bytes written in chunks split at {:?}, sink {}", lb_name(lb), splits, sink_sc.name()), &replay);
                }
            }
            // sink faults at every call, written in 3-byte chunks
            let splits: Vec<usize> = (1..len).filter(|i| i % 3 == 0).collect();
            let Some((_, ncalls, _)) = guarded(ctx, "C09/line-writer/sched", || json!({"len": len}), || run_line_writer(&data, &splits, false, lb, &Sched::Fixed(2), None)) else { continue };
            for k in 0..ncalls {
                for (kind, sticky) in [(FaultKind::Other, false), (FaultKind::Other, true), (FaultKind::Interrupted, false), (FaultKind::UnexpectedEof, false), (FaultKind::UnexpectedEof, true)] {
                    let f = Fault { at_call: k, sticky, kind };
                    let replay = || json!({"family": "S4", "len": len, "lb": lb_name(lb), "fault_call": k, "sticky": sticky, "kind": kind_name(kind)});
                    let r = guarded(ctx, &fault_prefix("line-writer", kind), replay, || run_line_writer(&data, &splits, false, lb, &Sched::Fixed(2), Some(f)));
                    ctx.eval();
                    let Some((got, _, raised)) = r else { continue };
                    judge_fault(ctx, "line-writer", &r0, &got, raised, &f, &|| format!("LineWriter<4> {len} bytes, sink accepts 2 bytes per write"), &replay);
                }
            }
        }
    }
    // width 64, random chunkings
    for i in 0..ctx.qt(100u64, 1000u64) {
        if !ctx.mine() {
            continue;
        }
        let mut rng = ctx.rng("S4w", i);
        let len = [0usize, 1, 63, 64, 65, 127, 128, 129, 640, 1000][(i % 10) as usize];
        let data = payload(&mut rng, len, false);
        ctx.cover(&("S4w", i));
        let Some((r0, _, _)) = guarded(ctx, "C09/line-writer/sched", || json!({"len": len}), || run_line_writer(&data, &[], true, LineBreak::Lf, &Sched::All, None)) else { continue };
        ctx.eval();
        if r0.err || r0.data != ref_lines(&data, 64, LineBreak::Lf) {
            ctx.violation("C09/line-writer/r0-wrong", format!("LineWriter<64> single write of {len} bytes differs from reference"), json!({"len": len, "data": hexs(&data)}));
            continue;
        }
        for j in 0..8 {
            let mut splits: Vec<usize> = (0..rng.gen_range(0..12usize)).map(|_| rng.gen_range(0..=len)).filter(|o| *o > 0 && *o < len).collect();
            if j == 0 {
                splits = (1..len).collect();
            }
            splits.sort_unstable();
            splits.dedup();
            let sink_sc = [Sched::All, Sched::Fixed(1), Sched::Fixed(64), Sched::Random(i, 70)][j % 4].clone();
            let replay = || json!({"family": "S4w", "data": hexs(&data), "splits": splits, "sink": sched_json(&sink_sc)});
            let got = guarded(ctx, "C09/line-writer/sched", replay, || run_line_writer(&data, &splits, true, LineBreak::Lf, &sink_sc, None).0);
            ctx.eval();
            let Some(got) = got else { continue };
            judge(ctx, "line-writer", &r0, &got, &|| format!("LineWriter<64> {len} bytes, {} chunks, sink {}", splits.len() + 1, sink_sc.name()), &replay);
        }
    }

    // --- S5: SignatureHasher as io::Write: chunked writes => same digest ----------------------
    let key = zoo::key(&zoo::Spec::simple(false, zoo::Alg::Ed25519Legacy, None), 0);
    let signer = RecSigner::dry(&key.primary_key);
    let mk = |typ: SignatureType| {
        let mut c = SignatureConfig::v4(typ, key.primary_key.algorithm(), HashAlgorithm::Sha256);
        c.hashed_subpackets = vec![
            Subpacket::regular(SubpacketData::SignatureCreationTime(Timestamp::from_secs(1_700_000_000))).unwrap(),
            Subpacket::regular(SubpacketData::IssuerFingerprint(key.primary_key.fingerprint())).unwrap(),
        ];
        c
    };
    // `empties`: additionally pass a zero-length buffer in front of, between and behind the pieces
    let digest_of_e = |typ: SignatureType, data: &[u8], splits: &[usize], empties: bool| -> Result<Vec<u8>, String> {
        let mut h = mk(typ).into_hasher().map_err(|e| e.to_string())?;
        if empties {
            h.write(&[]).map_err(|e| e.to_string())?;
        }
        for c in chunks_by_splits(data, splits) {
            h.write_all(c).map_err(|e| e.to_string())?;
            if empties {
                h.write(&[]).map_err(|e| e.to_string())?;
            }
        }
        h.sign(&signer, &Password::empty()).map_err(|e| e.to_string())?;
        let seen = signer.take();
        if seen.len() != 1 {
            return Err(format!("{} digests seen", seen.len()));
        }
        Ok(seen[0].digest.clone())
    };
    let digest_of = |typ: SignatureType, data: &[u8], splits: &[usize]| digest_of_e(typ, data, splits, false);
    for i in 0..ctx.qt(120u64, 1200u64) {
        if !ctx.mine() {
            continue;
        }
        let mut rng = ctx.rng("S5", i);
        let exhaustive = i < 12;
        let len = if exhaustive { (i as usize).min(nmax) } else { [100usize, 511, 512, 513, 1024, 4096, 8192, 9000][(i % 8) as usize] };
        let data: Vec<u8> = (0..len).map(|_| b"\r\n\r\nab \t"[rng.gen_range(0..8usize)]).collect();
        ctx.cover(&("S5", i));
        for typ in [SignatureType::Binary, SignatureType::Text] {
            let tname = if typ == SignatureType::Binary { "binary" } else { "text" };
            let Some(Ok(d0)) = guarded(ctx, "C09/signature-hasher/sched", || json!({"data": hexs(&data)}), || digest_of(typ, &data, &[])) else {
                ctx.inconclusive("S5: reference digest run failed");
                continue;
            };
            ctx.eval();
            let masks: Vec<Vec<usize>> = if exhaustive {
                (0..1u64 << len.saturating_sub(1)).map(|m| composition_splits(len, m)).collect()
            } else {
                (0..6)
                    .map(|j| {
                        let mut v: Vec<usize> = if j == 0 { (1..len).collect() } else { (0..rng.gen_range(1..40usize)).map(|_| rng.gen_range(1..len.max(2))).filter(|o| *o < len).collect() };
                        v.sort_unstable();
                        v.dedup();
                        v
                    })
                    .collect()
            };
            for splits in &masks {
                let replay = || json!({"family": "S5", "type": tname, "data": hexs(&data), "splits": splits});
                let got = guarded(ctx, "C09/signature-hasher/sched", replay, || digest_of(typ, &data, splits));
                ctx.eval();
                match got {
                    Some(Ok(d)) if d == d0 => {}
                    Some(Ok(_)) => ctx.violation(
                        format!("C09/signature-hasher/sched/digest-differs/{tname}"),
                        format!("SignatureHasher ({tname}) digest of {:?} depends on the write chunking {:?}", String::from_utf8_lossy(&data), splits),
                        replay(),
                    ),
                    Some(Err(e)) => ctx.violation("C09/signature-hasher/sched/ok-became-err", format!("chunked hashing failed: {e}"), replay()),
                    None => {}
                }
                // the same chunking with zero-length writes interleaved
                let replay_e = || json!({"family": "S5", "type": tname, "data": hexs(&data), "splits": splits, "empty_writes": true});
                let got = guarded(ctx, "C09/signature-hasher/sched", replay_e, || digest_of_e(typ, &data, splits, true));
                ctx.eval();
                match got {
                    Some(Ok(d)) if d == d0 => {}
                    Some(Ok(_)) => ctx.violation(
                        format!("C09/signature-hasher/sched/digest-differs/{tname}/empty-writes"),
                        format!("SignatureHasher ({tname}) digest of {:?} changes when zero-length writes are interleaved with the chunking {:?}", String::from_utf8_lossy(&data), splits),
                        replay_e(),
                    ),
                    Some(Err(e)) => ctx.violation("C09/signature-hasher/sched/ok-became-err", format!("chunked hashing with empty writes failed: {e}"), replay_e()),
                    None => {}
                }
            }
        }
    }
}

fn ref_normalize(s: &[u8], lb: LineBreak) -> Vec<u8> {
    let rep: &[u8] = match lb {
        LineBreak::Crlf => b"\r\n",
        LineBreak::Lf => b"\n",
        LineBreak::Cr => b"\r",
    };
    let mut out = vec![];
    let mut i = 0;
    while i < s.len() {
        if s[i] == b'\r' && i + 1 < s.len() && s[i + 1] == b'\n' {
            out.extend_from_slice(rep);
            i += 2;
        } else if s[i] == b'\n' {
            out.extend_from_slice(rep);
            i += 1;
        } else {
            out.push(s[i]);
            i += 1;
        }
    }
    out
}

fn ref_lines(data: &[u8], width: usize, lb: LineBreak) -> Vec<u8> {
    let rep: &[u8] = match lb {
        LineBreak::Crlf => b"\r\n",
        LineBreak::Lf => b"\n",
        LineBreak::Cr => b"\r",
    };
    let mut out = vec![];
    for c in data.chunks(width) {
        out.extend_from_slice(c);
        out.extend_from_slice(rep);
    }
    out
}

// ==========================================================================================
// Family D: Dearmor

fn run_dearmor(text: &Arc<Vec<u8>>, sched: &Sched, cons: &Consume, fault: Option<Fault>) -> (Out, LogRef) {
    run_dearmor_any(text, sched, AnyCons::S(cons), fault)
}

fn run_dearmor_any(text: &Arc<Vec<u8>>, sched: &Sched, cons: AnyCons<'_>, fault: Option<Fault>) -> (Out, LogRef) {
    let src = Src::new(text, sched).fault(fault);
    let log = src.log();
    let mut d = Dearmor::new(src);
    let r = drain_read_any(&mut d, cons);
    let out = match r.err {
        None => Out::ok(r.data, format!("typ={:?} headers={:?} checksum={:?}", d.typ, d.headers, d.checksum)),
        Some(e) => Out::err("read", e, r.data),
    };
    (out, log)
}

fn family_dearmor(ctx: &mut Ctx) {
    // small armors: payload d bytes, with/without CRC line, with/without header line, CRLF
    // (name, armor text, Some(payload) for a well-formed armor / None for a damaged one)
    let mut armors: Vec<(String, Vec<u8>, Option<Vec<u8>>)> = vec![];
    for (name, dlen, crc, hdr, crlf) in [
        ("d3-crc", 3usize, true, false, false),
        ("d4-nocrc", 4, false, false, false),
        ("d5-crc-hdr", 5, true, true, false),
        ("d0-crc", 0, true, false, false),
        ("d7-crc-crlf", 7, true, true, true),
        ("d48-crc", 48, true, false, false),
        ("d49-nocrc", 49, false, false, false),
    ] {
        let mut rng = Ctx::fixed_rng("c09.armor", dlen as u64);
        let data: Vec<u8> = (0..dlen).map(|_| rng.gen()).collect();
        let nl = if crlf { "\r\n" } else { "\n" };
        let mut t = format!("-----BEGIN PGP MESSAGE-----{nl}");
        if hdr {
            t.push_str(&format!("Comment: x{nl}"));
        }
        t.push_str(nl);
        let enc = rfc::armor::b64_encode(&data);
        for l in enc.as_bytes().chunks(64) {
            t.push_str(std::str::from_utf8(l).unwrap());
            t.push_str(nl);
        }
        if crc {
            let c = rfc::armor::crc24(&data);
            t.push('=');
            t.push_str(&rfc::armor::b64_encode(&[(c >> 16) as u8, (c >> 8) as u8, c as u8]));
            t.push_str(nl);
        }
        t.push_str(&format!("-----END PGP MESSAGE-----{nl}"));
        armors.push((name.to_string(), t.into_bytes(), Some(data)));
    }
    // damaged armors: whether (and after how many released octets does not matter) the dearmorer refuses them
    // must not depend on the schedules either. No expectation of our own: R0 decides the class.
    {
        let find = |name: &str| armors.iter().find(|a| a.0 == name).map(|a| String::from_utf8_lossy(&a.1).to_string()).unwrap_or_default();
        let base = find("d5-crc-hdr");
        let long = find("d48-crc");
        let crlf = find("d7-crc-crlf");
        let body_at = base.find("\n\n").map(|i| i + 2).unwrap_or(0);
        let mut damaged: Vec<(&str, String)> = vec![];
        // a wrong CRC-24
        damaged.push(("bad-crc", {
            let i = base.find("\n=").map(|i| i + 2).unwrap_or(0);
            let mut b = base.clone().into_bytes();
            b[i] = if b[i] == b'A' { b'B' } else { b'A' };
            String::from_utf8_lossy(&b).to_string()
        }));
        // an octet outside the base64 alphabet in the body
        damaged.push(("bad-char", {
            let mut b = base.clone().into_bytes();
            b[body_at + 2] = b'!';
            String::from_utf8_lossy(&b).to_string()
        }));
        // padding in the middle of the body
        damaged.push(("pad-inside", {
            let mut b = long.clone().into_bytes();
            let at = long.find("\n\n").map(|i| i + 2).unwrap_or(0) + 5;
            b[at] = b'=';
            String::from_utf8_lossy(&b).to_string()
        }));
        // the END line is missing / cut / misspelt
        damaged.push(("no-footer", base[..base.find("-----END").unwrap_or(base.len())].to_string()));
        damaged.push(("cut-footer", base[..base.len().saturating_sub(4)].to_string()));
        damaged.push(("wrong-footer", base.replace("END PGP MESSAGE", "END PGP SIGNATURE")));
        // a header line without colon, no blank line after the headers
        damaged.push(("bad-header", base.replace("Comment: x", "Comment x")));
        damaged.push(("no-blank-line", crlf.replacen("\r\n\r\n", "\r\n", 1)));
        // body cut inside a base64 quantum
        damaged.push(("cut-quantum", {
            let mut t = base[..body_at + 3].to_string();
            t.push_str("\n-----END PGP MESSAGE-----\n");
            t
        }));
        // garbage in front of the BEGIN line, text after the END line
        damaged.push(("leading-text", format!("hello\n{base}")));
        damaged.push(("trailing-text", format!("{base}trailing\n")));
        for (name, text) in damaged {
            armors.push((format!("damaged-{name}"), text.into_bytes(), None));
        }
    }
    let dmix: Vec<Mix> = {
        let mut v = small_mixes();
        v.extend([Mix::new(&[Op::Read(7)], 0, Fin::ToEnd), Mix::new(&[Op::Read(64)], 0, Fin::ToEnd), Mix::new(&[], 0, Fin::Ops(vec![Op::Read(0), Op::Read(64)])).probe()]);
        v
    };
    let cons = [Consume::ToEnd, Consume::Read(1), Consume::Read(2), Consume::Read(3), Consume::Read(64), Consume::Read(4096)];
    for (name, text, data) in &armors {
        let n = text.len();
        let text = Arc::new(text.clone());
        // R0 (per armor, computed by every shard: cheap)
        let r0 = guarded(ctx, "C09/dearmor/sched", || json!({"armor": name}), || run_dearmor(&text, &Sched::All, &Consume::ToEnd, None).0);
        ctx.seen("D.r0-class", match &r0 {
            Some(r) if r.err => "refused",
            Some(_) => "accepted",
            None => "panic",
        });
        let r0 = match r0 {
            Some(r) if data.is_none() => r,
            Some(r) if !r.err && Some(&r.data) == data.as_ref() => r,
            Some(r) => {
                if ctx.mine() {
                    ctx.violation("C09/dearmor/r0-wrong", format!("all-at-once Dearmor of a well-formed armor ({name}) gives {}", r.brief()), json!({"armor": hexs(&text)}));
                }
                continue;
            }
            None => continue,
        };
        // schedules: every Fixed(k), every single split, every pair of splits
        let mut scheds: Vec<Sched> = (1..=n).map(Sched::Fixed).collect();
        for a in 1..n {
            scheds.push(Sched::SplitAt(vec![a]));
        }
        let pair_step = if ctx.quick() && n > 120 { 3 } else { 1 };
        for a in (1..n).step_by(pair_step) {
            for b in (a + 1..n).step_by(pair_step) {
                scheds.push(Sched::SplitAt(vec![a, b]));
            }
        }
        for (gi, group) in scheds.chunks(64).enumerate() {
            if !ctx.mine() {
                continue;
            }
            describe_case(&format!("D dearmor {name} schedule group {gi}"));
            if gi == 3 {
                ctx.sample(json!({"family": "D", "armor": String::from_utf8_lossy(&text), "schedules_in_group": group.iter().map(sched_json).collect::<Vec<_>>()}));
            }
            ctx.tally("D.schedules", group.len() as u64);
            for (j, sc) in group.iter().enumerate() {
                ctx.cover(&("D", name, gi, j));
                for c in &cons[..] {
                    // the full consumer set for Fixed and single splits, a rotating one for pairs
                    if matches!(sc, Sched::SplitAt(v) if v.len() == 2) && (gi + j) % cons.len() != cons.iter().position(|x| x == c).unwrap() {
                        continue;
                    }
                    let replay = || json!({"family": "D", "armor": hexs(&text), "sched": sched_json(sc), "consumer": c.name()});
                    let got = guarded(ctx, "C09/dearmor/sched", replay, || run_dearmor(&text, sc, c, None).0);
                    ctx.eval();
                    let Some(got) = got else { continue };
                    judge(ctx, "dearmor", &r0, &got, &|| format!("Dearmor of armor {name} ({n} bytes), source {} {:?}, consumer {}", sc.name(), sched_json(sc), c.name()), &replay);
                }
                // mixed consumer schedules: three (Fixed / single split) or one (pairs) per source schedule, rotating
                let nm = if matches!(sc, Sched::SplitAt(v) if v.len() == 2) { 1 } else { 3 };
                for t in 0..nm {
                    let m = &dmix[(gi * 64 + j * nm + t) % dmix.len()];
                    let replay = || json!({"family": "D", "armor": hexs(&text), "sched": sched_json(sc), "consumer": m.name()});
                    let got = guarded(ctx, "C09/dearmor/mixed", replay, || run_dearmor_any(&text, sc, AnyCons::M(m), None).0);
                    ctx.eval();
                    let Some(got) = got else { continue };
                    ctx.seen("mix.dearmor", format!("{}+{}", m.pre_class(), m.fin_class()));
                    judge_mix(ctx, "dearmor", &r0, &got, m, &|m2| run_dearmor_any(&text, sc, AnyCons::M(m2), None).0, &|| format!("Dearmor of armor {name} ({n} bytes), source {} {:?}, mixed consumer {}", sc.name(), sched_json(sc), m.name()), &replay);
                }
            }
        }
        // faults: every call of four schedules
        for sc in [Sched::All, Sched::Fixed(1), Sched::Fixed(5), Sched::Fixed(64)] {
            if !ctx.mine() {
                continue;
            }
            let Some((_, log)) = guarded(ctx, "C09/dearmor/sched", || json!({"armor": name}), || run_dearmor(&text, &sc, &Consume::Read(3), None)) else { continue };
            let ncalls = log.lock().unwrap().calls;
            ctx.cover(&("Df", name, sc.name()));
            for k in 0..ncalls {
                for (kind, sticky) in [(FaultKind::Other, false), (FaultKind::Other, true), (FaultKind::Interrupted, false), (FaultKind::UnexpectedEof, false), (FaultKind::UnexpectedEof, true)] {
                    let f = Fault { at_call: k, sticky, kind };
                    let replay = || json!({"family": "D", "armor": hexs(&text), "sched": sched_json(&sc), "fault_call": k, "sticky": sticky, "kind": kind_name(kind)});
                    let r = guarded(ctx, &fault_prefix("dearmor", kind), replay, || run_dearmor(&text, &sc, &Consume::Read(3), Some(f)));
                    ctx.eval();
                    let Some((got, log)) = r else { continue };
                    let raised = log.lock().unwrap().faults_raised;
                    judge_fault(ctx, "dearmor", &r0, &got, raised, &f, &|| format!("Dearmor of armor {name} sched {}", sc.name()), &replay);
                }
            }
        }
    }
}


// ==========================================================================================
// Family E: stream encryptors / decryptors, PacketParser

const CFB_KEY: [u8; 32] = [0x42; 32];

fn alg_id(a: SymmetricKeyAlgorithm) -> u8 {
    u8::from(a)
}

fn run_cfb_enc(alg: SymmetricKeyAlgorithm, plain: &Arc<Vec<u8>>, sched: &Sched, cons: &Consume, fault: Option<Fault>) -> (Out, LogRef) {
    run_cfb_enc_any(alg, plain, sched, AnyCons::S(cons), fault)
}

fn run_cfb_enc_any(alg: SymmetricKeyAlgorithm, plain: &Arc<Vec<u8>>, sched: &Sched, cons: AnyCons<'_>, fault: Option<Fault>) -> (Out, LogRef) {
    let src = Src::new(plain, sched).fault(fault);
    let log = src.log();
    let rng = ChaCha8Rng::seed_from_u64(0xC09);
    let out = match alg.stream_encryptor(rng, &CFB_KEY[..alg.key_size()], src) {
        Err(e) => Out::err("new", e, vec![]),
        Ok(mut enc) => {
            let r = drain_read_any(&mut enc, cons);
            match r.err {
                None => Out::ok(r.data, ""),
                Some(e) => Out::err("read", e, r.data),
            }
        }
    };
    (out, log)
}

#[derive(Clone, Copy, Debug, PartialEq, Eq)]
enum CfbMode {
    CheckFirst,
    Streaming,
    Unprotected,
}

fn run_cfb_dec(alg: SymmetricKeyAlgorithm, mode: CfbMode, ct: &Arc<Vec<u8>>, sched: &Sched, cons: &Consume, fault: Option<Fault>) -> (Out, LogRef) {
    run_cfb_dec_any(alg, mode, ct, sched, AnyCons::S(cons), fault)
}

fn run_cfb_dec_any(alg: SymmetricKeyAlgorithm, mode: CfbMode, ct: &Arc<Vec<u8>>, sched: &Sched, cons: AnyCons<'_>, fault: Option<Fault>) -> (Out, LogRef) {
    let src = Src::new(ct, sched).fault(fault);
    let log = src.log();
    let key = &CFB_KEY[..alg.key_size()];
    let dec = match mode {
        CfbMode::CheckFirst => alg.stream_decryptor_protected(Seipdv1ReadMode::default(), key, src),
        CfbMode::Streaming => alg.stream_decryptor_protected(Seipdv1ReadMode::Streaming, key, src),
        CfbMode::Unprotected => alg.stream_decryptor_unprotected(key, src),
    };
    let out = match dec {
        Err(e) => Out::err("new", e, vec![]),
        Ok(mut dec) => {
            let r = drain_any(&mut dec, cons);
            match r.err {
                None => Out::ok(r.data, ""),
                Some(e) => Out::err("read", e, r.data),
            }
        }
    };
    (out, log)
}

const AEAD_SALT: [u8; 32] = [0x5a; 32];

fn run_aead_enc(sym: SymmetricKeyAlgorithm, aead: AeadAlgorithm, cs: ChunkSize, plain: &Arc<Vec<u8>>, sched: &Sched, cons: &Consume, fault: Option<Fault>) -> (Out, LogRef) {
    run_aead_enc_any(sym, aead, cs, plain, sched, AnyCons::S(cons), fault)
}

fn run_aead_enc_any(sym: SymmetricKeyAlgorithm, aead: AeadAlgorithm, cs: ChunkSize, plain: &Arc<Vec<u8>>, sched: &Sched, cons: AnyCons<'_>, fault: Option<Fault>) -> (Out, LogRef) {
    let src = Src::new(plain, sched).fault(fault);
    let log = src.log();
    let out = match SymEncryptedProtectedData::encrypt_seipdv2_stream(sym, aead, cs, &CFB_KEY[..sym.key_size()], AEAD_SALT, src) {
        Err(e) => Out::err("new", e, vec![]),
        Ok(mut enc) => {
            let r = drain_read_any(&mut enc, cons);
            match r.err {
                None => Out::ok(r.data, ""),
                Some(e) => Out::err("read", e, r.data),
            }
        }
    };
    (out, log)
}

fn run_aead_dec(sym: SymmetricKeyAlgorithm, aead: AeadAlgorithm, cs: ChunkSize, ct: &Arc<Vec<u8>>, sched: &Sched, cons: &Consume, fault: Option<Fault>) -> (Out, LogRef) {
    run_aead_dec_any(sym, aead, cs, ct, sched, AnyCons::S(cons), fault)
}

fn run_aead_dec_any(sym: SymmetricKeyAlgorithm, aead: AeadAlgorithm, cs: ChunkSize, ct: &Arc<Vec<u8>>, sched: &Sched, cons: AnyCons<'_>, fault: Option<Fault>) -> (Out, LogRef) {
    let src = Src::new(ct, sched).fault(fault);
    let log = src.log();
    let out = match pgp::crypto::aead::StreamDecryptor::new_rfc9580(sym, aead, cs, &AEAD_SALT, &CFB_KEY[..sym.key_size()], src) {
        Err(e) => Out::err("new", e, vec![]),
        Ok(mut dec) => {
            let r = drain_any(&mut dec, cons);
            match r.err {
                None => Out::ok(r.data, ""),
                Some(e) => Out::err("read", e, r.data),
            }
        }
    };
    (out, log)
}

fn run_packet_parser(wire: &Arc<Vec<u8>>, sched: &Sched, fault: Option<Fault>) -> (Out, LogRef) {
    let src = Src::new(wire, sched).fault(fault);
    let log = src.log();
    let mut meta = String::new();
    let mut data = vec![];
    let mut err = None;
    for (i, p) in PacketParser::new(src).enumerate() {
        if i > 2000 {
            err = Some("more than 2000 items".to_string());
            break;
        }
        match p {
            Ok(p) => {
                use pgp::packet::PacketTrait;
                meta.push_str(&format!("{:?};", p.packet_header().tag()));
                match p.to_bytes() {
                    Ok(b) => data.extend_from_slice(&b),
                    Err(e) => {
                        err = Some(format!("serialize: {e}"));
                        break;
                    }
                }
            }
            Err(e) => {
                err = Some(e.to_string());
                break;
            }
        }
    }
    let out = match err {
        None => Out::ok(data, meta),
        Some(e) => Out::err("next", e, data),
    };
    (out, log)
}

/// Runs `runner` for every (schedule, consumer) and compares with R0; then injects faults.
#[allow(clippy::too_many_arguments)]
fn diff_and_fault(
    ctx: &mut Ctx,
    comp: &str,
    desc: &str,
    r0: &Out,
    scheds: &[Sched],
    cons: &[Consume],
    fault_scheds: &[Sched],
    fault_cons: &Consume,
    boundaries: &[usize],
    // (inject at every call when the clean run has at most this many, sampled calls beyond that,
    //  consumers per schedule: 0 = full cross product, k = a window of k consumers rotating with
    //  the schedule index and the case)
    fault_budget: (usize, usize, usize),
    replay_base: &Value,
    runner: &dyn Fn(&Sched, &Consume, Option<Fault>) -> (Out, LogRef),
) {
    let salt = crate::core::hash64(&desc) as usize % 1000;
    for (si, sc) in scheds.iter().enumerate() {
        let per = fault_budget.2;
        let picked: Vec<&Consume> = if per == 0 || per >= cons.len() { cons.iter().collect() } else { (0..per).map(|t| &cons[(si * per + salt + t) % cons.len()]).collect() };
        for c in picked {
            let replay = || {
                let mut v = replay_base.clone();
                v["sched"] = sched_json(sc);
                v["consumer"] = json!(c.name());
                v
            };
            let got = guarded(ctx, &format!("C09/{comp}/sched"), replay, || runner(sc, c, None).0);
            ctx.eval();
            let Some(got) = got else { continue };
            ctx.seen(&format!("matrix.{comp}"), format!("{}|{}", sched_class(sc), cons_class(c)));
            judge(ctx, comp, r0, &got, &|| format!("{comp} {desc}, source {} {}, consumer {}", sc.name(), sched_json(sc), c.name()), &replay);
        }
    }
    for (si, sc) in fault_scheds.iter().enumerate() {
        // clean run with call recording
        let (offsets, ncalls) = {
            let Some((_, src_log)) = guarded(ctx, &format!("C09/{comp}/sched"), || replay_base.clone(), || runner(sc, fault_cons, None)) else { continue };
            let l = src_log.lock().unwrap();
            (l.offsets.clone(), l.calls)
        };
        let mut rng = ctx.rng(&format!("fault.{comp}.{desc}"), si as u64);
        let pts = fault_points(ncalls, &offsets, boundaries, &mut rng, fault_budget.0, fault_budget.1);
        ctx.tally(&format!("fault.points.{comp}"), pts.len() as u64);
        for k in pts {
            for (kind, sticky) in [(FaultKind::Other, false), (FaultKind::Other, true), (FaultKind::Interrupted, false), (FaultKind::UnexpectedEof, false), (FaultKind::UnexpectedEof, true)] {
                let f = Fault { at_call: k, sticky, kind };
                let replay = || {
                    let mut v = replay_base.clone();
                    v["sched"] = sched_json(sc);
                    v["consumer"] = json!(fault_cons.name());
                    v["fault"] = json!({"call": k, "sticky": sticky, "kind": kind_name(kind), "clean_calls": ncalls});
                    v
                };
                let r = guarded(ctx, &fault_prefix(comp, kind), replay, || runner(sc, fault_cons, Some(f)));
                ctx.eval();
                let Some((got, log)) = r else { continue };
                let raised = log.lock().unwrap().faults_raised;
                judge_fault(ctx, comp, r0, &got, raised, &f, &|| format!("{comp} {desc}, source {}, consumer {} (clean run: {ncalls} source calls)", sc.name(), fault_cons.name()), &replay);
            }
        }
    }
}

fn sched_class(s: &Sched) -> String {
    match s {
        Sched::All => "all".into(),
        Sched::Fixed(n) => format!("fixed{n}"),
        Sched::Cycle(_) => "cycle".into(),
        Sched::SplitAt(_) => "split".into(),
        Sched::Random(_, m) => format!("rand{m}"),
    }
}

fn cons_class(c: &Consume) -> String {
    match c {
        Consume::ReadCycle(_) => "ReadCycle".into(),
        c => c.name(),
    }
}

fn family_streams(ctx: &mut Ctx) {
    let thorough = !ctx.quick();
    let read_cons: Vec<Consume> = {
        let mut v = vec![Consume::ToEnd, Consume::Read(1), Consume::Read(7), Consume::Read(17), Consume::Read(18), Consume::Read(4096), Consume::Read(8192), Consume::Read(8193), Consume::ReadCycle(vec![1, 13, 512, 3])];
        if thorough {
            v.extend([Consume::Read(2), Consume::Read(16), Consume::Read(19), Consume::Read(22), Consume::Read(8191), Consume::ReadCycle(vec![8192, 1])]);
        }
        v
    };
    let buf_cons = consumers_buf(thorough);
    let sizes: Vec<usize> = if thorough {
        vec![0, 1, 2, 15, 16, 17, 21, 22, 23, 63, 64, 65, 511, 512, 513, 4095, 4096, 8169, 8170, 8171, 8191, 8192, 8193, 16383, 16384, 16385, 24576, 24581]
    } else {
        vec![0, 1, 15, 16, 17, 22, 23, 512, 8170, 8191, 8192, 8193, 16384, 24581]
    };
    let algs: Vec<SymmetricKeyAlgorithm> = if thorough {
        vec![SymmetricKeyAlgorithm::AES128, SymmetricKeyAlgorithm::AES256, SymmetricKeyAlgorithm::TripleDES, SymmetricKeyAlgorithm::CAST5, SymmetricKeyAlgorithm::Twofish, SymmetricKeyAlgorithm::Camellia192, SymmetricKeyAlgorithm::Blowfish, SymmetricKeyAlgorithm::IDEA]
    } else {
        vec![SymmetricKeyAlgorithm::AES128, SymmetricKeyAlgorithm::AES256, SymmetricKeyAlgorithm::TripleDES, SymmetricKeyAlgorithm::Twofish]
    };

    // --- E1/E2: CFB encryptor and decryptors ---------------------------------------------------
    for alg in &algs {
        for (zi, n) in sizes.iter().enumerate() {
            // four sub-cases: encryptor, check-first decryptor, streaming decryptor, unprotected decryptor
            let sub: Vec<bool> = (0..4).map(|_| ctx.mine()).collect();
            if !sub.iter().any(|m| *m) {
                continue;
            }
            let alg = *alg;
            let mut rng = ctx.rng("E1", zi as u64);
            let plain = Arc::new(payload(&mut rng, *n, false));
            describe_case(&format!("E1 cfb {alg:?} size {n}"));
            ctx.cover(&("E1", alg_id(alg), n));
            ctx.seen("E.cfb.sizes", n.to_string());
            let seeds: Vec<u64> = (0..ctx.qt(2, 6)).map(|_| rng.gen()).collect();
            let scheds = adversarial(*n, &[8192, 16384], &seeds, thorough);
            // large inputs: each schedule meets a rotating window of the consumers instead of all
            let cps = if *n > 4096 { ctx.qt(5usize, 7usize) } else { 0 };

            let Some(r0) = guarded(ctx, "C09/cfb-encryptor/sched", || json!({"alg": alg_id(alg), "size": n}), || run_cfb_enc(alg, &plain, &Sched::All, &Consume::ToEnd, None).0) else { continue };
            ctx.eval();
            let bs = alg.block_size();
            // anchor: the reference SEIPDv1 decryptor must accept R0 and return the plaintext
            let anchor = rfc::sym::seipd_v1_decrypt(alg_id(alg), &CFB_KEY[..alg.key_size()], &r0.data);
            if r0.err || r0.data.len() != n + bs + 2 + 22 || anchor.as_ref().ok() != Some(&*plain) {
                ctx.violation(
                    "C09/cfb-encryptor/r0-wrong",
                    format!("all-at-once / read_to_end run of the CFB StreamEncryptor ({alg:?}, {n} bytes) gives {} which the reference SEIPDv1 decryptor does not map back to the plaintext", r0.brief()),
                    json!({"alg": alg_id(alg), "plain": hexs(&plain)}),
                );
                continue;
            }
            let base = json!({"family": "E1", "component": "cfb-encryptor", "alg": alg_id(alg), "plain": hexs(&plain)});
            let mut scheds_all = vec![Sched::All];
            scheds_all.extend(scheds.iter().cloned());
            // mixed consumer schedules (read / zero-length read / fill_buf+consume, then read_to_end or a loop)
            let mix_scheds = [Sched::All, Sched::Fixed(1), Sched::Fixed(4096), Sched::Cycle(vec![8191, 1, 8192, 8193]), Sched::Random(seeds[0], 700)];
            let ms = mixes(8192, false, thorough);
            let mper = if *n > 4096 { ctx.qt(8usize, 16usize) } else { 0 };
            if sub[0] {
                diff_and_fault(ctx, "cfb-encryptor", &format!("{alg:?} over {n} plaintext bytes"), &r0, &scheds_all, &read_cons, &[Sched::All, Sched::Fixed(4096), Sched::Fixed(1)], &Consume::Read(100), &[8192, 16384], (64, 24, cps), &base, &|sc, c, f| run_cfb_enc(alg, &plain, sc, c, f));
                mix_diff(ctx, "cfb-encryptor", &format!("{alg:?} over {n} plaintext bytes"), &r0, &mix_scheds, &ms, mper, &base, &|sc, c| run_cfb_enc_any(alg, &plain, sc, c, None).0);
            }

            // decryptors over the R0 ciphertext
            let ct = Arc::new(r0.data.clone());
            let want = Out::ok((*plain).clone(), "");
            let cb: Vec<usize> = vec![bs + 2, ct.len() - 22, 8192, 16384, 8192 + bs + 2];
            let dscheds = {
                let mut v = vec![Sched::All];
                v.extend(adversarial(ct.len(), &cb, &seeds, thorough));
                v
            };
            for (mi, mode) in [CfbMode::CheckFirst, CfbMode::Streaming].into_iter().enumerate() {
                if !sub[1 + mi] {
                    continue;
                }
                let comp = if mode == CfbMode::CheckFirst { "cfb-decryptor-checkfirst" } else { "cfb-decryptor-streaming" };
                let Some(d0) = guarded(ctx, &format!("C09/{comp}/sched"), || json!({"alg": alg_id(alg), "size": n}), || {
                    hooks::record(|| run_cfb_dec(alg, mode, &ct, &Sched::All, &Consume::ToEnd, None).0)
                }) else { continue };
                ctx.eval();
                let (d0, ev) = d0;
                for e in &ev {
                    if e.site == "cfb.dec.avail" {
                        ctx.seen("hook.cfb.dec.mode", ["checkfirst", "streaming", "sed"][e.a.min(2) as usize]);
                    }
                }
                if !d0.same(&want) {
                    ctx.violation(format!("C09/{comp}/r0-wrong"), format!("all-at-once run of {comp} ({alg:?}) over the ciphertext of {n} bytes gives {}", d0.brief()), json!({"alg": alg_id(alg), "ct": hexs(&ct)}));
                    continue;
                }
                let base = json!({"family": "E2", "component": comp, "alg": alg_id(alg), "ct": hexs(&ct)});
                diff_and_fault(ctx, comp, &format!("{alg:?} over {} ciphertext bytes", ct.len()), &d0, &dscheds, &buf_cons, &[Sched::All, Sched::Fixed(4096), Sched::Fixed(3)], &Consume::Read(100), &cb, (64, 24, cps), &base, &|sc, c, f| run_cfb_dec(alg, mode, &ct, sc, c, f));
                mix_diff(ctx, comp, &format!("{alg:?} over {} ciphertext bytes", ct.len()), &d0, &mix_scheds, &ms, mper, &base, &|sc, c| run_cfb_dec_any(alg, mode, &ct, sc, c, None).0);
            }
            // unprotected (SED) form: reference ciphertext with resync
            let prefix: Vec<u8> = (0..bs).map(|i| i as u8 ^ 0x33).collect();
            if !sub[3] {
                continue;
            }
            if let Some(sed) = rfc::sym::sed_encrypt(alg_id(alg), &CFB_KEY[..alg.key_size()], &prefix, &plain) {
                let sed = Arc::new(sed);
                let comp = "cfb-decryptor-unprotected";
                if let Some(d0) = guarded(ctx, &format!("C09/{comp}/sched"), || json!({"alg": alg_id(alg), "size": n}), || run_cfb_dec(alg, CfbMode::Unprotected, &sed, &Sched::All, &Consume::ToEnd, None).0) {
                    ctx.eval();
                    if !d0.same(&want) {
                        ctx.violation(format!("C09/{comp}/r0-wrong"), format!("all-at-once run of {comp} ({alg:?}) over a reference SED ciphertext of {n} bytes gives {}", d0.brief()), json!({"alg": alg_id(alg), "ct": hexs(&sed)}));
                    } else {
                        let base = json!({"family": "E2", "component": comp, "alg": alg_id(alg), "ct": hexs(&sed)});
                        let short: Vec<Sched> = dscheds.iter().take(if thorough { dscheds.len() } else { 8 }).cloned().collect();
                        diff_and_fault(ctx, comp, &format!("{alg:?} over {} ciphertext bytes", sed.len()), &d0, &short, &buf_cons, &[Sched::All, Sched::Fixed(3)], &Consume::Read(100), &cb, (48, 16, cps), &base, &|sc, c, f| run_cfb_dec(alg, CfbMode::Unprotected, &sed, sc, c, f));
                        mix_diff(ctx, comp, &format!("{alg:?} over {} ciphertext bytes", sed.len()), &d0, &mix_scheds, &ms, mper, &base, &|sc, c| run_cfb_dec_any(alg, CfbMode::Unprotected, &sed, sc, c, None).0);
                    }
                }
            }
        }
    }

    // --- E3/E4: AEAD encryptor / decryptor (chunk 64: many chunks; 4096: default) -----------------
    let aeads: Vec<(SymmetricKeyAlgorithm, AeadAlgorithm, ChunkSize)> = if thorough {
        vec![
            (SymmetricKeyAlgorithm::AES128, AeadAlgorithm::Ocb, ChunkSize::C64B),
            (SymmetricKeyAlgorithm::AES256, AeadAlgorithm::Gcm, ChunkSize::C64B),
            (SymmetricKeyAlgorithm::AES192, AeadAlgorithm::Eax, ChunkSize::C128B),
            (SymmetricKeyAlgorithm::AES128, AeadAlgorithm::Gcm, ChunkSize::C4KiB),
            (SymmetricKeyAlgorithm::AES256, AeadAlgorithm::Ocb, ChunkSize::C8KiB),
        ]
    } else {
        vec![
            (SymmetricKeyAlgorithm::AES128, AeadAlgorithm::Ocb, ChunkSize::C64B),
            (SymmetricKeyAlgorithm::AES256, AeadAlgorithm::Gcm, ChunkSize::C4KiB),
            (SymmetricKeyAlgorithm::AES192, AeadAlgorithm::Eax, ChunkSize::C128B),
            (SymmetricKeyAlgorithm::AES256, AeadAlgorithm::Ocb, ChunkSize::C8KiB),
        ]
    };
    for (ai, (sym, aead, cs)) in aeads.iter().enumerate() {
        let (sym, aead, cs) = (*sym, *aead, *cs);
        let chunk = cs.as_byte_size() as usize;
        let mut asizes: Vec<usize> = vec![0, 1, chunk - 1, chunk, chunk + 1, 2 * chunk - 1, 2 * chunk, 2 * chunk + 1, 3 * chunk, 2 * (chunk + 16), 2 * (chunk + 16) - 16, 5 * chunk + 3];
        if thorough {
            asizes.extend([2, 15, 16, 17, 4 * chunk, 4 * chunk + 1, 2 * (chunk + 16) + 1, 2 * (chunk + 16) - 1, 2 * (chunk + 16) - 17, 7 * chunk]);
        }
        if chunk <= 128 {
            asizes.extend([8192, 8193]);
        }
        asizes.sort_unstable();
        asizes.dedup();
        for (zi, n) in asizes.iter().enumerate() {
            let sub: Vec<bool> = (0..2).map(|_| ctx.mine()).collect();
            if !sub.iter().any(|m| *m) {
                continue;
            }
            let mut rng = ctx.rng("E3", (ai * 100 + zi) as u64);
            let plain = Arc::new(payload(&mut rng, *n, false));
            describe_case(&format!("E3 aead {sym:?} {aead:?} chunk {chunk} size {n}"));
            ctx.cover(&("E3", ai, n));
            let seeds: Vec<u64> = (0..ctx.qt(2, 6)).map(|_| rng.gen()).collect();
            let pb: Vec<usize> = (1..=6).map(|k| k * chunk).collect();
            let cps = if *n > 4096 { ctx.qt(5usize, 7usize) } else { 0 };
            let mut scheds = vec![Sched::All, Sched::Fixed(chunk - 1), Sched::Fixed(chunk), Sched::Fixed(chunk + 1)];
            scheds.extend(adversarial(*n, &pb, &seeds, thorough));
            // mixed consumer schedules: step sizes around the chunk size and around the 8192-octet windows
            let mix_scheds = [Sched::All, Sched::Fixed(1), Sched::Fixed(chunk + 16), Sched::Cycle(vec![chunk - 1, 1, chunk, chunk + 17]), Sched::Random(seeds[0], 700)];
            let ms: Vec<Mix> = {
                let mut v = mixes(chunk, false, thorough);
                if chunk != 8192 && *n >= 8192 {
                    v.extend(mixes(8192, false, false));
                }
                v
            };
            let mper = if *n > 4096 { ctx.qt(8usize, 16usize) } else { 0 };
            let Some(r0) = guarded(ctx, "C09/aead-encryptor/sched", || json!({"aead": ai, "size": n}), || hooks::record(|| run_aead_enc(sym, aead, cs, &plain, &Sched::All, &Consume::ToEnd, None).0)) else { continue };
            ctx.eval();
            let (r0, ev) = r0;
            let nchunks = ev.iter().filter(|e| e.site == "aead.enc.chunk").count();
            if hooks::available() {
                ctx.seen("hook.aead.enc.chunks", match nchunks { 0 => "0", 1 => "1", 2 => "2", _ => ">=3" });
            }
            // anchor on the reference SEIPDv2 decryptor
            let mut body = vec![2u8, alg_id(sym), u8::from(aead), u8::from(cs)];
            body.extend_from_slice(&AEAD_SALT);
            body.extend_from_slice(&r0.data);
            let anchor = rfc::sym::seipd_v2_decrypt(&body, &CFB_KEY[..sym.key_size()]);
            if r0.err || anchor.as_ref().ok() != Some(&*plain) {
                ctx.violation("C09/aead-encryptor/r0-wrong", format!("all-at-once run of the AEAD StreamEncryptor ({sym:?},{aead:?},chunk {chunk}, {n} bytes) gives {} which the reference SEIPDv2 decryptor does not map back to the plaintext", r0.brief()), json!({"aead": ai, "plain": hexs(&plain)}));
                continue;
            }
            let base = json!({"family": "E3", "component": "aead-encryptor", "sym": alg_id(sym), "aead": u8::from(aead), "chunk": chunk, "plain": hexs(&plain)});
            if sub[0] {
                diff_and_fault(ctx, "aead-encryptor", &format!("{sym:?}/{aead:?}/chunk {chunk} over {n} plaintext bytes"), &r0, &scheds, &read_cons, &[Sched::All, Sched::Fixed(chunk), Sched::Fixed(1)], &Consume::Read(100), &pb, (64, 16, cps), &base, &|sc, c, f| run_aead_enc(sym, aead, cs, &plain, sc, c, f));
                mix_diff(ctx, "aead-encryptor", &format!("{sym:?}/{aead:?}/chunk {chunk} over {n} plaintext bytes"), &r0, &mix_scheds, &ms, mper, &base, &|sc, c| run_aead_enc_any(sym, aead, cs, &plain, sc, c, None).0);
            }
            if !sub[1] {
                continue;
            }

            let ct = Arc::new(r0.data.clone());
            let want = Out::ok((*plain).clone(), "");
            let ec = chunk + 16;
            let cb: Vec<usize> = (1..=6).map(|k| k * ec).chain([ct.len().saturating_sub(16), ct.len().saturating_sub(32)]).collect();
            let mut dscheds = vec![Sched::All, Sched::Fixed(ec - 1), Sched::Fixed(ec), Sched::Fixed(ec + 1), Sched::Fixed(2 * ec)];
            dscheds.extend(adversarial(ct.len(), &cb, &seeds, thorough));
            let Some(d0) = guarded(ctx, "C09/aead-decryptor/sched", || json!({"aead": ai, "size": n}), || hooks::record(|| run_aead_dec(sym, aead, cs, &ct, &Sched::All, &Consume::ToEnd, None).0)) else { continue };
            ctx.eval();
            let (d0, ev) = d0;
            if hooks::available() {
                let mx = ev.iter().filter(|e| e.site == "aead.dec.chunk").map(|e| e.a).max();
                ctx.seen("hook.aead.dec.max_chunk_index", match mx { None => "none", Some(0) => "0", Some(1) => "1", _ => ">=2" });
            }
            if !d0.same(&want) {
                ctx.violation("C09/aead-decryptor/r0-wrong", format!("all-at-once run of the AEAD StreamDecryptor over the ciphertext of {n} bytes gives {}", d0.brief()), json!({"aead": ai, "ct": hexs(&ct)}));
                continue;
            }
            let base = json!({"family": "E4", "component": "aead-decryptor", "sym": alg_id(sym), "aead": u8::from(aead), "chunk": chunk, "ct": hexs(&ct)});
            diff_and_fault(ctx, "aead-decryptor", &format!("{sym:?}/{aead:?}/chunk {chunk} over {} ciphertext bytes", ct.len()), &d0, &dscheds, &buf_cons, &[Sched::All, Sched::Fixed(ec), Sched::Fixed(3)], &Consume::Read(100), &cb, (64, 16, cps), &base, &|sc, c, f| run_aead_dec(sym, aead, cs, &ct, sc, c, f));
            mix_diff(ctx, "aead-decryptor", &format!("{sym:?}/{aead:?}/chunk {chunk} over {} ciphertext bytes", ct.len()), &d0, &mix_scheds, &ms, mper, &base, &|sc, c| run_aead_dec_any(sym, aead, cs, &ct, sc, c, None).0);
        }
    }

    // --- E5: PacketParser over a certificate and over a partial-body message --------------------
    let k4 = zoo::key(&zoo::Spec::simple(false, zoo::Alg::Ed25519Legacy, Some(zoo::Alg::EcdhCv25519)), 0);
    let k6 = zoo::key(&zoo::Spec::simple(true, zoo::Alg::Ed25519, Some(zoo::Alg::X25519)), 0);
    let mut streams: Vec<(String, Vec<u8>)> = vec![];
    if let Ok(b) = k4.to_public_key().to_bytes() {
        streams.push(("cert-v4".into(), b));
    }
    if let Ok(b) = k6.to_public_key().to_bytes() {
        streams.push(("cert-v6".into(), b));
    }
    if let Ok(b) = k6.to_bytes() {
        let mut both = b;
        if let Ok(b4) = k4.to_bytes() {
            both.extend_from_slice(&b4);
        }
        streams.push(("tsk-v6+v4".into(), both));
    }
    for n in [700usize, 8192 + 600] {
        let mut rng = Ctx::fixed_rng("c09.pp", n as u64);
        let data = payload(&mut rng, n, false);
        let mut b = MessageBuilder::from_reader("", &data[..]);
        b.partial_chunk_size(512).unwrap();
        if let Ok(m) = b.to_vec(ChaCha8Rng::seed_from_u64(1)) {
            streams.push((format!("partial-literal-{n}"), m));
        }
    }
    // every length form of the packet framing (one-, two- and five-octet new-format lengths, one-, two- and
    // four-octet old-format lengths, partial chunks closed by each of them), framed by the reference: the
    // multi-octet length fields are what a short-read schedule splits
    {
        use rfc::frame::{frame, LenForm};
        let mut rng = Ctx::fixed_rng("c09.pp.forms", 0);
        let lit = |n: usize, rng: &mut ChaCha8Rng| {
            let mut b = vec![b'b', 0, 0, 0, 0, 0];
            b.extend(payload(rng, n, false));
            b
        };
        let mut w = vec![];
        let forms: Vec<(usize, LenForm)> = vec![
            (20, LenForm::New1),
            (300, LenForm::New2),
            (300, LenForm::New5),
            (9000, LenForm::NewMin),
            (100, LenForm::Old1),
            (300, LenForm::Old2),
            (300, LenForm::Old4),
            (70000, LenForm::Old4),
            (1500, LenForm::Partial(vec![512, 512], Box::new(LenForm::New5))),
            (1500, LenForm::Partial(vec![1024], Box::new(LenForm::New2))),
            (600, LenForm::Partial(vec![512], Box::new(LenForm::New1))),
        ];
        for (n, f) in &forms {
            if let Some(p) = frame(11, &lit(*n, &mut rng), f) {
                w.extend(p);
            }
        }
        streams.push(("literals-in-every-length-form".into(), w));
    }
    for (name, wire) in &streams {
        if !ctx.mine() {
            continue;
        }
        let wire = Arc::new(wire.clone());
        let n = wire.len();
        describe_case(&format!("E5 packet parser {name}"));
        ctx.cover(&("E5", name));
        let bounds = stream_boundaries(&wire);
        let mut rng = ctx.rng("E5", n as u64);
        let seeds: Vec<u64> = (0..ctx.qt(4, 12)).map(|_| rng.gen()).collect();
        let mut scheds = adversarial(n, &bounds, &seeds, thorough);
        // every single split point
        for a in 1..n.min(ctx.qt(400, 4000)) {
            scheds.push(Sched::SplitAt(vec![a]));
        }
        let Some(r0) = guarded(ctx, "C09/packet-parser/sched", || json!({"stream": name}), || run_packet_parser(&wire, &Sched::All, None).0) else { continue };
        ctx.eval();
        if r0.err || (name.starts_with("cert") || name.starts_with("tsk")) && r0.data.len() + 0 == 0 {
            ctx.violation("C09/packet-parser/r0-wrong", format!("all-at-once PacketParser over {name} gives {}", r0.brief()), json!({"stream": name, "wire": hexs(&wire)}));
            continue;
        }
        let base = json!({"family": "E5", "component": "packet-parser", "stream": name, "wire": hexs(&wire)});
        diff_and_fault(ctx, "packet-parser", &format!("over {name} ({n} bytes)"), &r0, &scheds, &[Consume::ToEnd], &[Sched::All, Sched::Fixed(64), Sched::Fixed(1)], &Consume::ToEnd, &bounds, (64, 32, 0), &base, &|sc, _c, f| run_packet_parser(&wire, sc, f));
    }
}

// ==========================================================================================
// Families B / R / F: MessageBuilder and Message reader

struct MsgEnv {
    k4: SignedSecretKey,
    k6: SignedSecretKey,
    p4: pgp::composed::SignedPublicKey,
    p6: pgp::composed::SignedPublicKey,
}

impl MsgEnv {
    fn new() -> Self {
        let k4 = zoo::key(&zoo::Spec::simple(false, zoo::Alg::Ed25519Legacy, None), 0);
        let k6 = zoo::key(&zoo::Spec::simple(true, zoo::Alg::Ed25519, None), 0);
        let p4 = k4.to_public_key();
        let p6 = k6.to_public_key();
        MsgEnv { k4, k6, p4, p6 }
    }
}

#[derive(Clone, Copy, Debug, PartialEq, Eq)]
enum EncCfg {
    None,
    /// SEIPDv1 with set_session_key; bool = read in streaming mode
    V1Key(SymmetricKeyAlgorithm, bool),
    V1Pw(SymmetricKeyAlgorithm),
    V2Key(SymmetricKeyAlgorithm, AeadAlgorithm, ChunkSize),
    V2Pw(SymmetricKeyAlgorithm, AeadAlgorithm, ChunkSize),
}

#[derive(Clone, Copy, Debug, PartialEq, Eq)]
enum SignCfg {
    None,
    V4,
    V6,
    Both,
}

#[derive(Clone, Debug)]
struct Cfg {
    name: &'static str,
    comp: Option<CompressionAlgorithm>,
    sign: SignCfg,
    enc: EncCfg,
    chunk: u32,
    /// Utf8 literal + text signatures over CRLF text
    text: bool,
    /// compressed output: compare semantically if the compressor turns out to be schedule dependent
    thorough_only: bool,
}

fn configs() -> Vec<Cfg> {
    use AeadAlgorithm::{Eax, Gcm, Ocb};
    use SymmetricKeyAlgorithm::{TripleDES, AES128, AES256};
    let c = |name, comp, sign, enc, chunk, text, thorough_only| Cfg { name, comp, sign, enc, chunk, text, thorough_only };
    vec![
        c("plain-512", None, SignCfg::None, EncCfg::None, 512, false, false),
        c("plain-1024-utf8", None, SignCfg::None, EncCfg::None, 1024, true, false),
        c("zip-512", Some(CompressionAlgorithm::ZIP), SignCfg::None, EncCfg::None, 512, true, false),
        c("zlib-1024", Some(CompressionAlgorithm::ZLIB), SignCfg::None, EncCfg::None, 1024, false, false),
        c("bzip2-512", Some(CompressionAlgorithm::BZip2), SignCfg::None, EncCfg::None, 512, true, false),
        c("sig4-512", None, SignCfg::V4, EncCfg::None, 512, false, false),
        c("sig6-1024-text", None, SignCfg::V6, EncCfg::None, 1024, true, false),
        c("sig46-512", None, SignCfg::Both, EncCfg::None, 512, false, true),
        c("v1key-aes128-512", None, SignCfg::None, EncCfg::V1Key(AES128, false), 512, false, false),
        c("v1key-aes256-1024-streaming", None, SignCfg::None, EncCfg::V1Key(AES256, true), 1024, false, false),
        c("v1pw-3des-512", None, SignCfg::None, EncCfg::V1Pw(TripleDES), 512, false, true),
        c("v1pw-aes128-sig4-zip-512", Some(CompressionAlgorithm::ZIP), SignCfg::V4, EncCfg::V1Pw(AES128), 512, true, false),
        c("v2key-aes128-ocb-c64-512", None, SignCfg::None, EncCfg::V2Key(AES128, Ocb, ChunkSize::C64B), 512, false, false),
        c("v2key-aes256-gcm-c4k-1024", None, SignCfg::None, EncCfg::V2Key(AES256, Gcm, ChunkSize::C4KiB), 1024, false, false),
        c("v2pw-aes128-eax-c512-sig6-512", None, SignCfg::V6, EncCfg::V2Pw(AES128, Eax, ChunkSize::C512B), 512, false, false),
        c("v2key-aes256-ocb-c128-zlib-sig6-1024", Some(CompressionAlgorithm::ZLIB), SignCfg::V6, EncCfg::V2Key(AES256, Ocb, ChunkSize::C128B), 1024, true, true),
    ]
}

const MSG_PW: &str = "correct horse";
const SESSION_KEY: [u8; 32] = [0x17; 32];

enum Target<'s> {
    Vec,
    Writer(&'s mut Sink),
    Armored(&'s mut Sink, bool),
    /// `to_file` / `to_armored_file` (the library opens the path itself)
    File(&'s std::path::Path, bool),
}

fn sub_cfg(key: &SignedSecretKey) -> SubpacketConfig {
    SubpacketConfig::UserDefined {
        hashed: vec![
            Subpacket::regular(SubpacketData::SignatureCreationTime(Timestamp::from_secs(1_700_000_000))).unwrap(),
            Subpacket::regular(SubpacketData::IssuerFingerprint(key.primary_key.fingerprint())).unwrap(),
        ],
        unhashed: vec![],
    }
}

fn configure<'a, R: Read, E: pgp::composed::Encryption>(b: &mut MessageBuilder<'a, R, E>, env: &'a MsgEnv, cfg: &Cfg) -> pgp::errors::Result<()> {
    b.partial_chunk_size(cfg.chunk)?;
    if let Some(c) = cfg.comp {
        b.compression(c);
    }
    if cfg.text {
        b.data_mode(DataMode::Utf8)?;
        b.sign_text();
    }
    if matches!(cfg.sign, SignCfg::V4 | SignCfg::Both) {
        b.sign_with_subpackets(&env.k4.primary_key, Password::empty(), HashAlgorithm::Sha256, sub_cfg(&env.k4));
    }
    if matches!(cfg.sign, SignCfg::V6 | SignCfg::Both) {
        b.sign_with_subpackets(&env.k6.primary_key, Password::empty(), HashAlgorithm::Sha512, sub_cfg(&env.k6));
    }
    Ok(())
}

fn emit<R: Read, E: pgp::composed::Encryption>(b: MessageBuilder<'_, R, E>, rng: ChaCha8Rng, target: Target<'_>) -> pgp::errors::Result<Option<Vec<u8>>> {
    match target {
        Target::Vec => b.to_vec(rng).map(Some),
        Target::Writer(s) => b.to_writer(rng, s).map(|_| None),
        Target::Armored(s, crc) => b.to_armored_writer(rng, ArmorOptions { headers: None, include_checksum: crc }, s).map(|_| None),
        Target::File(p, false) => b.to_file(rng, p).map(|_| None),
        Target::File(p, true) => b.to_armored_file(rng, p, ArmorOptions { headers: None, include_checksum: true }).map(|_| None),
    }
}

/// Builds the message of `cfg` from a reader source. All randomness from one seeded RNG.
fn build(env: &MsgEnv, cfg: &Cfg, src: Src, target: Target<'_>) -> pgp::errors::Result<Option<Vec<u8>>> {
    let mut rng = ChaCha8Rng::seed_from_u64(0xC0_9B);
    let b = MessageBuilder::from_reader("", src);
    match cfg.enc {
        EncCfg::None => {
            let mut b = b;
            configure(&mut b, env, cfg)?;
            emit(b, rng, target)
        }
        EncCfg::V1Key(alg, _) => {
            let mut b = b.seipd_v1(&mut rng, alg);
            b.set_session_key(SESSION_KEY[..alg.key_size()].to_vec().into())?;
            configure(&mut b, env, cfg)?;
            emit(b, rng, target)
        }
        EncCfg::V1Pw(alg) => {
            let mut b = b.seipd_v1(&mut rng, alg);
            let s2k = StringToKey::new_iterated(&mut rng, HashAlgorithm::Sha256, 0);
            b.encrypt_with_password(s2k, &MSG_PW.into())?;
            configure(&mut b, env, cfg)?;
            emit(b, rng, target)
        }
        EncCfg::V2Key(alg, aead, cs) => {
            let mut b = b.seipd_v2(&mut rng, alg, aead, cs);
            b.set_session_key(SESSION_KEY[..alg.key_size()].to_vec().into())?;
            configure(&mut b, env, cfg)?;
            emit(b, rng, target)
        }
        EncCfg::V2Pw(alg, aead, cs) => {
            let mut b = b.seipd_v2(&mut rng, alg, aead, cs);
            let s2k = StringToKey::new_iterated(&mut rng, HashAlgorithm::Sha256, 0);
            b.encrypt_with_password(&mut rng, s2k, &MSG_PW.into())?;
            configure(&mut b, env, cfg)?;
            emit(b, rng, target)
        }
    }
}

#[derive(Clone, Copy, Debug, PartialEq, Eq)]
enum Emit {
    Vec,
    Writer,
    Armored,
    ArmoredNoCrc,
}

impl Emit {
    fn comp(self) -> &'static str {
        match self {
            Emit::Vec => "builder-source",
            Emit::Writer => "builder-sink",
            Emit::Armored | Emit::ArmoredNoCrc => "builder-armored-sink",
        }
    }
}

/// One builder run: returns the outcome, the source log, and (calls, raised, offsets) of the sink.
fn run_build(env: &MsgEnv, cfg: &Cfg, data: &Arc<Vec<u8>>, src_sched: &Sched, src_fault: Option<Fault>, emit_kind: Emit, sink_sched: &Sched, sink_fault: Option<Fault>) -> (Out, LogRef, Log) {
    let src = Src::new(data, src_sched).fault(src_fault);
    let slog = src.log();
    let mut sink = Sink::new(sink_sched).fault(sink_fault);
    let sink_out = sink.out.clone();
    let sink_log = sink.log.clone();
    let res = match emit_kind {
        Emit::Vec => build(env, cfg, src, Target::Vec),
        Emit::Writer => build(env, cfg, src, Target::Writer(&mut sink)),
        Emit::Armored => build(env, cfg, src, Target::Armored(&mut sink, true)),
        Emit::ArmoredNoCrc => build(env, cfg, src, Target::Armored(&mut sink, false)),
    };
    let written = sink_out.borrow().clone();
    let out = match res {
        Ok(Some(v)) => Out::ok(v, ""),
        Ok(None) => Out::ok(written, ""),
        Err(e) => Out::err("build", e, written),
    };
    let l = sink_log.borrow().clone();
    (out, slog, l)
}

/// One reader run over `wire`.
fn run_read(env: &MsgEnv, cfg: &Cfg, wire: &Arc<Vec<u8>>, armored: bool, sched: &Sched, cons: &Consume, fault: Option<Fault>) -> (Out, LogRef) {
    run_read_any(env, cfg, wire, armored, sched, AnyCons::S(cons), fault)
}

fn run_read_any(env: &MsgEnv, cfg: &Cfg, wire: &Arc<Vec<u8>>, armored: bool, sched: &Sched, cons: AnyCons<'_>, fault: Option<Fault>) -> (Out, LogRef) {
    let src = Src::new(wire, sched).fault(fault);
    let log = src.log();
    let out = (|| {
        let (mut msg, hdrs) = if armored {
            match Message::from_armor(src) {
                Ok((m, h)) => (m, format!("{h:?}")),
                Err(e) => return Out::err("parse", e, vec![]),
            }
        } else {
            match Message::from_bytes(src) {
                Ok(m) => (m, String::new()),
                Err(e) => return Out::err("parse", e, vec![]),
            }
        };
        let mut layers = String::new();
        for _ in 0..6 {
            if msg.is_encrypted() {
                layers.push('E');
                let r = match cfg.enc {
                    EncCfg::V1Key(alg, streaming) => {
                        let mut opts = DecryptionOptions::new();
                        if streaming {
                            opts = opts.set_seipdv1_read_mode(Seipdv1ReadMode::Streaming);
                        }
                        let ring = TheRing {
                            session_keys: vec![PlainSessionKey::V3_4 { sym_alg: alg, key: SESSION_KEY[..alg.key_size()].to_vec().into() }],
                            decrypt_options: opts,
                            ..Default::default()
                        };
                        msg.decrypt_the_ring(ring, true).map(|(m, _)| m)
                    }
                    EncCfg::V2Key(alg, _, _) => msg.decrypt_with_session_key(PlainSessionKey::V6 { key: SESSION_KEY[..alg.key_size()].to_vec().into() }),
                    EncCfg::V1Pw(_) | EncCfg::V2Pw(..) => msg.decrypt_with_password(&MSG_PW.into()),
                    EncCfg::None => return Out::err("decrypt", "unexpected encrypted layer", vec![]),
                };
                msg = match r {
                    Ok(m) => m,
                    Err(e) => return Out::err("decrypt", e, vec![]),
                };
            } else if msg.is_compressed() {
                layers.push('C');
                msg = match msg.decompress() {
                    Ok(m) => m,
                    Err(e) => return Out::err("decompress", e, vec![]),
                };
            } else {
                break;
            }
        }
        let d = drain_any(&mut msg, cons);
        if let Some(e) = d.err {
            return Out::err("read", e, d.data);
        }
        let hdr = msg.literal_data_header().map(|h| format!("{:?}/{}/{}", h.mode(), hex::encode(h.file_name()), h.created().as_secs()));
        let verdict = if msg.is_signed() {
            layers.push('S');
            let v4 = msg.verify(&env.p4.primary_key).is_ok();
            let v6 = msg.verify(&env.p6.primary_key).is_ok();
            let nested = msg
                .verify_nested(&[&env.p4.primary_key, &env.p6.primary_key])
                .map(|v| v.iter().map(|r| matches!(r, pgp::composed::VerificationResult::Valid(_))).collect::<Vec<_>>());
            format!("v4={v4} v6={v6} nested={nested:?}")
        } else {
            "unsigned".to_string()
        };
        Out::ok(d.data, format!("layers={layers} header={hdr:?} verify[{verdict}] armor_headers={hdrs}"))
    })();
    (out, log)
}

fn expected_verdict(cfg: &Cfg) -> &'static str {
    match cfg.sign {
        SignCfg::None => "unsigned",
        SignCfg::V4 => "v4=true v6=false",
        SignCfg::V6 => "v4=false v6=true",
        SignCfg::Both => "nested=Ok([true, true])",
    }
}

fn phase(is_first: u64, size: u64, is_partial: u64) -> &'static str {
    match (is_first != 0, is_partial != 0, size) {
        (true, false, _) => "first-fixed",
        (true, true, _) => "first-partial",
        (false, true, _) => "mid-partial",
        (false, false, 0) => "last-fixed-empty",
        (false, false, _) => "last-fixed",
    }
}

fn payload_sizes(ctx: &Ctx) -> Vec<usize> {
    let mut v = vec![0usize, 1, 505, 506, 507, 511, 512, 513, 1018, 1024, 1530, 4096, 8191, 8192, 8193, 16383, 16384, 16385, 3 * 8192 + 5];
    if !ctx.quick() {
        v.extend([2, 3, 63, 64, 65, 474, 475, 476, 1017, 1019, 1023, 1025, 1529, 1531, 2042, 8186, 8187, 8188, 16378, 16379, 24576, 24577, 3 * 8192 + 4]);
    }
    if !ctx.quick() {
        let mut rng = ctx.rng("sizes", 0);
        for _ in 0..64 {
            v.push(rng.gen_range(0..=25_000usize));
        }
    }
    v.sort_unstable();
    v.dedup();
    v
}

fn sink_scheds(thorough: bool, seed: u64) -> Vec<Sched> {
    let mut v = vec![Sched::Fixed(1), Sched::Fixed(3), Sched::Fixed(64), Sched::Fixed(512), Sched::Cycle(vec![1, 63, 64, 65, 513]), Sched::Random(seed, 100)];
    if thorough {
        v.extend([Sched::Fixed(2), Sched::Fixed(7), Sched::Fixed(63), Sched::Fixed(65), Sched::Fixed(511), Sched::Fixed(513), Sched::Fixed(8191), Sched::Fixed(8193), Sched::Random(seed ^ 5, 9000)]);
    }
    v
}

/// Family F: the file sinks of the builder. `to_file` / `to_armored_file` onto a healthy file must leave
/// exactly the octets `to_vec` / the armored writer produce; onto a device that refuses every write
/// (`/dev/full`: ENOSPC) they must return Err for every configuration and size - nothing was stored, so an
/// Ok would be a swallowed sink fault.
fn family_files(ctx: &mut Ctx, env: &MsgEnv) {
    let cfgs: Vec<Cfg> = configs();
    let full = std::path::Path::new("/dev/full");
    let have_full = std::fs::OpenOptions::new().write(true).open(full).is_ok();
    if !have_full {
        ctx.tally("F.dev-full-missing", 1);
    }
    let dir = std::path::PathBuf::from(format!("/verif/target/tmp/c09-files-{}", std::process::id()));
    let _ = std::fs::create_dir_all(&dir);
    let sizes: Vec<usize> = if ctx.quick() { vec![0, 1, 100, 4000, 8000, 8192, 9000, 70000] } else { vec![0, 1, 2, 100, 511, 512, 513, 4000, 8000, 8170, 8191, 8192, 8193, 9000, 16384, 70000, 300000] };
    for (ci, cfg) in cfgs.iter().enumerate() {
        for &n in &sizes {
            if !ctx.mine() {
                continue;
            }
            let mut rng = ctx.rng("F", (ci * 1_000_000 + n) as u64);
            let data = Arc::new(payload(&mut rng, n, cfg.text));
            describe_case(&format!("F cfg {} size {n}", cfg.name));
            let base = json!({"family": "F", "cfg": cfg.name, "size": n, "data": hexs(&data)});
            for armored in [false, true] {
                let kind = if armored { "to_armored_file" } else { "to_file" };
                // reference: the same build into memory
                let r0 = guarded(ctx, "C09/builder-file/r0", || base.clone(), || {
                    let mut sink = Sink::new(&Sched::All);
                    let r = build(env, cfg, Src::new(&data, &Sched::All), if armored { Target::Armored(&mut sink, true) } else { Target::Writer(&mut sink) });
                    let bytes = sink.out.borrow().clone();
                    (r.map(|_| ()).map_err(|e| e.to_string()), bytes)
                });
                ctx.eval();
                let Some((Ok(()), want)) = r0 else { continue };
                // healthy file
                let path = dir.join(format!("{ci}-{n}-{armored}.out"));
                let got = guarded(ctx, "C09/builder-file/healthy", || base.clone(), || build(env, cfg, Src::new(&data, &Sched::Fixed(700)), Target::File(&path, armored)).map(|_| ()).map_err(|e| e.to_string()));
                ctx.eval();
                ctx.cover(&("F", cfg.name, n, armored));
                match got {
                    Some(Ok(())) => {
                        let on_disk = std::fs::read(&path).unwrap_or_default();
                        if on_disk != want {
                            ctx.violation(
                                format!("C09/builder-file/{kind}/file-differs"),
                                format!("{kind} cfg {} over {n} payload bytes left {} octets in the file, the writer form has {} (first difference at {})", cfg.name, on_disk.len(), want.len(), first_diff(&on_disk, &want)),
                                base.clone(),
                            );
                        }
                    }
                    Some(Err(e)) => ctx.violation(format!("C09/builder-file/{kind}/ok-became-err"), format!("{kind} cfg {} size {n} onto a healthy file failed: {e}", cfg.name), base.clone()),
                    None => {}
                }
                let _ = std::fs::remove_file(&path);
                // a device that refuses every write
                if have_full && !want.is_empty() {
                    let got = guarded(ctx, "C09/builder-file/full", || base.clone(), || build(env, cfg, Src::new(&data, &Sched::Fixed(700)), Target::File(full, armored)).map(|_| ()).map_err(|e| e.to_string()));
                    ctx.eval();
                    ctx.seen("F.fault", format!("{kind}-enospc"));
                    if let Some(Ok(())) = got {
                        ctx.violation(
                            format!("C09/builder-file/{kind}/fault-swallowed"),
                            format!("{kind} cfg {} over {n} payload bytes ({} octets of output) onto /dev/full (every write fails with ENOSPC) returned Ok", cfg.name, want.len()),
                            base.clone(),
                        );
                    }
                }
            }
        }
    }
    let _ = std::fs::remove_dir_all(&dir);
}

// ==========================================================================================
// Family U: inputs the builder REFUSES. The outcome class (Ok / Err) of `MessageBuilder::from_reader`
// with `DataMode::Utf8` must not depend on the read schedule of the source: the line-ending and UTF-8
// checkers keep carry state across source reads (pending CR, incomplete character).

/// CR, LF, an ASCII letter, and the lead octets of 2-, 3- and 4-octet characters with a continuation
/// octet that is valid behind each of them (C3 A9, E2 A9 A9, F0 A9 A9 A9 are well-formed).
const U_ALPHA: [u8; 7] = [b'\r', b'\n', b'a', 0xC3, 0xA9, 0xE2, 0xF0];

/// Reference class of a text for a Utf8 literal as the library documents it ("line endings are CR+LF, and
/// the data is valid UTF-8"): Some(false) = must be refused (ill-formed UTF-8 or an LF without a CR in front),
/// Some(true) = must be accepted, None = a CR without LF (the documentation does not decide it).
/// Only tallied (evidence that the enumeration reaches both classes); the deciding oracle is agreement.
fn ref_text_class(s: &[u8]) -> Option<bool> {
    if std::str::from_utf8(s).is_err() {
        return Some(false);
    }
    if (0..s.len()).any(|i| s[i] == b'\n' && (i == 0 || s[i - 1] != b'\r')) {
        return Some(false);
    }
    if (0..s.len()).any(|i| s[i] == b'\r' && (i + 1 == s.len() || s[i + 1] != b'\n')) {
        return None;
    }
    Some(true)
}

fn family_text_refusal(ctx: &mut Ctx, env: &MsgEnv) {
    let thorough = !ctx.quick();
    let cfgs = configs();
    let plain = cfgs.iter().find(|c| c.name == "plain-1024-utf8").expect("config");
    let signed = cfgs.iter().find(|c| c.name == "sig6-1024-text").expect("config");
    let build_vec = |cfg: &Cfg, data: &Arc<Vec<u8>>, sc: &Sched| run_build(env, cfg, data, sc, None, Emit::Vec, &Sched::All, None).0;

    // --- U1: every string over U_ALPHA up to length 6 (quick) / 7 (thorough) x every composition -----
    let lmax = ctx.qt(6usize, 7usize);
    const GROUP: u64 = 343;
    for len in 0..=lmax {
        let nstr = (U_ALPHA.len() as u64).pow(len as u32);
        for group in 0..nstr.div_ceil(GROUP) {
            if !ctx.mine() {
                continue;
            }
            describe_case(&format!("U1 utf8 builder strings of length {len}, group {group}"));
            for si in group * GROUP..((group + 1) * GROUP).min(nstr) {
                let s = Arc::new(nth_string(si, len, &U_ALPHA));
                let Some(r0) = guarded(ctx, "C09/builder-source/sched", || json!({"family": "U1", "text": hexs(&s)}), || build_vec(plain, &s, &Sched::All)) else { continue };
                ctx.eval();
                if len >= 2 {
                    // (a text of 0 or 1 octets has no composition other than R0)
                    ctx.cover(&("U1", &*s));
                }
                ctx.seen("U.r0-class", if r0.err { "refused" } else { "accepted" });
                match (ref_text_class(&s), r0.err) {
                    (Some(true), false) | (Some(false), true) => ctx.tally("U1.r0.agrees-with-documented-class", 1),
                    (None, _) => ctx.tally("U1.r0.class-not-documented(lone CR)", 1),
                    _ => ctx.tally("U1.r0.DISAGREES-with-documented-class", 1),
                }
                // accepted texts additionally through the text-signing configuration (normalising hasher)
                let s0 = if r0.err {
                    None
                } else {
                    let r = guarded(ctx, "C09/builder-source/sched", || json!({"family": "U1", "cfg": signed.name, "text": hexs(&s)}), || build_vec(signed, &s, &Sched::All));
                    ctx.eval();
                    r
                };
                let ncomp = 1u64 << len.saturating_sub(1);
                for mask in 1..ncomp {
                    let splits = composition_splits(len, mask);
                    let sc = Sched::SplitAt(splits.clone());
                    for (cfg, base) in [(plain, Some(&r0)), (signed, s0.as_ref())] {
                        let Some(base) = base else { continue };
                        let replay = || json!({"family": "U1", "cfg": cfg.name, "text": hexs(&s), "source_split_at": splits});
                        let got = guarded(ctx, "C09/builder-source/sched", replay, || build_vec(cfg, &s, &sc));
                        ctx.eval();
                        let Some(got) = got else { continue };
                        judge(ctx, "builder-source", base, &got, &|| format!("MessageBuilder::from_reader (DataMode::Utf8, cfg {}) over the text {:?} ({}), source pieces split at {:?}", cfg.name, String::from_utf8_lossy(&s), hexs(&s), splits), &replay);
                    }
                }
                ctx.tally("U1.compositions", ncomp);
            }
        }
    }

    // --- U2: long legal texts with ONE illegal spot placed at / around the literal chunk edges ---------
    let kinds: [(&str, &[u8]); 10] = [
        ("bare-lf", b"\n"),
        ("crlf-lf", b"\r\n\n"),
        ("cr-crlf-lf", b"\r\r\n\n"),
        ("lone-cr", b"\r"),
        ("bad-octet", &[0xFF]),
        ("truncated-char", &[0xE2, 0x82]),
        ("lone-continuation", &[0xA9]),
        ("overlong", &[0xC0, 0xAF]),
        ("surrogate", &[0xED, 0xA0, 0x80]),
        ("char-then-lf", &[0xC3, 0xA9, b'\n']),
    ];
    let sizes: Vec<usize> = if thorough { vec![40, 700, 1400, 2100, 8192 + 300] } else { vec![700, 2100, 8192 + 300] };
    for (ci, cfg) in cfgs.iter().enumerate().filter(|(_, c)| c.text) {
        for &n in &sizes {
            for (ki, (kname, pat)) in kinds.iter().enumerate() {
                if !ctx.mine() {
                    continue;
                }
                let mut rng = ctx.rng("U2", (ci * 1_000_000 + n * 16 + ki) as u64);
                let legal = payload(&mut rng, n, true);
                describe_case(&format!("U2 cfg {} size {n} defect {kname}", cfg.name));
                let c = cfg.chunk as usize;
                let mut positions: Vec<usize> = vec![0, 1, c - 7, c - 6, c - 5, 2 * c - 6, 2 * c - 5, 8192, n / 2, n];
                positions.retain(|p| *p <= n);
                // keep the insertion on a character boundary and away from the CR / LF of a legal pair
                let text = std::str::from_utf8(&legal).unwrap_or("");
                for p in positions.iter_mut() {
                    while *p < n && !(text.is_char_boundary(*p) && (*p == 0 || legal[*p - 1] != b'\r') && legal[*p] != b'\n') {
                        *p += 1;
                    }
                }
                positions.sort_unstable();
                positions.dedup();
                for p in positions {
                    let mut m = legal[..p].to_vec();
                    m.extend_from_slice(pat);
                    m.extend_from_slice(&legal[p..]);
                    let m = Arc::new(m);
                    let ml = m.len();
                    let Some(r0) = guarded(ctx, "C09/builder-source/sched", || json!({"family": "U2", "cfg": cfg.name, "text": hexs(&m)}), || build_vec(cfg, &m, &Sched::All)) else { continue };
                    ctx.eval();
                    ctx.seen("U.r0-class", if r0.err { "refused" } else { "accepted" });
                    ctx.seen("U2.defects", *kname);
                    ctx.tally(&format!("U2.r0.{}.{kname}", if r0.err { "refused" } else { "accepted" }), 1);
                    let around: Vec<usize> = (p.saturating_sub(1)..=p + pat.len() + 1).filter(|o| *o > 0 && *o < ml).collect();
                    let mut scheds = vec![Sched::Fixed(1), Sched::Fixed(2), Sched::Fixed(3), Sched::Fixed(7), Sched::Fixed(512), Sched::Cycle(vec![1, 511, 512, 513]), Sched::SplitAt(around.clone())];
                    for o in &around {
                        scheds.push(Sched::SplitAt(vec![*o]));
                    }
                    if p > 0 && p + pat.len() < ml {
                        scheds.push(Sched::SplitAt(vec![p, p + pat.len()]));
                    }
                    scheds.push(Sched::Random(rng.gen(), 5));
                    scheds.push(Sched::Random(rng.gen(), 700));
                    if thorough {
                        scheds.extend([Sched::Fixed(5), Sched::Fixed(511), Sched::Fixed(513), Sched::Random(rng.gen(), 60)]);
                    }
                    for sc in &scheds {
                        let replay = || json!({"family": "U2", "cfg": cfg.name, "defect": kname, "at": p, "text": hexs(&m), "source": sched_json(sc)});
                        let got = guarded(ctx, "C09/builder-source/sched", replay, || build_vec(cfg, &m, sc));
                        ctx.eval();
                        let Some(got) = got else { continue };
                        ctx.cover(&("U2", cfg.name, n, ki, p, sc.name()));
                        judge(ctx, "builder-source", &r0, &got, &|| format!("MessageBuilder::from_reader cfg {} over {ml} octets of text with the defect {kname} ({}) inserted at offset {p}, source {} {}", cfg.name, hexs(pat), sc.name(), sched_json(sc)), &replay);
                    }
                }
            }
        }
    }
}

// ==========================================================================================
// Family X: MIXED consumer schedules on the message reader (every configuration: literal, compressed,
// signed, SEIPDv1 in both read modes, SEIPDv2; binary and armored), payload sizes around the 8192-octet
// windows of the reader layers. R0 = (all-at-once source, read_to_end on a fresh message).

fn family_mixed(ctx: &mut Ctx, env: &MsgEnv) {
    let thorough = !ctx.quick();
    let cfgs = configs();
    // 8186 = 8192 minus the 6 octets of the literal header (the window of a layer above the literal packet)
    let sizes: Vec<usize> = if thorough {
        vec![0, 1, 100, 700, 4096, 8100, 8180, 8185, 8186, 8187, 8191, 8192, 8193, 8200, 9000, 16378, 16383, 16384, 16385, 16390, 24576, 24581, 70000]
    } else {
        vec![0, 1, 700, 8186, 8191, 8192, 8193, 8200, 9000, 16384, 16390, 24581, 70000]
    };
    for (ci, cfg) in cfgs.iter().enumerate() {
        for &n in &sizes {
            let sub: Vec<bool> = (0..2).map(|_| ctx.mine()).collect();
            if !sub.iter().any(|m| *m) {
                continue;
            }
            let mut rng = ctx.rng("X", (ci * 1_000_000 + n) as u64);
            let data = Arc::new(payload(&mut rng, n, cfg.text));
            describe_case(&format!("X cfg {} size {n}", cfg.name));
            ctx.seen("X.configs", cfg.name);
            ctx.seen("X.sizes", n.to_string());
            let base = json!({"family": "X", "cfg": cfg.name, "size": n, "data": hexs(&data)});
            for armored in [false, true] {
                if !sub[armored as usize] {
                    continue;
                }
                let comp = if armored { "reader-armored" } else { "reader" };
                let emit_kind = if armored { Emit::Armored } else { Emit::Vec };
                let Some((b0, _, _)) = guarded(ctx, "C09/builder-source/sched", || base.clone(), || run_build(env, cfg, &data, &Sched::All, None, emit_kind, &Sched::All, None)) else { continue };
                ctx.eval();
                if b0.err {
                    ctx.violation("C09/builder-source/r0-wrong", format!("all-at-once build of cfg {} size {n} failed: {}", cfg.name, b0.brief()), base.clone());
                    continue;
                }
                let w = Arc::new(b0.data);
                let Some(q0) = guarded(ctx, &format!("C09/{comp}/sched"), || base.clone(), || run_read(env, cfg, &w, armored, &Sched::All, &Consume::ToEnd, None).0) else { continue };
                ctx.eval();
                if q0.err || q0.data != **data || !q0.meta.contains(expected_verdict(cfg)) {
                    ctx.violation(format!("C09/{comp}/r0-wrong"), format!("all-at-once read of the cfg {} message ({n} payload bytes): {} (expected the payload and verdict {})", cfg.name, q0.brief(), expected_verdict(cfg)), json!({"cfg": cfg.name, "wire": hexs(&w)}));
                    continue;
                }
                let bounds = if armored { vec![] } else { stream_boundaries(&w) };
                let mut scheds = vec![Sched::All, Sched::Fixed(4096), Sched::Cycle(vec![8191, 1, 8192, 8193]), Sched::Random(rng.gen(), 700)];
                if w.len() <= 12000 {
                    scheds.push(Sched::Fixed(1));
                }
                let exact: Vec<usize> = bounds.iter().copied().filter(|b| *b > 0 && *b < w.len()).collect();
                if !exact.is_empty() {
                    scheds.push(Sched::SplitAt(exact));
                }
                if thorough {
                    scheds.extend([Sched::Fixed(7), Sched::Fixed(8192), Sched::Random(rng.gen(), 9000)]);
                }
                let ms = mixes(8192, cfg.text, thorough);
                let per = if n > 9000 { ctx.qt(8usize, 16usize) } else { 0 };
                let rbase = json!({"family": "X", "cfg": cfg.name, "size": n, "armored": armored, "wire": hexs(&w)});
                if n == 8193 {
                    ctx.sample(json!({"family": "X", "cfg": cfg.name, "payload_bytes": n, "armored": armored, "wire_bytes": w.len(), "source_schedules": scheds.iter().map(|s| s.name()).collect::<Vec<_>>(), "mixed_consumers": ms.iter().map(|m| m.name()).collect::<Vec<_>>(), "r0": q0.brief()}));
                }
                mix_diff(ctx, comp, &format!("cfg {} ({n} payload bytes, {} wire bytes, armored={armored})", cfg.name, w.len()), &q0, &scheds, &ms, per, &rbase, &|sc, c| run_read_any(env, cfg, &w, armored, sc, c, None).0);
            }
        }
    }
}

fn family_messages(ctx: &mut Ctx, env: &MsgEnv) {
    let thorough = !ctx.quick();
    let cfgs: Vec<Cfg> = configs();
    let sizes = payload_sizes(ctx);
    let cons = consumers_buf(thorough);

    for (ci, cfg) in cfgs.iter().enumerate() {
        // consecutive sweep around the first partial-chunk edge of every layer (reduced schedule set)
        let sweep: Vec<usize> = if thorough { (400..=560).chain(960..=1060).collect() } else { (440..=520).collect() };
        let all_sizes: Vec<(usize, bool)> = sizes.iter().map(|s| (*s, false)).chain(sweep.iter().filter(|s| !sizes.contains(s)).map(|s| (*s, true))).collect();
        for (n, is_sweep) in all_sizes {
            // three sub-cases: builder (source and sink schedules), binary reader, armored reader
            let sub: Vec<bool> = (0..3).map(|_| ctx.mine()).collect();
            if !sub.iter().any(|m| *m) {
                continue;
            }
            let mut rng = ctx.rng("M", (ci * 100_000 + n) as u64);
            let data = Arc::new(payload(&mut rng, n, cfg.text));
            describe_case(&format!("M cfg {} size {n}", cfg.name));
            ctx.seen("M.configs", cfg.name);
            if !is_sweep {
                ctx.seen("M.sizes", n.to_string());
            }

            // ---- B: builder --------------------------------------------------------------
            let r0 = guarded(ctx, "C09/builder-source/sched", || json!({"cfg": cfg.name, "size": n}), || hooks::record(|| run_build(env, cfg, &data, &Sched::All, None, Emit::Vec, &Sched::All, None).0));
            ctx.eval();
            let Some((r0, ev)) = r0 else { continue };
            for e in &ev {
                match e.site {
                    "lit.chunk" => ctx.seen("hook.lit.chunk", phase(e.a, e.b, e.c)),
                    "cmp.chunk" => ctx.seen("hook.cmp.chunk", phase(e.a, e.b, e.c)),
                    "enc.chunk" => ctx.seen("hook.enc.chunk", phase(e.a, e.b, e.c)),
                    _ => {}
                }
            }
            if r0.err {
                ctx.violation("C09/builder-source/r0-wrong", format!("all-at-once build of cfg {} size {n} failed: {}", cfg.name, r0.brief()), json!({"cfg": cfg.name, "data": hexs(&data)}));
                continue;
            }
            let wire = Arc::new(r0.data.clone());
            let seeds: Vec<u64> = (0..ctx.qt(3, 8)).map(|_| rng.gen()).collect();
            let c = cfg.chunk as usize;
            let src_bounds: Vec<usize> = (0..8).map(|k| c - 6 + k * c).chain([8192, 16384, 24576]).filter(|b| *b < n).collect();
            let src_scheds: Vec<Sched> = if is_sweep {
                vec![Sched::Fixed(1), Sched::Fixed(512), Sched::Random(seeds[0], 700)]
            } else {
                adversarial(n, &src_bounds, &seeds, thorough)
            };
            let base = json!({"family": "B", "cfg": cfg.name, "size": n, "data": hexs(&data)});
            for sc in src_scheds.iter().filter(|_| sub[0]) {
                let replay = || {
                    let mut v = base.clone();
                    v["source"] = sched_json(sc);
                    v
                };
                let got = guarded(ctx, "C09/builder-source/sched", replay, || run_build(env, cfg, &data, sc, None, Emit::Vec, &Sched::All, None).0);
                ctx.eval();
                let Some(got) = got else { continue };
                ctx.cover(&("B", cfg.name, n, sc.name()));
                judge(ctx, "builder-source", &r0, &got, &|| format!("MessageBuilder::from_reader cfg {} over {n} payload bytes, source {} {}", cfg.name, sc.name(), sched_json(sc)), &replay);
            }
            // sinks: binary writer must equal to_vec; armored writer must equal its own all-accepting run
            let ssc = sink_scheds(thorough, seeds[0]);
            let sink_list: &[Sched] = if is_sweep { &ssc[..2] } else { &ssc[..] };
            for sk in sink_list.iter().filter(|_| sub[0]) {
                let replay = || {
                    let mut v = base.clone();
                    v["sink"] = sched_json(sk);
                    v
                };
                let got = guarded(ctx, "C09/builder-sink/sched", replay, || run_build(env, cfg, &data, &Sched::Fixed(700), None, Emit::Writer, sk, None).0);
                ctx.eval();
                let Some(got) = got else { continue };
                ctx.cover(&("Bs", cfg.name, n, sk.name()));
                judge(ctx, "builder-sink", &r0, &got, &|| format!("MessageBuilder::to_writer cfg {} over {n} payload bytes, sink accepts {} {}", cfg.name, sk.name(), sched_json(sk)), &replay);
            }
            let a0 = guarded(ctx, "C09/builder-armored-sink/sched", || base.clone(), || run_build(env, cfg, &data, &Sched::All, None, Emit::Armored, &Sched::All, None).0);
            ctx.eval();
            let Some(a0) = a0 else { continue };
            // anchor the armored R0: the strict reference parser must recover exactly the binary R0
            let anchored = !a0.err
                && std::str::from_utf8(&a0.data).ok().and_then(|s| rfc::armor::armor_parse_strict(s).ok()).map(|p| p.data == *wire).unwrap_or(false);
            if !anchored {
                ctx.violation("C09/builder-armored-sink/r0-wrong", format!("all-at-once to_armored_writer of cfg {} size {n}: {} does not dearmor (reference) to the to_vec bytes", cfg.name, a0.brief()), base.clone());
                continue;
            }
            let awire = Arc::new(a0.data.clone());
            if !is_sweep && sub[0] {
                for sk in sink_list {
                    let replay = || {
                        let mut v = base.clone();
                        v["sink"] = sched_json(sk);
                        v["armored"] = json!(true);
                        v
                    };
                    let got = guarded(ctx, "C09/builder-armored-sink/sched", replay, || run_build(env, cfg, &data, &Sched::Fixed(513), None, Emit::Armored, sk, None).0);
                    ctx.eval();
                    let Some(got) = got else { continue };
                    ctx.cover(&("Ba", cfg.name, n, sk.name()));
                    judge(ctx, "builder-armored-sink", &a0, &got, &|| format!("MessageBuilder::to_armored_writer cfg {} over {n} payload bytes, sink accepts {} {}", cfg.name, sk.name(), sched_json(sk)), &replay);
                }
            }

            // ---- R: reader ---------------------------------------------------------------
            for armored in [false, true] {
                if !sub[1 + armored as usize] {
                    continue;
                }
                let comp = if armored { "reader-armored" } else { "reader" };
                let w = if armored { &awire } else { &wire };
                let q0 = guarded(ctx, &format!("C09/{comp}/sched"), || base.clone(), || hooks::record(|| run_read(env, cfg, w, armored, &Sched::All, &Consume::ToEnd, None).0));
                ctx.eval();
                let Some((q0, ev)) = q0 else { continue };
                for e in &ev {
                    match e.site {
                        "body.new" => ctx.seen("hook.body.new.kind", ["fixed", "indeterminate", "partial"][e.a.min(2) as usize]),
                        "aead.dec.chunk" => ctx.seen("hook.msg.aead.dec.chunk_index", match e.a { 0 => "0", 1 => "1", _ => ">=2" }),
                        "cfb.dec.avail" => ctx.seen("hook.msg.cfb.dec.mode", ["checkfirst", "streaming", "sed"][e.a.min(2) as usize]),
                        _ => {}
                    }
                }
                // anchor: R0 must return the payload, the literal header and the expected verdicts
                if q0.err || q0.data != **data || !q0.meta.contains(expected_verdict(cfg)) {
                    ctx.violation(
                        format!("C09/{comp}/r0-wrong"),
                        format!("all-at-once read of the cfg {} message ({n} payload bytes): {} (expected the payload and verdict {})", cfg.name, q0.brief(), expected_verdict(cfg)),
                        json!({"cfg": cfg.name, "wire": hexs(w)}),
                    );
                    continue;
                }
                let bounds = if armored { vec![] } else { stream_boundaries(w) };
                let rscheds: Vec<Sched> = if is_sweep {
                    vec![Sched::Fixed(1), Sched::Random(seeds[0], 700)]
                } else {
                    let mut v = vec![Sched::All];
                    v.extend(adversarial(w.len(), &bounds, &seeds, thorough));
                    v
                };
                let rcons: Vec<Consume> = if is_sweep { vec![Consume::ToEnd, Consume::Read(7), Consume::Buf(5)] } else { cons.clone() };
                let rbase = json!({"family": "R", "cfg": cfg.name, "size": n, "armored": armored, "wire": hexs(w)});
                if n == 513 || n == 8193 {
                    ctx.sample(json!({"family": "R", "cfg": cfg.name, "payload_bytes": n, "armored": armored, "wire_bytes": w.len(), "wire_head": hexs(&w[..w.len().min(48)]), "layer_boundaries": bounds.iter().take(12).collect::<Vec<_>>(), "source_schedules": rscheds.iter().map(|s| s.name()).collect::<Vec<_>>(), "consumers": rcons.iter().map(|c| c.name()).collect::<Vec<_>>(), "r0": q0.brief()}));
                }
                for (si, sc) in rscheds.iter().enumerate() {
                    // large messages: each schedule meets a rotating window of the consumers
                    let per = if n > 8193 && rcons.len() > 12 { 10 } else { rcons.len() };
                    for c in (0..per).map(|t| &rcons[(si * per + n + t) % rcons.len()]) {
                        let replay = || {
                            let mut v = rbase.clone();
                            v["source"] = sched_json(sc);
                            v["consumer"] = json!(c.name());
                            v
                        };
                        let got = guarded(ctx, &format!("C09/{comp}/sched"), replay, || run_read(env, cfg, w, armored, sc, c, None).0);
                        ctx.eval();
                        let Some(got) = got else { continue };
                        ctx.cover(&("R", cfg.name, n, armored, sc.name(), c.name()));
                        ctx.seen(&format!("matrix.{comp}"), format!("{}|{}", sched_class(sc), cons_class(c)));
                        judge(ctx, comp, &q0, &got, &|| format!("Message reader cfg {} ({n} payload bytes, {} wire bytes, armored={armored}), source {} {}, consumer {}", cfg.name, w.len(), sc.name(), sched_json(sc), c.name()), &replay);
                    }
                }
            }
        }
    }

    // ---- truncated / damaged messages: the error class must not depend on the schedule -----------
    for (ci, cfg) in cfgs.iter().enumerate() {
        for n in [700usize, 8192 + 300] {
            if !ctx.mine() {
                continue;
            }
            let mut rng = ctx.rng("T", (ci * 100_000 + n) as u64);
            let data = Arc::new(payload(&mut rng, n, cfg.text));
            describe_case(&format!("T cfg {} size {n}", cfg.name));
            let Some((r0, _, _)) = guarded(ctx, "C09/builder-source/sched", || json!({"cfg": cfg.name, "size": n}), || run_build(env, cfg, &data, &Sched::All, None, Emit::Vec, &Sched::All, None)) else { continue };
            if r0.err {
                continue;
            }
            let wire = r0.data;
            let bounds = stream_boundaries(&wire);
            let wl = wire.len();
            let mut cuts: Vec<usize> = vec![1, 2, 3, wl / 2, wl.saturating_sub(1), wl.saturating_sub(2), wl.saturating_sub(21), wl.saturating_sub(23)];
            for b in &bounds {
                for d in [-1i64, 0, 1] {
                    let o = *b as i64 + d;
                    if o > 0 && (o as usize) < wire.len() {
                        cuts.push(o as usize);
                    }
                }
            }
            cuts.retain(|c| *c > 0 && *c < wl);
            cuts.sort_unstable();
            cuts.dedup();
            if ctx.quick() && cuts.len() > 24 {
                let step = cuts.len().div_ceil(24);
                cuts = cuts.into_iter().step_by(step).collect();
            }
            // damaged variants: every cut, plus the complete message followed by trailing data
            // (a second literal packet, a stray signature-less marker run, raw garbage): whether such
            // an input is an error must not depend on how it is consumed
            let mut variants: Vec<(usize, Vec<u8>)> = cuts.iter().map(|c| (*c, wire[..*c].to_vec())).collect();
            for (ti, tail) in [
                vec![0xCBu8, 0x07, b'b', 0, 0, 0, 0, 0, b'x'],
                vec![0xFFu8; 5],
                vec![0xC2u8, 0x03, 4, 0, 1],
                vec![0x00u8],
            ]
            .iter()
            .enumerate()
            {
                let mut w = wire.clone();
                w.extend_from_slice(tail);
                variants.push((wl + 1 + ti, w));
            }
            for (cut, wbytes) in variants {
                let w = Arc::new(wbytes);
                let q0 = guarded(ctx, "C09/reader-truncated/sched", || json!({"cfg": cfg.name, "cut": cut}), || run_read(env, cfg, &w, false, &Sched::All, &Consume::ToEnd, None).0);
                ctx.eval();
                let Some(q0) = q0 else { continue };
                ctx.cover(&("T", cfg.name, n, cut));
                ctx.tally(if q0.err { "T.r0-err" } else { "T.r0-ok" }, 1);
                let seeds = [rng.gen::<u64>()];
                let scheds = [Sched::Fixed(1), Sched::Fixed(7), Sched::Fixed(512), Sched::SplitAt(vec![cut.saturating_sub(1).max(1)]), Sched::Random(seeds[0], 600)];
                let tcons = [Consume::ToEnd, Consume::Read(1), Consume::Read(4096), Consume::Buf(5), Consume::BufAll, Consume::Mixed(3)];
                let tmix = [
                    Mix::new(&[Op::Fill(0)], 0, Fin::ToEnd),
                    Mix::new(&[Op::Read(1)], 0, Fin::ToEnd),
                    Mix::new(&[Op::Fill(usize::MAX)], 0, Fin::ToEnd),
                    Mix::new(&[], 0, Fin::Ops(vec![Op::Read(0), Op::Fill(0), Op::Fill(usize::MAX)])),
                    Mix::new(&[Op::Read(100)], 8193, Fin::ToEnd),
                    Mix::new(&[Op::Fill(1)], 0, Fin::ToString),
                ];
                for (i, sc) in scheds.iter().enumerate() {
                    for (j, c) in tcons.iter().enumerate() {
                        if ctx.quick() && (i + j + cut) % 3 != 0 {
                            continue;
                        }
                        let replay = || json!({"family": "T", "cfg": cfg.name, "wire": hexs(&w), "source": sched_json(sc), "consumer": c.name()});
                        let got = guarded(ctx, "C09/reader-truncated/sched", replay, || run_read(env, cfg, &w, false, sc, c, None).0);
                        ctx.eval();
                        let Some(got) = got else { continue };
                        judge(ctx, "reader-truncated", &q0, &got, &|| format!("Message reader over the cfg {} message cut to {cut} of {} bytes, source {}, consumer {}", cfg.name, wire.len(), sc.name(), c.name()), &replay);
                    }
                    // the same damaged input under mixed consumer schedules
                    for (j, m) in tmix.iter().enumerate() {
                        // read_to_string is a legitimate consumer only if what R0 released is valid UTF-8
                        if m.fin == Fin::ToString && (!cfg.text || (!q0.err && std::str::from_utf8(&q0.data).is_err())) {
                            continue;
                        }
                        if ctx.quick() && (i + j + cut) % 3 != 1 {
                            continue;
                        }
                        let replay = || json!({"family": "T", "cfg": cfg.name, "wire": hexs(&w), "source": sched_json(sc), "consumer": m.name()});
                        let got = guarded(ctx, "C09/reader-truncated/mixed", replay, || run_read_any(env, cfg, &w, false, sc, AnyCons::M(m), None).0);
                        ctx.eval();
                        let Some(got) = got else { continue };
                        ctx.seen("mix.reader-truncated", format!("{}+{}", m.pre_class(), m.fin_class()));
                        judge_mix(ctx, "reader-truncated", &q0, &got, m, &|m2| run_read_any(env, cfg, &w, false, sc, AnyCons::M(m2), None).0, &|| format!("Message reader over the cfg {} message cut to {cut} of {} bytes, source {}, mixed consumer {}", cfg.name, wire.len(), sc.name(), m.name()), &replay);
                    }
                }
            }
        }
    }

    // ---- F: fault injection --------------------------------------------------------------------
    let fsizes: Vec<usize> = if thorough { vec![0, 1, 506, 507, 700, 1530, 8192, 8193, 8192 + 300, 16390, 3 * 8192 + 5] } else { vec![0, 1, 507, 700, 8193, 16390] };
    let budget = (ctx.qt(64usize, 128usize), ctx.qt(40usize, 96usize));
    for (ci, cfg) in cfgs.iter().enumerate() {
        for n in &fsizes {
            let n = *n;
            // sub-cases: builder source faults, builder sink faults (x3 emitters), reader faults (x2)
            let sub: Vec<bool> = (0..6).map(|_| ctx.mine()).collect();
            if !sub.iter().any(|m| *m) {
                continue;
            }
            let mut rng = ctx.rng("F", (ci * 100_000 + n) as u64);
            let data = Arc::new(payload(&mut rng, n, cfg.text));
            describe_case(&format!("F cfg {} size {n}", cfg.name));
            ctx.cover(&("F", cfg.name, n));
            let base = json!({"family": "F", "cfg": cfg.name, "size": n, "data": hexs(&data)});

            // (1) builder, source faults
            let Some((r0, _, _)) = guarded(ctx, "C09/builder-source/sched", || base.clone(), || run_build(env, cfg, &data, &Sched::All, None, Emit::Vec, &Sched::All, None)) else { continue };
            if r0.err {
                ctx.violation("C09/builder-source/r0-wrong", format!("clean build of cfg {} size {n} failed: {}", cfg.name, r0.brief()), base.clone());
                continue;
            }
            let c = cfg.chunk as usize;
            let src_bounds: Vec<usize> = (0..8).map(|k| c - 6 + k * c).chain([8192, 16384, 24576]).filter(|b| *b <= n).collect();
            let mut fault_scheds = vec![Sched::All, Sched::Fixed(300)];
            if cfg.text && n > 1 {
                // text literals carry state across source reads (pending CR, incomplete UTF-8 sequence): split
                // the source exactly inside every CR LF pair / inside every multi-octet character, so that an
                // injected fault falls between the two halves
                let crlf: Vec<usize> = (1..data.len()).filter(|i| data[*i - 1] == b'\r' && data[*i] == b'\n').collect();
                let utf8: Vec<usize> = (1..data.len()).filter(|i| data[*i] & 0xC0 == 0x80).collect();
                if !crlf.is_empty() {
                    fault_scheds.push(Sched::SplitAt(crlf));
                }
                if !utf8.is_empty() {
                    fault_scheds.push(Sched::SplitAt(utf8));
                }
            }
            for sc in fault_scheds.into_iter().filter(|_| sub[0]) {
                let Some((_, slog, _)) = guarded(ctx, "C09/builder-source/sched", || base.clone(), || run_build(env, cfg, &data, &sc, None, Emit::Vec, &Sched::All, None)) else { continue };
                let (offsets, ncalls) = {
                    let l = slog.lock().unwrap();
                    (l.offsets.clone(), l.calls)
                };
                let pts = fault_points(ncalls, &offsets, &src_bounds, &mut rng, budget.0, budget.1);
                ctx.tally("fault.points.builder-source", pts.len() as u64);
                for k in pts {
                    for (kind, sticky) in [(FaultKind::Other, false), (FaultKind::Other, true), (FaultKind::Interrupted, false), (FaultKind::UnexpectedEof, false), (FaultKind::UnexpectedEof, true)] {
                        let f = Fault { at_call: k, sticky, kind };
                        let replay = || {
                            let mut v = base.clone();
                            v["source"] = sched_json(&sc);
                            v["source_fault"] = json!({"call": k, "sticky": sticky, "kind": kind_name(kind), "clean_calls": ncalls});
                            v
                        };
                        let r = guarded(ctx, &fault_prefix("builder-source", kind), replay, || run_build(env, cfg, &data, &sc, Some(f), Emit::Vec, &Sched::All, None));
                        ctx.eval();
                        let Some((got, slog, _)) = r else { continue };
                        let raised = slog.lock().unwrap().faults_raised;
                        judge_fault(ctx, "builder-source", &r0, &got, raised, &f, &|| format!("MessageBuilder::from_reader(..).to_vec cfg {} over {n} payload bytes, source {} ({ncalls} clean source calls)", cfg.name, sc.name()), &replay);
                    }
                }
            }

            // (2) builder, sink faults: to_writer and to_armored_writer (with and without CRC line)
            for (ei, emit_kind) in [Emit::Writer, Emit::Armored, Emit::ArmoredNoCrc].into_iter().enumerate() {
                if !sub[1 + ei] {
                    continue;
                }
                let comp = emit_kind.comp();
                for sk in [Sched::All, Sched::Fixed(200)] {
                    let Some((e0, _, l0)) = guarded(ctx, &format!("C09/{comp}/sched"), || base.clone(), || run_build(env, cfg, &data, &Sched::All, None, emit_kind, &sk, None)) else { continue };
                    if e0.err {
                        ctx.violation(format!("C09/{comp}/r0-wrong"), format!("clean {emit_kind:?} build failed: {}", e0.brief()), base.clone());
                        continue;
                    }
                    let ncalls = l0.calls;
                    // the end of an armored body and the footer are written by the last ~16 calls
                    let mut pts = fault_points(ncalls, &l0.offsets, &[], &mut rng, budget.0, budget.1);
                    pts.extend(ncalls.saturating_sub(20)..ncalls);
                    pts.sort_unstable();
                    pts.dedup();
                    ctx.tally(&format!("fault.points.{comp}"), pts.len() as u64);
                    for k in pts {
                        for (kind, sticky) in [(FaultKind::Other, false), (FaultKind::Other, true), (FaultKind::Interrupted, false), (FaultKind::UnexpectedEof, false), (FaultKind::UnexpectedEof, true)] {
                            let f = Fault { at_call: k, sticky, kind };
                            let replay = || {
                                let mut v = base.clone();
                                v["emit"] = json!(format!("{emit_kind:?}"));
                                v["sink"] = sched_json(&sk);
                                v["sink_fault"] = json!({"call": k, "sticky": sticky, "kind": kind_name(kind), "clean_calls": ncalls});
                                v
                            };
                            let r = guarded(ctx, &fault_prefix(comp, kind), replay, || run_build(env, cfg, &data, &Sched::All, None, emit_kind, &sk, Some(f)));
                            ctx.eval();
                            let Some((got, _, l)) = r else { continue };
                            judge_fault(ctx, comp, &e0, &got, l.faults_raised, &f, &|| format!("MessageBuilder {emit_kind:?} cfg {} over {n} payload bytes, sink {} ({ncalls} clean sink calls incl. flush)", cfg.name, sk.name()), &replay);
                        }
                    }
                }
            }

            // (3) reader, source faults (binary and armored)
            let wire = Arc::new(r0.data.clone());
            let Some((a0, _, _)) = guarded(ctx, "C09/builder-armored-sink/sched", || base.clone(), || run_build(env, cfg, &data, &Sched::All, None, Emit::Armored, &Sched::All, None)) else { continue };
            let awire = Arc::new(a0.data);
            for armored in [false, true] {
                if !sub[4 + armored as usize] {
                    continue;
                }
                let comp = if armored { "reader-armored" } else { "reader" };
                let w = if armored { &awire } else { &wire };
                let bounds = if armored { vec![] } else { stream_boundaries(w) };
                let fmix = Mix::new(&[Op::Fill(0), Op::Read(5)], 0, Fin::ToEnd);
                let (c_end, c_read, c_buf) = (Consume::ToEnd, Consume::Read(100), Consume::Buf(5));
                // one schedule whose calls start exactly at every packet / partial-chunk edge of the stream, so that a
                // fault can fall precisely where the next header or chunk length is expected
                let mut fsched = vec![(Sched::All, AnyCons::S(&c_end)), (Sched::Fixed(300), AnyCons::S(&c_read)), (Sched::Fixed(4096), AnyCons::S(&c_buf)), (Sched::Fixed(2000), AnyCons::M(&fmix))];
                if !bounds.is_empty() {
                    fsched.push((Sched::SplitAt(bounds.clone()), AnyCons::S(&c_end)));
                }
                for (sc, c) in fsched {
                    let Some((q0, qlog)) = guarded(ctx, &format!("C09/{comp}/sched"), || base.clone(), || run_read_any(env, cfg, w, armored, &sc, c, None)) else { continue };
                    if q0.err || q0.data != **data {
                        // (the R family reports this as a schedule violation with full detail)
                        ctx.violation(format!("C09/{comp}/r0-wrong"), format!("clean read of the cfg {} message ({n} payload bytes, armored={armored}) with source {} consumer {}: {}", cfg.name, sc.name(), c.name(), q0.brief()), base.clone());
                        continue;
                    }
                    let (offsets, ncalls) = {
                        let l = qlog.lock().unwrap();
                        (l.offsets.clone(), l.calls)
                    };
                    let pts = fault_points(ncalls, &offsets, &bounds, &mut rng, budget.0, budget.1);
                    ctx.tally(&format!("fault.points.{comp}"), pts.len() as u64);
                    if n == 700 {
                        ctx.sample(json!({"family": "F", "cfg": cfg.name, "payload_bytes": n, "armored": armored, "source": sc.name(), "consumer": c.name(), "clean_source_calls": ncalls, "fault_calls": pts, "kinds": ["other/once", "other/sticky", "interrupted/once"]}));
                    }
                    for k in pts {
                        for (kind, sticky) in [(FaultKind::Other, false), (FaultKind::Other, true), (FaultKind::Interrupted, false), (FaultKind::UnexpectedEof, false), (FaultKind::UnexpectedEof, true)] {
                            let f = Fault { at_call: k, sticky, kind };
                            let replay = || json!({"family": "F", "cfg": cfg.name, "armored": armored, "wire": hexs(w), "source": sched_json(&sc), "consumer": c.name(), "source_fault": {"call": k, "sticky": sticky, "kind": kind_name(kind), "clean_calls": ncalls}});
                            let r = guarded(ctx, &fault_prefix(comp, kind), replay, || run_read_any(env, cfg, w, armored, &sc, c, Some(f)));
                            ctx.eval();
                            let Some((got, log)) = r else { continue };
                            let raised = log.lock().unwrap().faults_raised;
                            judge_fault(ctx, comp, &q0, &got, raised, &f, &|| format!("Message reader cfg {} ({n} payload bytes, armored={armored}), source {}, consumer {} ({ncalls} clean source calls)", cfg.name, sc.name(), c.name()), &replay);
                        }
                    }
                }
            }
        }
    }

    // ---- F2: sign(reader) / verify(reader) / armor::write with faults ---------------------------
    for (i, n) in [0usize, 1, 700, 8192, 8193, 20000].iter().enumerate() {
        if !ctx.mine() {
            continue;
        }
        let n = *n;
        let mut rng = ctx.rng("F2", i as u64);
        let data = Arc::new(payload(&mut rng, n, true));
        ctx.cover(&("F2", n));
        describe_case(&format!("F2 sign/verify reader size {n}"));
        let signer = RecSigner::new(&env.k4.primary_key);
        let mk = || {
            let mut c = SignatureConfig::v4(SignatureType::Binary, env.k4.primary_key.algorithm(), HashAlgorithm::Sha256);
            c.hashed_subpackets = vec![
                Subpacket::regular(SubpacketData::SignatureCreationTime(Timestamp::from_secs(1_700_000_000))).unwrap(),
                Subpacket::regular(SubpacketData::IssuerFingerprint(env.k4.primary_key.fingerprint())).unwrap(),
            ];
            c
        };
        let sign_run = |sc: &Sched, f: Option<Fault>| -> (Out, LogRef) {
            let src = Src::new(&data, sc).fault(f);
            let log = src.log();
            let r = mk().sign(&signer, &Password::empty(), src);
            let seen = signer.take();
            let out = match r {
                Ok(sig) => Out::ok(sig.to_bytes().unwrap_or_default(), format!("digests={:?}", seen.iter().map(|d| hex::encode(&d.digest)).collect::<Vec<_>>())),
                Err(e) => Out::err("sign", e, vec![]),
            };
            (out, log)
        };
        let Some((s0, _)) = guarded(ctx, "C09/sign-reader/sched", || json!({"size": n}), || sign_run(&Sched::All, None)) else { continue };
        ctx.eval();
        if s0.err {
            ctx.violation("C09/sign-reader/r0-wrong", format!("clean SignatureConfig::sign failed: {}", s0.brief()), json!({"size": n}));
            continue;
        }
        let sig = match pgp::packet::Signature::try_from_reader(pgp::packet::PacketHeader::new_fixed(pgp::types::Tag::Signature, s0.data.len() as u32), &s0.data[..]) {
            Ok(s) => s,
            Err(e) => {
                ctx.inconclusive(format!("F2: cannot re-parse signature: {e}"));
                continue;
            }
        };
        let verify_run = |sc: &Sched, f: Option<Fault>| -> (Out, LogRef) {
            let src = Src::new(&data, sc).fault(f);
            let log = src.log();
            let out = match sig.verify(&env.p4.primary_key, src) {
                Ok(()) => Out::ok(vec![], "verified"),
                Err(e) => Out::err("verify", e, vec![]),
            };
            (out, log)
        };
        let Some((v0, _)) = guarded(ctx, "C09/verify-reader/sched", || json!({"size": n}), || verify_run(&Sched::All, None)) else { continue };
        ctx.eval();
        if v0.err {
            ctx.violation("C09/verify-reader/r0-wrong", format!("clean Signature::verify of a fresh signature failed: {}", v0.brief()), json!({"size": n}));
            continue;
        }
        let seeds: Vec<u64> = (0..3).map(|_| rng.gen()).collect();
        let base = json!({"family": "F2", "size": n, "data": hexs(&data)});
        diff_and_fault(ctx, "sign-reader", &format!("SignatureConfig::sign over {n} bytes"), &s0, &adversarial(n, &[8192], &seeds, thorough), &[Consume::ToEnd], &[Sched::All, Sched::Fixed(1000), Sched::Fixed(1)], &Consume::ToEnd, &[8192], (64, 24, 0), &base, &|sc, _c, f| sign_run(sc, f));
        diff_and_fault(ctx, "verify-reader", &format!("Signature::verify over {n} bytes"), &v0, &adversarial(n, &[8192], &seeds, thorough), &[Consume::ToEnd], &[Sched::All, Sched::Fixed(1000), Sched::Fixed(1)], &Consume::ToEnd, &[8192], (64, 24, 0), &base, &|sc, _c, f| verify_run(sc, f));
    }
    // armor::write of a certificate (key export path) under sink schedules and sink faults
    for (i, key) in [&env.p4, &env.p6].iter().enumerate() {
        for crc in [true, false] {
            if !ctx.mine() {
                continue;
            }
            ctx.cover(&("F3", i, crc));
            describe_case(&format!("F3 armor::write key {i} crc {crc}"));
            let run = |sk: &Sched, f: Option<Fault>| -> (Out, Log) {
                let mut sink = Sink::new(sk).fault(f);
                let out = sink.out.clone();
                let log = sink.log.clone();
                let r = pgp::armor::write(*key, BlockType::PublicKey, &mut sink, None, crc);
                let bytes = out.borrow().clone();
                let l = log.borrow().clone();
                (match r {
                    Ok(()) => Out::ok(bytes, ""),
                    Err(e) => Out::err("write", e, bytes),
                }, l)
            };
            let Some((w0, l0)) = guarded(ctx, "C09/armor-write/sched", || json!({"key": i}), || run(&Sched::All, None)) else { continue };
            ctx.eval();
            let raw = key.to_bytes().unwrap_or_default();
            let anchored = !w0.err && std::str::from_utf8(&w0.data).ok().and_then(|s| rfc::armor::armor_parse_strict(s).ok()).map(|p| p.data == raw).unwrap_or(false);
            if !anchored {
                ctx.violation("C09/armor-write/r0-wrong", format!("clean armor::write output does not dearmor (reference) to the key bytes: {}", w0.brief()), json!({"key": i, "crc": crc}));
                continue;
            }
            for sk in sink_scheds(thorough, 11 + i as u64) {
                let replay = || json!({"family": "F3", "key": i, "crc": crc, "sink": sched_json(&sk)});
                let got = guarded(ctx, "C09/armor-write/sched", replay, || run(&sk, None).0);
                ctx.eval();
                let Some(got) = got else { continue };
                judge(ctx, "armor-write", &w0, &got, &|| format!("armor::write of certificate {i} (crc={crc}), sink accepts {}", sk.name()), &replay);
            }
            for k in 0..l0.calls {
                for (kind, sticky) in [(FaultKind::Other, false), (FaultKind::Other, true), (FaultKind::Interrupted, false), (FaultKind::UnexpectedEof, false), (FaultKind::UnexpectedEof, true)] {
                    let f = Fault { at_call: k, sticky, kind };
                    let replay = || json!({"family": "F3", "key": i, "crc": crc, "sink_fault": {"call": k, "sticky": sticky, "kind": kind_name(kind), "clean_calls": l0.calls}});
                    let r = guarded(ctx, &fault_prefix("armor-write", kind), replay, || run(&Sched::All, Some(f)));
                    ctx.eval();
                    let Some((got, l)) = r else { continue };
                    judge_fault(ctx, "armor-write", &w0, &got, l.faults_raised, &f, &|| format!("armor::write of certificate {i} (crc={crc}), {} clean sink calls", l0.calls), &replay);
                }
            }
        }
    }
}

// ==========================================================================================
// Family K: armored / binary certificates and an armored message WITH armor headers through the
// composed entry points (`from_armor_single` over a plain `Read`, `..._buf` over a `BufRead`,
// `from_bytes`, `Message::from_armor`): every single split of the first bytes, every Fixed(k).

fn family_keys(ctx: &mut Ctx, env: &MsgEnv) {
    use pgp::composed::{Deserializable, SignedPublicKey};
    let mut hdrs = pgp::armor::Headers::new();
    hdrs.insert("Comment".to_string(), vec!["made by the C09 monitor".to_string()]);
    hdrs.insert("Version".to_string(), vec!["mon 1".to_string()]);
    let key_out = |r: pgp::errors::Result<(SignedPublicKey, pgp::armor::Headers)>| match r {
        Ok((k, h)) => Out::ok(k.to_bytes().unwrap_or_default(), format!("{h:?}")),
        Err(e) => Out::err("parse", e, vec![]),
    };
    for (ki, key) in [&env.p4, &env.p6].into_iter().enumerate() {
        for with_headers in [false, true] {
            let Ok(text) = key.to_armored_bytes(ArmorOptions { headers: with_headers.then_some(&hdrs), include_checksum: true }) else {
                ctx.inconclusive("K: cannot armor the zoo key");
                continue;
            };
            let raw = key.to_bytes().unwrap_or_default();
            let text = Arc::new(text);
            let n = text.len();
            let comp = if with_headers { "key-from-armor-headers" } else { "key-from-armor" };
            let head = 120usize.min(n);
            let mut scheds: Vec<Sched> = (1..=head).map(Sched::Fixed).collect();
            scheds.extend((1..head).map(|a| Sched::SplitAt(vec![a])));
            scheds.extend([Sched::Fixed(n), Sched::Random(ki as u64 + 1, 50), Sched::Random(ki as u64 + 2, 500), Sched::Cycle(vec![27, 1, 28, 2])]);
            for (mi, mode) in ["read", "bufread"].into_iter().enumerate() {
                let run = |sc: &Sched, f: Option<Fault>| -> (Out, LogRef) {
                    let src = Src::new(&text, sc).fault(f);
                    let log = src.log();
                    let out = if mode == "read" { key_out(SignedPublicKey::from_armor_single(src)) } else { key_out(SignedPublicKey::from_armor_single_buf(src)) };
                    (out, log)
                };
                if !ctx.mine() {
                    continue;
                }
                describe_case(&format!("K key {ki} headers {with_headers} mode {mode}"));
                ctx.cover(&("K", ki, with_headers, mi));
                let Some((r0, _)) = guarded(ctx, &format!("C09/{comp}/sched"), || json!({"key": ki}), || run(&Sched::All, None)) else { continue };
                ctx.eval();
                if r0.err || r0.data != raw {
                    ctx.violation(format!("C09/{comp}/r0-wrong"), format!("all-at-once from_armor_single ({mode}) of an armored certificate gives {}", r0.brief()), json!({"armor": hexs(&text)}));
                    continue;
                }
                let base = json!({"family": "K", "component": comp, "entry": mode, "armor": hexs(&text)});
                diff_and_fault(ctx, comp, &format!("SignedPublicKey::from_armor_single ({mode}) of certificate {ki} ({n} bytes, armor headers: {with_headers})"), &r0, &scheds, &[Consume::ToEnd], &[Sched::All, Sched::Fixed(64)], &Consume::ToEnd, &[], (64, 16, 0), &base, &|sc, _c, f| run(sc, f));
            }
        }
        // binary certificate through from_bytes
        if !ctx.mine() {
            continue;
        }
        let raw = Arc::new(key.to_bytes().unwrap_or_default());
        let n = raw.len();
        let run = |sc: &Sched, f: Option<Fault>| -> (Out, LogRef) {
            let src = Src::new(&raw, sc).fault(f);
            let log = src.log();
            let out = match SignedPublicKey::from_bytes(src) {
                Ok(k) => Out::ok(k.to_bytes().unwrap_or_default(), ""),
                Err(e) => Out::err("parse", e, vec![]),
            };
            (out, log)
        };
        ctx.cover(&("Kb", ki));
        let Some((r0, _)) = guarded(ctx, "C09/key-from-bytes/sched", || json!({"key": ki}), || run(&Sched::All, None)) else { continue };
        ctx.eval();
        if r0.err || r0.data != **raw {
            ctx.violation("C09/key-from-bytes/r0-wrong", format!("all-at-once SignedPublicKey::from_bytes gives {}", r0.brief()), json!({"key": hexs(&raw)}));
            continue;
        }
        let bounds = stream_boundaries(&raw);
        let mut scheds = adversarial(n, &bounds, &[3, 4, 5], !ctx.quick());
        scheds.extend((1..n).map(|a| Sched::SplitAt(vec![a])));
        let base = json!({"family": "K", "component": "key-from-bytes", "key": hexs(&raw)});
        diff_and_fault(ctx, "key-from-bytes", &format!("SignedPublicKey::from_bytes of certificate {ki} ({n} bytes)"), &r0, &scheds, &[Consume::ToEnd], &[Sched::All, Sched::Fixed(16)], &Consume::ToEnd, &bounds, (64, 16, 0), &base, &|sc, _c, f| run(sc, f));
    }

    // armored message with armor headers through Message::from_armor / Message::from_reader
    let cfg = &configs()[0];
    for n in [0usize, 700] {
        if !ctx.mine() {
            continue;
        }
        let mut rng = Ctx::fixed_rng("c09.K.msg", n as u64);
        let data = Arc::new(payload(&mut rng, n, false));
        let mut sink = Sink::new(&Sched::All);
        let out = sink.out.clone();
        let b = {
            let mut b = MessageBuilder::from_reader("", &data[..]);
            b.partial_chunk_size(512).unwrap();
            b
        };
        if b.to_armored_writer(ChaCha8Rng::seed_from_u64(1), ArmorOptions { headers: Some(&hdrs), include_checksum: true }, &mut sink).is_err() {
            ctx.inconclusive("K: cannot build the armored message with headers");
            continue;
        }
        let text = Arc::new(out.borrow().clone());
        let tn = text.len();
        ctx.cover(&("Km", n));
        for auto in [false, true] {
            let comp = "reader-armored-headers";
            let run = |sc: &Sched, c: &Consume, f: Option<Fault>| -> (Out, LogRef) {
                let src = Src::new(&text, sc).fault(f);
                let log = src.log();
                let out = (|| {
                    let r = if auto { Message::from_reader(src).map(|(m, h)| (m, h.unwrap_or_default())) } else { Message::from_armor(src) };
                    let (mut msg, h) = match r {
                        Ok(x) => x,
                        Err(e) => return Out::err("parse", e, vec![]),
                    };
                    let d = drain(&mut msg, c);
                    match d.err {
                        Some(e) => Out::err("read", e, d.data),
                        None => Out::ok(d.data, format!("{h:?}")),
                    }
                })();
                (out, log)
            };
            let Some((r0, _)) = guarded(ctx, &format!("C09/{comp}/sched"), || json!({"size": n}), || run(&Sched::All, &Consume::ToEnd, None)) else { continue };
            ctx.eval();
            if r0.err || r0.data != **data || !r0.meta.contains("made by the C09 monitor") {
                ctx.violation(format!("C09/{comp}/r0-wrong"), format!("all-at-once Message::from_armor (auto={auto}) of a message with armor headers gives {}", r0.brief()), json!({"armor": hexs(&text)}));
                continue;
            }
            let head = 120usize.min(tn);
            let mut scheds: Vec<Sched> = (1..=head).map(Sched::Fixed).collect();
            scheds.extend((1..head).map(|a| Sched::SplitAt(vec![a])));
            scheds.extend([Sched::Random(9, 40), Sched::Random(10, 400)]);
            let base = json!({"family": "K", "component": comp, "auto_detect": auto, "cfg": cfg.name, "armor": hexs(&text)});
            diff_and_fault(ctx, comp, &format!("Message::from_{} over an armored message with armor headers ({tn} bytes)", if auto { "reader" } else { "armor" }), &r0, &scheds, &[Consume::ToEnd, Consume::Read(7)], &[Sched::All], &Consume::Read(100), &[], (64, 16, 0), &base, &|sc, c, f| run(sc, c, f));
        }
    }
}
