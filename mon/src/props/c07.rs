//! C07 — generated keys are valid, self-consistent and usable for every seed and shape.
//!
//! Per generated key (library key builder driven with a seeded ChaCha8Rng) the monitor asserts
//! (a) verify_bindings of the secret and of the public form, (b) equality after binary and armored
//! export + re-import, (c) requested flags / features / preferences / user ids / creation time /
//! version / algorithm, read through the library accessors AND through the independent reference
//! parser of the exported bytes, (d) reference digests (left16) of every self-signature and of the
//! embedded 0x19 back-signature plus an independent verification of the signature value with the
//! primitive crates (Ed25519, EdDSA legacy, ECDSA P-256/384/521, Ed448), public-from-secret
//! consistency computed by the reference, (e) usability: sign/verify, encrypt/decrypt, unlock with
//! the right / wrong passphrase — using the re-imported key so that stripped MPIs must have been
//! re-padded, (f) builder validation.  Leading-zero events are tallied per field.
//! The requested metadata is varied per item: each of the four preference lists is empty or
//! non-empty independently of the others, and the family `meta-matrix` enumerates every cell of
//! {v4,v6} x 2^4 list emptiness x 2^2 features x 2^3 primary key flags.

use pgp::composed::{
    ArmorOptions, Deserializable, DetachedSignature, DsaKeySize, EncryptionCaps, KeyType, Message,
    MessageBuilder, SecretKeyParams, SecretKeyParamsBuilder, SignedPublicKey, SignedSecretKey,
    SubkeyParamsBuilder,
};
use pgp::crypto::aead::{AeadAlgorithm, ChunkSize};
use pgp::crypto::ecc_curve::ECCCurve;
use pgp::crypto::hash::HashAlgorithm;
use pgp::crypto::sym::SymmetricKeyAlgorithm;
use pgp::packet::{
    PacketTrait, Signature, SignatureConfig, SignatureType, Subpacket, SubpacketData, UserAttribute,
};
use pgp::ser::Serialize;
use pgp::types::{
    CompressionAlgorithm, EncryptionKey, KeyDetails, KeyVersion, Password, S2kParams, SigningKey,
    StringToKey, Timestamp, VerifyingKey,
};
use rand::seq::SliceRandom;
use rand::{Rng, RngCore};
use rand_chacha::ChaCha8Rng;
use serde_json::{json, Value};

use crate::core::{describe_case, guard, hexs, Ctx};
use crate::rfc;
use crate::rfc::key::{RefPub, RefSecret};
use crate::rfc::sig::{parse_sig, parse_subpackets, RefSig, RefSubpacket};

// ------------------------------------------------------------------------------------------
// shapes

#[derive(Clone, Copy, Debug, PartialEq, Eq, Hash)]
enum Alg {
    Rsa,
    Dsa,
    EdLegacy,
    Ed25519,
    Ed448,
    P256,
    P384,
    P521,
    K256,
    EcdhP256,
    EcdhP384,
    EcdhP521,
    EcdhCv,
    X25519,
    X448,
}

impl Alg {
    fn key_type(self) -> KeyType {
        match self {
            Alg::Rsa => KeyType::Rsa(2048),
            Alg::Dsa => KeyType::Dsa(DsaKeySize::B2048),
            Alg::EdLegacy => KeyType::Ed25519Legacy,
            Alg::Ed25519 => KeyType::Ed25519,
            Alg::Ed448 => KeyType::Ed448,
            Alg::P256 => KeyType::ECDSA(ECCCurve::P256),
            Alg::P384 => KeyType::ECDSA(ECCCurve::P384),
            Alg::P521 => KeyType::ECDSA(ECCCurve::P521),
            Alg::K256 => KeyType::ECDSA(ECCCurve::Secp256k1),
            Alg::EcdhP256 => KeyType::ECDH(ECCCurve::P256),
            Alg::EcdhP384 => KeyType::ECDH(ECCCurve::P384),
            Alg::EcdhP521 => KeyType::ECDH(ECCCurve::P521),
            Alg::EcdhCv => KeyType::ECDH(ECCCurve::Curve25519Legacy),
            Alg::X25519 => KeyType::X25519,
            Alg::X448 => KeyType::X448,
        }
    }
    fn name(self) -> &'static str {
        match self {
            Alg::Rsa => "RSA2048",
            Alg::Dsa => "DSA2048",
            Alg::EdLegacy => "Ed25519Legacy",
            Alg::Ed25519 => "Ed25519",
            Alg::Ed448 => "Ed448",
            Alg::P256 => "ECDSA-P256",
            Alg::P384 => "ECDSA-P384",
            Alg::P521 => "ECDSA-P521",
            Alg::K256 => "ECDSA-secp256k1",
            Alg::EcdhP256 => "ECDH-P256",
            Alg::EcdhP384 => "ECDH-P384",
            Alg::EcdhP521 => "ECDH-P521",
            Alg::EcdhCv => "ECDH-Curve25519Legacy",
            Alg::X25519 => "X25519",
            Alg::X448 => "X448",
        }
    }
    /// OpenPGP public key algorithm id
    fn id(self) -> u8 {
        match self {
            Alg::Rsa => 1,
            Alg::Dsa => 17,
            Alg::EdLegacy => 22,
            Alg::Ed25519 => 27,
            Alg::Ed448 => 28,
            Alg::P256 | Alg::P384 | Alg::P521 | Alg::K256 => 19,
            Alg::EcdhP256 | Alg::EcdhP384 | Alg::EcdhP521 | Alg::EcdhCv => 18,
            Alg::X25519 => 25,
            Alg::X448 => 26,
        }
    }
    fn oid(self) -> Option<&'static [u8]> {
        Some(match self {
            Alg::EdLegacy => rfc::key::OID_ED25519,
            Alg::P256 | Alg::EcdhP256 => rfc::key::OID_P256,
            Alg::P384 | Alg::EcdhP384 => rfc::key::OID_P384,
            Alg::P521 | Alg::EcdhP521 => rfc::key::OID_P521,
            Alg::K256 => rfc::key::OID_K256,
            Alg::EcdhCv => rfc::key::OID_CV25519,
            _ => return None,
        })
    }
    fn can_sign(self) -> bool {
        matches!(
            self,
            Alg::Rsa
                | Alg::Dsa
                | Alg::EdLegacy
                | Alg::Ed25519
                | Alg::Ed448
                | Alg::P256
                | Alg::P384
                | Alg::P521
                | Alg::K256
        )
    }
    fn v4_only(self) -> bool {
        matches!(self, Alg::EdLegacy | Alg::EcdhCv)
    }
}

#[derive(Clone, Copy, Debug, PartialEq, Eq)]
enum S2kKind {
    /// library default for the key version (.s2k(None))
    Default,
    CfbIter,
    AeadIter,
    AeadArgon2,
}

impl S2kKind {
    fn name(self) -> &'static str {
        match self {
            S2kKind::Default => "default",
            S2kKind::CfbIter => "cfb-iterated",
            S2kKind::AeadIter => "aead-iterated",
            S2kKind::AeadArgon2 => "aead-argon2",
        }
    }
}

#[derive(Clone, Debug)]
struct SubShape {
    alg: Alg,
    sign: bool,
    enc: EncryptionCaps,
    auth: bool,
    locked: bool,
    /// creation time offset (seconds) relative to the primary
    created_off: u32,
}

#[derive(Clone, Debug)]
struct Shape {
    v6: bool,
    primary: Alg,
    sign: bool,
    certify: bool,
    auth: bool,
    enc: EncryptionCaps,
    feat1: bool,
    feat2: bool,
    /// all user ids in packet order; the first one is the primary one iff has_primary
    uids: Vec<String>,
    has_primary: bool,
    attr: Option<Vec<u8>>,
    sym: Vec<u8>,
    hash: Vec<u8>,
    comp: Vec<u8>,
    aead: Vec<(u8, u8)>,
    pass: Option<String>,
    lock_primary: bool,
    s2k: S2kKind,
    subs: Vec<SubShape>,
    created: u32,
    /// the library may legitimately refuse this shape (outcome is only tallied)
    uncertain: bool,
}

fn caps_bits(c: EncryptionCaps) -> u8 {
    match c {
        EncryptionCaps::None => 0,
        EncryptionCaps::Communication => 0x04,
        EncryptionCaps::Storage => 0x08,
        EncryptionCaps::All => 0x0C,
    }
}

impl Shape {
    fn primary_flags(&self) -> u8 {
        (self.certify as u8)
            | (self.sign as u8) << 1
            | caps_bits(self.enc)
            | (self.auth as u8) << 5
    }
    fn features(&self) -> u8 {
        (self.feat1 as u8) | (self.feat2 as u8) << 3
    }
    fn desc(&self) -> String {
        let subs: Vec<String> = self
            .subs
            .iter()
            .map(|s| {
                format!(
                    "{}{}{}{}{}",
                    s.alg.name(),
                    if s.sign { "+S" } else { "" },
                    match s.enc {
                        EncryptionCaps::None => "",
                        EncryptionCaps::Communication => "+Ec",
                        EncryptionCaps::Storage => "+Es",
                        EncryptionCaps::All => "+E",
                    },
                    if s.auth { "+A" } else { "" },
                    if s.locked { "+L" } else { "" }
                )
            })
            .collect();
        format!(
            "{} {} flags={:#04x} feat={:#04x} uids={}{} attr={} prefs={}/{}/{}/{} lock={} subs=[{}] created={}",
            if self.v6 { "v6" } else { "v4" },
            self.primary.name(),
            self.primary_flags(),
            self.features(),
            self.uids.len(),
            if self.has_primary { "(primary)" } else { "" },
            self.attr.is_some(),
            self.sym.len(),
            self.hash.len(),
            self.comp.len(),
            self.aead.len(),
            match (&self.pass, self.lock_primary) {
                (None, _) => "none".to_string(),
                (Some(_), p) => format!("{}{}", self.s2k.name(), if p { "" } else { "(subkeys only)" }),
            },
            subs.join(","),
            self.created
        )
    }
}

fn pick<T: Copy>(r: &mut ChaCha8Rng, items: &[(T, u32)]) -> T {
    let total: u32 = items.iter().map(|x| x.1).sum();
    let mut k = r.gen_range(0..total);
    for (t, w) in items {
        if k < *w {
            return *t;
        }
        k -= *w;
    }
    items[0].0
}

fn subset(r: &mut ChaCha8Rng, pool: &[u8], max: usize) -> Vec<u8> {
    let mut p = pool.to_vec();
    p.shuffle(r);
    let n = r.gen_range(1..=max.min(p.len()));
    p.truncate(n);
    p
}

fn random_uid(r: &mut ChaCha8Rng, i: usize) -> String {
    let words = ["Alice", "Bob", "Zoë", "Łukasz", "山田", "O'Neil", "x", "Dr. Ünal", "a b  c"];
    let w = words[r.gen_range(0..words.len())];
    match r.gen_range(0..10) {
        0 => format!("{w}{i}"),
        1 => format!("<u{i}@example.org>"),
        2 => {
            // long id: 2-octet packet length
            let mut s = format!("{w} {i} ");
            while s.len() < 200 + r.gen_range(0..150) {
                s.push_str("lorem ipsum ");
            }
            s
        }
        _ => format!("{w} {i} <{}{i}@example.org>", w.to_lowercase().replace(' ', ".")),
    }
}

fn random_pass(r: &mut ChaCha8Rng) -> String {
    match r.gen_range(0..30) {
        0 => String::new(),
        1 => "pässwörd ✓".to_string(),
        2 => " leading and trailing ".to_string(),
        _ => {
            let n = r.gen_range(1..24);
            (0..n).map(|_| (b'!' + r.gen_range(0..94u8)) as char).collect()
        }
    }
}

fn random_sub(r: &mut ChaCha8Rng, v6: bool, locked: bool) -> SubShape {
    use Alg::*;
    let mut pool: Vec<(Alg, u32)> = vec![
        (EcdhP256, 6),
        (EcdhP384, 6),
        (EcdhP521, 2),
        (X25519, 4),
        (X448, 2),
        (Ed25519, 2),
        (P256, 2),
        (P384, 1),
        (P521, 1),
        (K256, 1),
        (Ed448, 1),
    ];
    if !v6 {
        pool.push((EcdhCv, 4));
        pool.push((EdLegacy, 2));
    }
    let alg = pick(r, &pool);
    if alg.can_sign() {
        let auth_only = r.gen_range(0..12) == 0;
        SubShape {
            alg,
            sign: !auth_only,
            enc: EncryptionCaps::None,
            auth: auth_only || r.gen_range(0..5) == 0,
            locked,
            created_off: r.gen_range(0..3) * 1000,
        }
    } else {
        SubShape {
            alg,
            sign: false,
            enc: pick(
                r,
                &[
                    (EncryptionCaps::All, 6),
                    (EncryptionCaps::Communication, 2),
                    (EncryptionCaps::Storage, 2),
                ],
            ),
            auth: false,
            locked,
            created_off: r.gen_range(0..3) * 1000,
        }
    }
}

/// Preference lists: bit 0 of `mask` = symmetric, 1 = hash, 2 = compression, 3 = AEAD list is
/// non-empty; the other lists stay empty (the builder default). Non-empty lists have 1..=N entries
/// in random order, N reaching past the inline capacity of the builder's SmallVecs (8 / 8 / 8 / 4).
fn draw_prefs(r: &mut ChaCha8Rng, mask: u8) -> (Vec<u8>, Vec<u8>, Vec<u8>, Vec<(u8, u8)>) {
    let sym = if mask & 1 != 0 { subset(r, &[7, 8, 9, 10, 11, 12, 13, 3, 2, 1, 4], 11) } else { vec![] };
    let hash = if mask & 2 != 0 { subset(r, &[8, 9, 10, 11, 12, 14, 2, 1, 3], 9) } else { vec![] };
    let comp = if mask & 4 != 0 { subset(r, &[0, 1, 2, 3], 4) } else { vec![] };
    let aead = if mask & 8 != 0 {
        let mut pairs: Vec<(u8, u8)> = vec![];
        for s in [7u8, 8, 9] {
            for a in [1u8, 2, 3] {
                pairs.push((s, a));
            }
        }
        pairs.shuffle(r);
        pairs.truncate(r.gen_range(1..=6));
        pairs
    } else {
        vec![]
    };
    (sym, hash, comp, aead)
}

fn prefs_mask_name(s: &Shape) -> String {
    let names: Vec<&str> = [(s.sym.is_empty(), "sym"), (s.hash.is_empty(), "hash"), (s.comp.is_empty(), "comp"), (s.aead.is_empty(), "aead")]
        .iter()
        .filter(|x| !x.0)
        .map(|x| x.1)
        .collect();
    if names.is_empty() {
        "none".into()
    } else {
        names.join("+")
    }
}

/// Cell of the exhaustive metadata matrix: {v4,v6} x 2^4 empty/non-empty preference lists x
/// 2^2 features x 2^3 primary key flags (certify, sign, authenticate) = 1024 cells. Everything
/// else (list contents, user ids, creation time) is drawn from `r`.
const META_CELLS: u64 = 2 * 16 * 4 * 8;

fn meta_matrix_shape(r: &mut ChaCha8Rng, cell: u64, rep: u64) -> Shape {
    let v6 = cell & 1 == 1;
    let mask = ((cell >> 1) & 15) as u8;
    let feat = (cell >> 5) & 3;
    let flags = (cell >> 7) & 7;
    let primary = if v6 {
        [Alg::Ed25519, Alg::P256, Alg::Ed448][((cell >> 1) + rep) as usize % 3]
    } else {
        [Alg::EdLegacy, Alg::Ed25519, Alg::P256][((cell >> 1) + rep) as usize % 3]
    };
    let nuids = if v6 { r.gen_range(0..=2) } else { r.gen_range(1..=2) };
    let uids: Vec<String> = (0..nuids).map(|i| random_uid(r, i)).collect();
    let has_primary = !v6 || (nuids > 0 && r.gen_range(0..3) != 0);
    let (sym, hash, comp, aead) = draw_prefs(r, mask);
    let subs = if (cell + rep) % 4 == 0 {
        vec![SubShape { alg: Alg::X25519, sign: false, enc: EncryptionCaps::All, auth: false, locked: false, created_off: 0 }]
    } else {
        vec![]
    };
    Shape {
        v6,
        primary,
        certify: flags & 1 != 0,
        sign: flags & 2 != 0,
        auth: flags & 4 != 0,
        enc: EncryptionCaps::None,
        feat1: feat & 1 != 0,
        feat2: feat & 2 != 0,
        uids,
        has_primary,
        attr: None,
        sym,
        hash,
        comp,
        aead,
        pass: None,
        lock_primary: false,
        s2k: S2kKind::CfbIter,
        subs,
        created: r.gen_range(1_000_000_000..1_750_000_000),
        uncertain: false,
    }
}

/// Shape of a key with a fast primary algorithm; everything but the primary algorithm and the
/// version (alternating) is drawn from `r`.
fn fast_shape(r: &mut ChaCha8Rng, primary: Alg, j: u64) -> Shape {
    let v6 = !primary.v4_only() && j % 2 == 1;
    let nuids = if v6 { r.gen_range(0..=3) } else { r.gen_range(1..=3) };
    let uids: Vec<String> = (0..nuids).map(|i| random_uid(r, i)).collect();
    let has_primary = !v6 || (nuids > 0 && r.gen_range(0..5) != 0);
    let attr = (r.gen_range(0..10) == 0).then(|| {
        let n = r.gen_range(1..300);
        let mut v = vec![0u8; n];
        r.fill_bytes(&mut v);
        v
    });
    // every preference list is empty / non-empty independently of the others (16 combinations)
    let mask = r.gen_range(0..16u8);
    let (sym, hash, comp, aead) = draw_prefs(r, mask);
    let locked = r.gen_range(0..5) < 2;
    let (lock_primary, lock_subs) = if locked {
        pick(r, &[((true, true), 14), ((true, false), 3), ((false, true), 3)])
    } else {
        (false, false)
    };
    let s2k = pick(r, &[(S2kKind::CfbIter, 5), (S2kKind::AeadArgon2, 3), (S2kKind::AeadIter, 2)]);
    let nsubs = pick(r, &[(0usize, 3), (1, 9), (2, 6), (3, 2)]);
    let subs: Vec<SubShape> = (0..nsubs).map(|_| random_sub(r, v6, lock_subs)).collect();
    let created = match r.gen_range(0..100) {
        0 => 1,
        1 => 0x7FFF_FFFF_u32.min(1_750_000_000),
        _ => r.gen_range(1_000_000_000..1_750_000_000),
    };
    Shape {
        v6,
        primary,
        sign: r.gen_range(0..5) != 0,
        certify: r.gen_range(0..10) != 0,
        auth: r.gen_range(0..5) == 0,
        enc: EncryptionCaps::None,
        feat1: r.gen_range(0..7) != 0,
        feat2: if v6 { r.gen_range(0..10) < 7 } else { r.gen_range(0..5) == 0 },
        uids,
        has_primary,
        attr,
        sym,
        hash,
        comp,
        aead,
        pass: locked.then(|| random_pass(r)),
        lock_primary,
        s2k,
        subs,
        created,
        uncertain: v6 && matches!(primary, Alg::K256 | Alg::Dsa),
    }
}

fn make_s2k(kind: S2kKind, r: &mut ChaCha8Rng) -> Option<S2kParams> {
    let sym = *[
        SymmetricKeyAlgorithm::AES128,
        SymmetricKeyAlgorithm::AES192,
        SymmetricKeyAlgorithm::AES256,
        SymmetricKeyAlgorithm::Camellia256,
        SymmetricKeyAlgorithm::Twofish,
    ]
    .choose(r)
    .unwrap();
    let iter = |r: &mut ChaCha8Rng| {
        let h = *[
            HashAlgorithm::Sha256,
            HashAlgorithm::Sha384,
            HashAlgorithm::Sha512,
            HashAlgorithm::Sha224,
        ]
        .choose(r)
        .unwrap();
        let count = r.gen_range(0..0x60u8);
        StringToKey::new_iterated(&mut *r, h, count)
    };
    match kind {
        S2kKind::Default => None,
        S2kKind::CfbIter => {
            let mut iv = vec![0u8; sym.block_size()];
            r.fill_bytes(&mut iv);
            let s2k = iter(r);
            Some(S2kParams::Cfb { sym_alg: sym, s2k, iv: iv.into() })
        }
        S2kKind::AeadIter | S2kKind::AeadArgon2 => {
            let sym = *[
                SymmetricKeyAlgorithm::AES128,
                SymmetricKeyAlgorithm::AES192,
                SymmetricKeyAlgorithm::AES256,
            ]
            .choose(r)
            .unwrap();
            let aead = *[AeadAlgorithm::Eax, AeadAlgorithm::Ocb, AeadAlgorithm::Gcm].choose(r).unwrap();
            let mut nonce = vec![0u8; aead.nonce_size()];
            r.fill_bytes(&mut nonce);
            let s2k = if kind == S2kKind::AeadIter {
                iter(r)
            } else {
                let p = r.gen_range(1..=2u8);
                let m = r.gen_range(5..=7u8);
                StringToKey::new_argon2(&mut *r, 1, p, m)
            };
            Some(S2kParams::Aead { sym_alg: sym, aead_mode: aead, s2k, nonce: nonce.into() })
        }
    }
}

fn build_params(s: &Shape, r: &mut ChaCha8Rng) -> Result<SecretKeyParams, String> {
    let ver = if s.v6 { KeyVersion::V6 } else { KeyVersion::V4 };
    let mut b = SecretKeyParamsBuilder::default();
    b.version(ver)
        .key_type(s.primary.key_type())
        .can_sign(s.sign)
        .can_certify(s.certify)
        .can_authenticate(s.auth)
        .can_encrypt(s.enc)
        .created_at(Timestamp::from_secs(s.created))
        .feature_seipd_v1(s.feat1)
        .feature_seipd_v2(s.feat2)
        .preferred_symmetric_algorithms(s.sym.iter().map(|x| SymmetricKeyAlgorithm::from(*x)).collect())
        .preferred_hash_algorithms(s.hash.iter().map(|x| HashAlgorithm::from(*x)).collect())
        .preferred_compression_algorithms(s.comp.iter().map(|x| CompressionAlgorithm::from(*x)).collect())
        .preferred_aead_algorithms(
            s.aead
                .iter()
                .map(|(a, b)| (SymmetricKeyAlgorithm::from(*a), AeadAlgorithm::from(*b)))
                .collect(),
        );
    for (i, u) in s.uids.iter().enumerate() {
        if i == 0 && s.has_primary {
            b.primary_user_id(u.clone());
        } else {
            b.user_id(u.clone());
        }
    }
    if let Some(img) = &s.attr {
        let a = UserAttribute::new_image(img.clone().into()).map_err(|e| format!("new_image: {e}"))?;
        b.user_attributes(vec![a]);
    }
    if let (Some(pw), true) = (&s.pass, s.lock_primary) {
        b.passphrase(Some(pw.clone()));
        b.s2k(make_s2k(s.s2k, r));
    }
    for sub in &s.subs {
        let mut sb = SubkeyParamsBuilder::default();
        sb.version(ver)
            .key_type(sub.alg.key_type())
            .can_sign(sub.sign)
            .can_encrypt(sub.enc)
            .can_authenticate(sub.auth)
            .created_at(Timestamp::from_secs(s.created.saturating_add(sub.created_off)));
        if let (Some(pw), true) = (&s.pass, sub.locked) {
            sb.passphrase(Some(pw.clone()));
            sb.s2k(make_s2k(s.s2k, r));
        }
        b.subkey(sb.build().map_err(|e| format!("subkey build: {e}"))?);
    }
    b.build().map_err(|e| format!("build: {e}"))
}

// ------------------------------------------------------------------------------------------
// reference side: certificate structure, independent verification, public-from-secret

struct RefKeyPkt {
    tag: u8,
    body: Vec<u8>,
    public: RefPub,
    /// body of the corresponding *public* key packet (prefix of a secret key body)
    pub_body: Vec<u8>,
}

struct RefComponent {
    /// 13 user id, 17 user attribute
    tag: u8,
    body: Vec<u8>,
    sigs: Vec<Vec<u8>>,
}

struct RefCert {
    primary: RefKeyPkt,
    direct: Vec<Vec<u8>>,
    comps: Vec<RefComponent>,
    subs: Vec<(RefKeyPkt, Vec<Vec<u8>>)>,
}

fn ref_key_pkt(tag: u8, body: &[u8]) -> Result<RefKeyPkt, String> {
    let (public, n) = RefPub::parse_prefix(body).ok_or_else(|| format!("reference cannot parse key packet tag {tag}"))?;
    if matches!(tag, 6 | 14) && n != body.len() {
        return Err(format!("public key packet tag {tag}: {} trailing octets", body.len() - n));
    }
    if public.encode() != body[..n] {
        return Err("reference re-encoding of the public key differs".into());
    }
    Ok(RefKeyPkt { tag, body: body.to_vec(), public, pub_body: body[..n].to_vec() })
}

fn ref_cert(bytes: &[u8]) -> Result<RefCert, String> {
    let pk = rfc::frame::deframe(bytes)?;
    rfc::frame::check_written(&pk)?;
    let mut it = pk.into_iter().peekable();
    let first = it.next().ok_or("empty export")?;
    if !matches!(first.tag, 5 | 6) {
        return Err(format!("first packet has tag {}", first.tag));
    }
    let mut cert = RefCert {
        primary: ref_key_pkt(first.tag, &first.body)?,
        direct: vec![],
        comps: vec![],
        subs: vec![],
    };
    // 0 = after primary, 1 = in components, 2 = in subkeys
    let mut phase = 0;
    for p in it {
        match p.tag {
            2 => match phase {
                0 => cert.direct.push(p.body),
                1 => cert.comps.last_mut().unwrap().sigs.push(p.body),
                _ => cert.subs.last_mut().unwrap().1.push(p.body),
            },
            13 | 17 => {
                if phase == 2 {
                    return Err("user id after subkey".into());
                }
                phase = 1;
                cert.comps.push(RefComponent { tag: p.tag, body: p.body, sigs: vec![] });
            }
            7 | 14 => {
                phase = 2;
                cert.subs.push((ref_key_pkt(p.tag, &p.body)?, vec![]));
            }
            t => return Err(format!("unexpected packet tag {t} in exported key")),
        }
    }
    Ok(cert)
}

fn pad_left(v: &[u8], n: usize) -> Option<Vec<u8>> {
    if v.len() > n {
        return None;
    }
    let mut o = vec![0u8; n - v.len()];
    o.extend_from_slice(v);
    Some(o)
}

/// (oid, point, offset after the point MPI) of ECC public material
fn ecc_parts(m: &[u8]) -> Option<(&[u8], &[u8], usize)> {
    let l = *m.first()? as usize;
    let oid = m.get(1..1 + l)?;
    let (pt, p) = rfc::read_mpi(m, 1 + l)?;
    Some((oid, pt, p))
}

fn fsize_of_oid(oid: &[u8]) -> Option<usize> {
    use rfc::key::*;
    Some(if oid == OID_P256 || oid == OID_K256 || oid == OID_ED25519 || oid == OID_CV25519 {
        32
    } else if oid == OID_P384 {
        48
    } else if oid == OID_P521 {
        66
    } else {
        return None;
    })
}

/// label used in the leading-zero tallies
fn alg_label(p: &RefPub) -> String {
    use rfc::key::*;
    let curve = |m: &[u8]| -> &'static str {
        match ecc_parts(m) {
            Some((o, _, _)) if o == OID_P256 => "p256",
            Some((o, _, _)) if o == OID_P384 => "p384",
            Some((o, _, _)) if o == OID_P521 => "p521",
            Some((o, _, _)) if o == OID_K256 => "k256",
            Some((o, _, _)) if o == OID_CV25519 => "cv25519",
            Some((o, _, _)) if o == OID_ED25519 => "ed25519",
            _ => "unknown",
        }
    };
    match p.alg {
        1 => "rsa".into(),
        17 => "dsa".into(),
        18 => format!("ecdh-{}", curve(&p.material)),
        19 => format!("ecdsa-{}", curve(&p.material)),
        22 => "eddsa-legacy".into(),
        25 => "x25519".into(),
        26 => "x448".into(),
        27 => "ed25519".into(),
        28 => "ed448".into(),
        a => format!("alg{a}"),
    }
}

/// Independent verification of a signature value over `digest`.
/// None = no independent primitive for this algorithm in the harness.
fn ref_verify(p: &RefPub, digest: &[u8], sig: &[u8]) -> Option<Result<(), String>> {
    use p256::ecdsa::signature::hazmat::PrehashVerifier;
    use rfc::key::*;
    let two_mpis = |sig: &[u8], n: usize| -> Result<Vec<u8>, String> {
        let (r, p1) = rfc::read_mpi(sig, 0).ok_or("signature: r truncated")?;
        let (s, p2) = rfc::read_mpi(sig, p1).ok_or("signature: s truncated")?;
        if p2 != sig.len() {
            return Err("signature: trailing octets".into());
        }
        let mut o = pad_left(r, n).ok_or("signature: r too long")?;
        o.extend(pad_left(s, n).ok_or("signature: s too long")?);
        Ok(o)
    };
    let ed = |key: &[u8], rs: &[u8]| -> Result<(), String> {
        let vk = ed25519_dalek::VerifyingKey::from_bytes(key.try_into().map_err(|_| "ed25519 key length")?)
            .map_err(|e| format!("ed25519 key: {e}"))?;
        let s = ed25519_dalek::Signature::from_slice(rs).map_err(|e| format!("ed25519 sig: {e}"))?;
        vk.verify_strict(digest, &s).map_err(|e| format!("ed25519 verify: {e}"))
    };
    Some(match p.alg {
        27 => {
            if p.material.len() != 32 || sig.len() != 64 {
                Err(format!("ed25519 sizes {} / {}", p.material.len(), sig.len()))
            } else {
                ed(&p.material, sig)
            }
        }
        22 => (|| {
            let (oid, pt, _) = ecc_parts(&p.material).ok_or("eddsa legacy material")?;
            if oid != OID_ED25519 || pt.len() != 33 || pt[0] != 0x40 {
                return Err("eddsa legacy: not a 0x40-prefixed Ed25519 point".to_string());
            }
            ed(&pt[1..], &two_mpis(sig, 32)?)
        })(),
        28 => (|| {
            let k: [u8; 57] = p.material[..].try_into().map_err(|_| "ed448 key length".to_string())?;
            let s: [u8; 114] = sig.try_into().map_err(|_| "ed448 signature length".to_string())?;
            let vk = cx448::VerifyingKey::from_bytes(&k).map_err(|e| format!("ed448 key: {e}"))?;
            let s = cx448::Signature::from_bytes(&s).map_err(|e| format!("ed448 sig: {e}"))?;
            vk.verify_raw(&s, digest).map_err(|e| format!("ed448 verify: {e}"))
        })(),
        19 => {
            let (oid, pt, _) = match ecc_parts(&p.material) {
                Some(x) => x,
                None => return Some(Err("ecdsa material".into())),
            };
            macro_rules! nist {
                ($c:ident, $n:expr) => {
                    (|| {
                        let vk = $c::ecdsa::VerifyingKey::from_sec1_bytes(pt).map_err(|e| format!("ecdsa point: {e}"))?;
                        let rs = two_mpis(sig, $n)?;
                        let s = $c::ecdsa::Signature::from_slice(&rs).map_err(|e| format!("ecdsa sig: {e}"))?;
                        vk.verify_prehash(digest, &s).map_err(|e| format!("ecdsa verify: {e}"))
                    })()
                };
            }
            if oid == OID_P256 {
                nist!(p256, 32)
            } else if oid == OID_P384 {
                nist!(p384, 48)
            } else if oid == OID_P521 {
                nist!(p521, 66)
            } else {
                return None;
            }
        }
        _ => return None,
    })
}

/// Does the public material belong to the secret material (raw, without checksum)?
/// None = no independent primitive.
fn ref_pub_from_secret(p: &RefPub, sec: &[u8]) -> Option<Result<(), String>> {
    use p256::elliptic_curve::sec1::ToEncodedPoint;
    use rfc::key::*;
    let cmp = |got: &[u8], want: &[u8]| -> Result<(), String> {
        if got == want {
            Ok(())
        } else {
            Err(format!("public computed from the secret {} != public in the packet {}", hex::encode(got), hex::encode(want)))
        }
    };
    let one_mpi = |sec: &[u8]| -> Result<Vec<u8>, String> {
        let (v, n) = rfc::read_mpi(sec, 0).ok_or("secret MPI truncated")?;
        if n != sec.len() {
            return Err(format!("secret material: {} trailing octets", sec.len() - n));
        }
        Ok(v.to_vec())
    };
    Some(match p.alg {
        27 => (|| {
            let k: [u8; 32] = sec.try_into().map_err(|_| format!("ed25519 secret length {}", sec.len()))?;
            cmp(ed25519_dalek::SigningKey::from_bytes(&k).verifying_key().as_bytes(), &p.material)
        })(),
        22 => (|| {
            let (_, pt, _) = ecc_parts(&p.material).ok_or("material")?;
            let k: [u8; 32] = pad_left(&one_mpi(sec)?, 32).ok_or("secret too long")?.try_into().unwrap();
            cmp(ed25519_dalek::SigningKey::from_bytes(&k).verifying_key().as_bytes(), pt.get(1..).unwrap_or(&[]))
        })(),
        25 => (|| {
            let k: [u8; 32] = sec.try_into().map_err(|_| format!("x25519 secret length {}", sec.len()))?;
            let s = x25519_dalek::StaticSecret::from(k);
            cmp(x25519_dalek::PublicKey::from(&s).as_bytes(), &p.material)
        })(),
        26 => (|| {
            let k: [u8; 56] = sec.try_into().map_err(|_| format!("x448 secret length {}", sec.len()))?;
            let s = cx448::x448::Secret::from(k);
            cmp(cx448::x448::PublicKey::from(&s).as_bytes(), &p.material)
        })(),
        28 => (|| {
            if sec.len() != 57 {
                return Err(format!("ed448 secret length {}", sec.len()));
            }
            let sk = cx448::SigningKey::from(cx448::SecretKey::from_slice(sec));
            cmp(&sk.verifying_key().to_bytes()[..], &p.material)
        })(),
        18 | 19 => {
            let (oid, pt, _) = match ecc_parts(&p.material) {
                Some(x) => x,
                None => return Some(Err("ecc material".into())),
            };
            let d = match one_mpi(sec) {
                Ok(d) => d,
                Err(e) => return Some(Err(e)),
            };
            macro_rules! nist {
                ($c:ident, $n:expr) => {
                    (|| {
                        let sk = $c::SecretKey::from_slice(&pad_left(&d, $n).ok_or("secret too long")?)
                            .map_err(|e| format!("secret scalar: {e}"))?;
                        cmp(sk.public_key().to_encoded_point(false).as_bytes(), pt)
                    })()
                };
            }
            if oid == OID_P256 {
                nist!(p256, 32)
            } else if oid == OID_P384 {
                nist!(p384, 48)
            } else if oid == OID_P521 {
                nist!(p521, 66)
            } else if oid == OID_CV25519 {
                (|| {
                    let mut k: [u8; 32] = pad_left(&d, 32).ok_or("secret too long")?.try_into().unwrap();
                    k.reverse();
                    let s = x25519_dalek::StaticSecret::from(k);
                    cmp(x25519_dalek::PublicKey::from(&s).as_bytes(), pt.get(1..).unwrap_or(&[]))
                })()
            } else {
                return None;
            }
        }
        _ => return None,
    })
}

// ------------------------------------------------------------------------------------------
// reporting helper

struct K<'a> {
    ctx: &'a mut Ctx,
    replay: Value,
    desc: String,
}

impl K<'_> {
    fn v(&mut self, sig: impl Into<String>, detail: impl AsRef<str>) {
        let d = format!("{}; shape: {}", detail.as_ref(), self.desc);
        self.ctx.violation(sig, d, self.replay.clone());
    }
    /// one sample of a stripped-leading-zero capable field: `len` octets on the wire, `full` = field size
    fn lz(&mut self, field: &str, len: usize, full: usize) {
        self.ctx.tally(&format!("n.{field}"), 1);
        if len < full {
            self.ctx.tally(&format!("lz.{field}"), 1);
            self.ctx.seen("lz", field);
        }
    }
    /// a fixed-width field whose first octet is zero (no length effect, tallied for the record)
    fn z0(&mut self, field: &str, first: Option<&u8>) {
        if first == Some(&0) {
            self.ctx.tally(&format!("z0.{field}"), 1);
        }
    }
}

fn now_secs() -> u32 {
    std::time::SystemTime::now()
        .duration_since(std::time::UNIX_EPOCH)
        .map(|d| d.as_secs() as u32)
        .unwrap_or(0)
}

/// what the self-signature carrying the key metadata must say
struct Meta {
    flags: u8,
    features: u8,
    sym: Vec<u8>,
    hash: Vec<u8>,
    comp: Vec<u8>,
    aead: Vec<u8>,
}

fn meta_of(s: &Shape) -> Meta {
    Meta {
        flags: s.primary_flags(),
        features: s.features(),
        sym: s.sym.clone(),
        hash: s.hash.clone(),
        comp: s.comp.clone(),
        aead: s.aead.iter().flat_map(|(a, b)| [*a, *b]).collect(),
    }
}

fn find_sp(subs: &[RefSubpacket], typ: u8) -> Option<&RefSubpacket> {
    subs.iter().find(|s| s.typ == typ)
}

/// first octet must be `want`, all further octets zero; an absent subpacket equals all-zero flags
fn flags_ok(sp: Option<&RefSubpacket>, want: u8) -> bool {
    match sp {
        None => want == 0,
        Some(sp) => {
            sp.body.first().copied().unwrap_or(0) == want && sp.body.iter().skip(1).all(|b| *b == 0)
        }
    }
}

fn list_ok(sp: Option<&RefSubpacket>, want: &[u8]) -> bool {
    match sp {
        None => want.is_empty(),
        Some(sp) => sp.body == want,
    }
}

/// reference check of the metadata subpackets; `exact` = this is the signature that must carry
/// them (otherwise only: what is present must not contradict the request)
fn check_meta_ref(k: &mut K, what: &str, hashed: &[RefSubpacket], m: &Meta, exact: bool) {
    let show = |t: u8| match find_sp(hashed, t) {
        None => "absent".to_string(),
        Some(s) if s.body.is_empty() => "present and empty".to_string(),
        Some(s) => hex::encode(&s.body),
    };
    let checks: [(u8, &str, bool, String); 6] = [
        (27, "key-flags", flags_ok(find_sp(hashed, 27), m.flags), format!("{:02x}", m.flags)),
        (30, "features", flags_ok(find_sp(hashed, 30), m.features), format!("{:02x}", m.features)),
        (11, "pref-sym", list_ok(find_sp(hashed, 11), &m.sym), hex::encode(&m.sym)),
        (21, "pref-hash", list_ok(find_sp(hashed, 21), &m.hash), hex::encode(&m.hash)),
        (22, "pref-compression", list_ok(find_sp(hashed, 22), &m.comp), hex::encode(&m.comp)),
        (39, "pref-aead", list_ok(find_sp(hashed, 39), &m.aead), hex::encode(&m.aead)),
    ];
    for (t, name, ok, want) in checks {
        if !exact && find_sp(hashed, t).is_none() {
            continue;
        }
        if !ok {
            k.v(
                format!("C07/meta-ref/{name}"),
                format!("{what}: subpacket {t} is {} but {} was requested", show(t), if want.is_empty() { "an empty list" } else { want.as_str() }),
            );
        }
    }
}

struct SigInfo {
    hashed: Vec<RefSubpacket>,
}

/// Reference checks of one self-signature: type, version, algorithm, digest prefix, independent
/// verification, creation time, issuer. Returns the parsed hashed area.
#[allow(clippy::too_many_arguments)]
fn check_selfsig(
    k: &mut K,
    what: &str,
    body: &[u8],
    typ_ok: &[u8],
    content: &[&[u8]],
    signer: &RefPub,
    window: (u32, u32),
) -> Option<SigInfo> {
    let rs: RefSig = match parse_sig(body) {
        Ok(r) => r,
        Err(e) => {
            k.ctx.inconclusive(format!("reference cannot parse signature: {e}"));
            return None;
        }
    };
    k.ctx.eval();
    if !typ_ok.contains(&rs.typ) {
        k.v("C07/selfsig/type", format!("{what}: signature type {:#04x}, expected one of {typ_ok:02x?}", rs.typ));
        return None;
    }
    let want_ver = if signer.version == 6 { 6 } else { 4 };
    if rs.version != want_ver {
        k.v("C07/selfsig/version", format!("{what}: v{} signature by a v{} key", rs.version, signer.version));
    }
    if rs.pub_alg != signer.alg {
        k.v("C07/selfsig/algorithm", format!("{what}: signature algorithm {} but signer key algorithm {}", rs.pub_alg, signer.alg));
    }
    if rs.version == 6 && rfc::salt_len(rs.hash_alg) != Some(rs.salt.len()) {
        k.v("C07/selfsig/salt-size", format!("{what}: salt of {} octets for hash {}", rs.salt.len(), rs.hash_alg));
    }
    let label = alg_label(signer);
    let Some(digest) = rs.digest_over(content) else {
        k.ctx.inconclusive(format!("reference has no hash {}", rs.hash_alg));
        return None;
    };
    if digest[..2] != rs.left16 {
        k.v(
            format!("C07/selfsig/left16/{label}"),
            format!("{what}: left16 {} but the RFC digest starts {}", hex::encode(rs.left16), hex::encode(&digest[..2])),
        );
    } else {
        match ref_verify(signer, &digest, &rs.sig_data) {
            None => k.ctx.tally("ref_verify.no-primitive", 1),
            Some(Ok(())) => k.ctx.tally("ref_verify.ok", 1),
            Some(Err(e)) => k.v(
                format!("C07/selfsig/independent-verify/{label}"),
                format!("{what}: signature value does not verify with the primitive crate: {e}"),
            ),
        }
    }
    // leading-zero observation on the signature MPIs
    let fs = match signer.alg {
        19 | 22 => ecc_parts(&signer.material).and_then(|(o, _, _)| fsize_of_oid(o)),
        17 => Some(32),
        _ => None,
    };
    if let Some(fs) = fs {
        if let Some((r, p)) = rfc::read_mpi(&rs.sig_data, 0) {
            k.lz(&format!("{label}.sig_r"), r.len(), fs);
            if let Some((s_, _)) = rfc::read_mpi(&rs.sig_data, p) {
                k.lz(&format!("{label}.sig_s"), s_.len(), fs);
            }
        }
    } else if signer.alg == 1 {
        if let Some((m, _)) = rfc::read_mpi(&rs.sig_data, 0) {
            k.lz("rsa.sig", m.len(), 256);
        }
    }
    let hashed = match parse_subpackets(&rs.hashed) {
        Ok(h) => h,
        Err(e) => {
            k.v("C07/selfsig/hashed-area", format!("{what}: {e}"));
            return None;
        }
    };
    let mut seen_types = std::collections::BTreeSet::new();
    for sp in &hashed {
        if !seen_types.insert(sp.typ) {
            k.v("C07/selfsig/duplicate-subpacket", format!("{what}: subpacket type {} twice in the hashed area", sp.typ));
        }
    }
    match find_sp(&hashed, 2) {
        Some(sp) if sp.body.len() == 4 => {
            let t = u32::from_be_bytes(sp.body[..].try_into().unwrap());
            if t + 2 < window.0 || t > window.1 + 2 {
                k.v("C07/selfsig/creation-time", format!("{what}: signature creation time {t} outside the generation window {window:?}"));
            }
        }
        _ => k.v("C07/selfsig/creation-time", format!("{what}: no 4-octet signature creation time subpacket in the hashed area")),
    }
    let mut want_fp = vec![signer.version];
    want_fp.extend(signer.fingerprint());
    match find_sp(&hashed, 33) {
        Some(sp) if sp.body == want_fp => {}
        other => k.v(
            "C07/selfsig/issuer-fingerprint",
            format!("{what}: issuer fingerprint subpacket {:?}, expected {}", other.map(|s| hex::encode(&s.body)), hex::encode(&want_fp)),
        ),
    }
    if let Ok(un) = parse_subpackets(&rs.unhashed) {
        if let Some(sp) = find_sp(&un, 16) {
            if sp.body != signer.key_id() {
                k.v("C07/selfsig/issuer-key-id", format!("{what}: issuer key id {} is not the signer's", hex::encode(&sp.body)));
            }
            if signer.version == 6 {
                k.v("C07/selfsig/issuer-key-id", format!("{what}: issuer key id subpacket on a v6 signature"));
            }
        }
    }
    Some(SigInfo { hashed })
}

/// Tallies of key material fields with a stripped / zero leading octet; `sec` = raw secret
/// material (no checksum) if available.
fn lz_key(k: &mut K, p: &RefPub, sec: Option<&[u8]>) {
    let label = alg_label(p);
    match p.alg {
        18 | 19 | 22 => {
            let Some((oid, pt, _)) = ecc_parts(&p.material) else { return };
            let Some(fs) = fsize_of_oid(oid) else { return };
            if pt.first() == Some(&4) && pt.len() == 1 + 2 * fs {
                k.z0(&format!("{label}.pub_x"), pt.get(1));
                k.z0(&format!("{label}.pub_y"), pt.get(1 + fs));
                k.ctx.tally(&format!("n.{label}.pub"), 1);
            } else if pt.first() == Some(&0x40) {
                k.z0(&format!("{label}.pub"), pt.get(1));
                k.ctx.tally(&format!("n.{label}.pub"), 1);
            }
            if let Some(sec) = sec {
                if let Some((d, _)) = rfc::read_mpi(sec, 0) {
                    k.lz(&format!("{label}.secret"), d.len(), fs);
                }
            }
        }
        17 => {
            // p, q, g, y
            let mut pos = 0;
            let mut lens = vec![];
            for _ in 0..4 {
                if let Some((v, n)) = rfc::read_mpi(&p.material, pos) {
                    lens.push(v.len());
                    pos = n;
                }
            }
            if lens.len() == 4 {
                k.lz("dsa.pub_y", lens[3], lens[0]);
                if let Some(sec) = sec {
                    if let Some((x, _)) = rfc::read_mpi(sec, 0) {
                        k.lz("dsa.secret_x", x.len(), lens[1]);
                    }
                }
            }
        }
        1 => {
            if let Some(sec) = sec {
                // d, p, q, u
                let mut pos = 0;
                for (name, full) in [("d", 256usize), ("p", 128), ("q", 128), ("u", 128)] {
                    if let Some((v, n)) = rfc::read_mpi(sec, pos) {
                        k.lz(&format!("rsa.secret_{name}"), v.len(), full);
                        pos = n;
                    }
                }
            }
        }
        _ => {}
    }
}

// ------------------------------------------------------------------------------------------
// export / import equality

/// true if the two packets differ only in their in-memory packet header
fn header_only<T: PacketTrait + PartialEq>(a: &T, b: &T, same_rest: bool) -> bool {
    a != b && same_rest && a.packet_header() != b.packet_header()
}

/// Compares the original with the re-imported key; returns false if they differ.
fn compare_secret(k: &mut K, how: &str, orig: &SignedSecretKey, re: &SignedSecretKey, bytes: &[u8], stale_reported: &mut bool) -> bool {
    if orig == re {
        return true;
    }
    let mut parts: Vec<String> = vec![];
    let mut other = false;
    if orig.primary_key != re.primary_key {
        let (a, b) = (&orig.primary_key, &re.primary_key);
        if header_only(a, b, a.public_key() == b.public_key() && a.secret_params() == b.secret_params()) {
            parts.push(format!(
                "primary key packet header in memory {:?} vs re-imported {:?} (body length written {})",
                a.packet_header().packet_length(),
                b.packet_header().packet_length(),
                a.write_len()
            ));
        } else {
            other = true;
            parts.push("primary key packet".into());
        }
    }
    if orig.details != re.details {
        other = true;
        parts.push("details (signatures / user ids)".into());
    }
    if orig.public_subkeys != re.public_subkeys {
        other = true;
        parts.push("public subkeys".into());
    }
    if orig.secret_subkeys.len() != re.secret_subkeys.len() {
        other = true;
        parts.push(format!("{} vs {} secret subkeys", orig.secret_subkeys.len(), re.secret_subkeys.len()));
    } else {
        for (i, (a, b)) in orig.secret_subkeys.iter().zip(&re.secret_subkeys).enumerate() {
            if a.signatures != b.signatures {
                other = true;
                parts.push(format!("subkey {i} signatures"));
            }
            if a.key != b.key {
                if header_only(&a.key, &b.key, a.key.public_key() == b.key.public_key() && a.key.secret_params() == b.key.secret_params()) {
                    parts.push(format!(
                        "subkey {i} packet header in memory {:?} vs re-imported {:?} (body length written {})",
                        a.key.packet_header().packet_length(),
                        b.key.packet_header().packet_length(),
                        a.key.write_len()
                    ));
                } else {
                    other = true;
                    parts.push(format!("subkey {i} key packet"));
                }
            }
        }
    }
    let re_bytes = re.to_bytes().unwrap_or_default();
    let same_bytes = re_bytes == bytes;
    let stable = SignedSecretKey::from_bytes(&re_bytes[..]).map(|k3| &k3 == re).unwrap_or(false);
    if !other && same_bytes && stable {
        // Every field except the cached packet header is equal, both values export to the same
        // octets and the re-imported value is a fixed point: the generated value carries a packet
        // header whose length is not the length of the packet it describes.
        if !*stale_reported {
            *stale_reported = true;
            k.v(
                "C07/roundtrip/secret-not-equal/stale-packet-header-of-locked-key",
                format!("generated key != key re-imported from its own {how} export: {}", parts.join("; ")),
            );
        }
    } else {
        k.v(
            format!("C07/roundtrip/{how}/secret-not-equal"),
            format!(
                "generated key != key re-imported from its own {how} export: differing parts: {}; re-export identical: {same_bytes}; second round trip stable: {stable}",
                parts.join("; ")
            ),
        );
    }
    false
}

// ------------------------------------------------------------------------------------------
// one generated key

fn check_key(ctx: &mut Ctx, fam: &str, idx: u64, s: &Shape) {
    let desc = s.desc();
    let mut k = K {
        replay: json!({"family": fam, "index": idx, "seed": ctx.seed, "shape": desc}),
        ctx,
        desc,
    };
    let k = &mut k;
    let mut prng = k.ctx.rng(&format!("{fam}.params"), idx);
    let params = match build_params(s, &mut prng) {
        Ok(p) => p,
        Err(e) => {
            if s.uncertain {
                k.ctx.seen("uncertain-shape", format!("{} {}: refused at build ({e})", if s.v6 { "v6" } else { "v4" }, s.primary.name()));
            } else {
                k.v("C07/generate/legal-shape-refused/build", format!("builder refused a legal shape: {e}"));
            }
            return;
        }
    };
    let mut rng = k.ctx.rng(&format!("{fam}.key"), idx);
    let t0 = now_secs();
    let key = match params.generate(&mut rng) {
        Ok(key) => key,
        Err(e) => {
            k.ctx.eval();
            if s.uncertain {
                k.ctx.seen("uncertain-shape", format!("{} {}: refused at generate ({e})", if s.v6 { "v6" } else { "v4" }, s.primary.name()));
            } else {
                k.v("C07/generate/legal-shape-refused/generate", format!("generate() failed for a legal shape: {e}"));
            }
            return;
        }
    };
    let t1 = now_secs();
    k.ctx.eval();
    if s.uncertain {
        k.ctx.seen("uncertain-shape", format!("{} {}: accepted", if s.v6 { "v6" } else { "v4" }, s.primary.name()));
    }
    let ver = if s.v6 { "v6" } else { "v4" };
    k.ctx.seen("primary", format!("{ver}-{}", s.primary.name()));
    k.ctx.tally(&format!("keys.{ver}-{}", s.primary.name()), 1);
    for sub in &s.subs {
        k.ctx.seen("subkey", format!("{ver}-{}{}", sub.alg.name(), if sub.sign { "-sign" } else if sub.enc != EncryptionCaps::None { "-enc" } else { "-auth" }));
        k.ctx.tally(&format!("subkeys.{}", sub.alg.name()), 1);
    }
    let has_enc = s.enc != EncryptionCaps::None || s.subs.iter().any(|x| x.enc != EncryptionCaps::None);
    let has_sig = s.subs.iter().any(|x| x.sign);
    k.ctx.seen(
        "subkey-set",
        match (s.subs.is_empty(), has_enc, has_sig) {
            (true, _, _) => "none",
            (_, true, true) => "encryption+signing",
            (_, true, false) => "encryption",
            (_, false, true) => "signing",
            _ => "authentication",
        },
    );
    k.ctx.seen(
        "lock",
        match &s.pass {
            None => "unlocked".to_string(),
            Some(_) => format!("{ver}-{}", s.s2k.name()),
        },
    );
    k.ctx.seen("uids", format!("{ver}-{}", s.uids.len()));
    if s.attr.is_some() {
        k.ctx.seen("uids", "user-attribute");
    }
    k.ctx.seen("prefs", if s.sym.is_empty() && s.hash.is_empty() && s.comp.is_empty() && s.aead.is_empty() { "empty" } else { "some" });
    k.ctx.seen("prefs-mask", format!("{ver}-{}", prefs_mask_name(s)));
    k.ctx.seen(
        "features",
        format!(
            "{ver}-{}",
            match (s.feat1, s.feat2) {
                (false, false) => "none",
                (true, false) => "seipd1",
                (false, true) => "seipd2",
                (true, true) => "seipd1+seipd2",
            }
        ),
    );
    k.ctx.seen("primary-flags", format!("{ver}-{:02x}", s.primary_flags()));

    // (a) bindings
    let plabel = s.primary.name();
    if let Err(e) = key.verify_bindings() {
        k.v(format!("C07/verify-bindings/secret/{plabel}"), format!("SignedSecretKey::verify_bindings: {e}"));
    }
    k.ctx.eval();
    let pk = key.to_public_key();
    if let Err(e) = pk.verify_bindings() {
        k.v(format!("C07/verify-bindings/public/{plabel}"), format!("SignedPublicKey::verify_bindings: {e}"));
    }
    k.ctx.eval();
    if SignedPublicKey::from(key.clone()) != pk {
        k.v("C07/public-half/from-vs-to_public_key", "SignedPublicKey::from(key) != key.to_public_key()");
    }

    // (b) export + import
    let bytes = match key.to_bytes() {
        Ok(b) => b,
        Err(e) => {
            k.v("C07/export/binary-error", format!("to_bytes: {e}"));
            return;
        }
    };
    k.replay["key"] = json!(hexs(&bytes));
    k.ctx.cover(&(key.fingerprint().as_bytes().to_vec(), s.subs.len(), s.pass.is_some()));
    let mut stale = false;
    let reimported: Option<SignedSecretKey> = match SignedSecretKey::from_bytes(&bytes[..]) {
        Ok(k2) => {
            compare_secret(k, "binary", &key, &k2, &bytes, &mut stale);
            Some(k2)
        }
        Err(e) => {
            k.v("C07/roundtrip/binary/import-error", format!("from_bytes of the own export: {e}"));
            None
        }
    };
    k.ctx.eval();
    match key.to_armored_string(ArmorOptions::default()) {
        Err(e) => k.v("C07/export/armor-error", format!("to_armored_string: {e}")),
        Ok(arm) => {
            match SignedSecretKey::from_string(&arm) {
                Ok((k3, _)) => {
                    compare_secret(k, "armored", &key, &k3, &bytes, &mut stale);
                    if let Some(k2) = &reimported {
                        if &k3 != k2 {
                            k.v("C07/roundtrip/armored-vs-binary", "key parsed from the armored export != key parsed from the binary export");
                        }
                    }
                }
                Err(e) => k.v("C07/roundtrip/armored/import-error", format!("from_string of the own export: {e}")),
            }
            if let Ok(pa) = rfc::armor::armor_parse_strict(arm.trim_end_matches('\n')) {
                if pa.data != bytes || pa.typ != "PGP PRIVATE KEY BLOCK" {
                    k.v("C07/export/armor-payload", format!("armored export ({}) does not carry the binary export", pa.typ));
                }
            }
        }
    }
    k.ctx.eval();
    let pbytes = match pk.to_bytes() {
        Ok(b) => b,
        Err(e) => {
            k.v("C07/export/public-binary-error", format!("to_bytes: {e}"));
            return;
        }
    };
    let pk2 = match SignedPublicKey::from_bytes(&pbytes[..]) {
        Ok(p2) => {
            if p2 != pk {
                let re = p2.to_bytes().unwrap_or_default();
                k.v("C07/roundtrip/binary/public-not-equal", format!("public key != re-imported public key; re-export identical: {}", re == pbytes));
            }
            Some(p2)
        }
        Err(e) => {
            k.v("C07/roundtrip/binary/public-import-error", format!("{e}"));
            None
        }
    };
    match pk.to_armored_string(ArmorOptions::default()) {
        Err(e) => k.v("C07/export/public-armor-error", format!("{e}")),
        Ok(arm) => match SignedPublicKey::from_string(&arm) {
            Ok((p3, _)) => {
                if p3 != pk {
                    k.v("C07/roundtrip/armored/public-not-equal", "public key != public key re-imported from the armored export");
                }
                if let Err(e) = p3.verify_bindings() {
                    k.v(format!("C07/verify-bindings/public-reimported/{plabel}"), format!("{e}"));
                }
            }
            Err(e) => k.v("C07/roundtrip/armored/public-import-error", format!("{e}")),
        },
    }
    k.ctx.eval();
    if let Some(k2) = &reimported {
        if let Err(e) = k2.verify_bindings() {
            k.v(format!("C07/verify-bindings/secret-reimported/{plabel}"), format!("{e}"));
        }
    }

    check_reference(k, s, &bytes, &pbytes, (t0, t1));
    check_accessors(k, s, &key);
    // usability with the re-imported values where available: stripped MPIs must be re-padded
    let use_sec = reimported.as_ref().unwrap_or(&key);
    let use_pub = pk2.as_ref().unwrap_or(&pk);
    check_usability(k, s, idx, fam, &key, use_sec, use_pub);
}

// ------------------------------------------------------------------------------------------
// (c)/(d) through the reference parser of the exported bytes

fn check_key_packet(k: &mut K, what: &str, kp: &RefKeyPkt, want_tag: u8, v6: bool, alg: Alg, created: u32, locked: bool, s: &Shape) {
    if kp.tag != want_tag {
        k.v("C07/export/packet-tag", format!("{what}: packet tag {} instead of {want_tag}", kp.tag));
    }
    let p = &kp.public;
    if p.version != if v6 { 6 } else { 4 } {
        k.v("C07/requested/key-version", format!("{what}: key version {} on the wire", p.version));
    }
    if p.alg != alg.id() {
        k.v("C07/requested/algorithm", format!("{what}: algorithm id {} on the wire, requested {}", p.alg, alg.name()));
        return;
    }
    if p.created != created {
        k.v("C07/requested/creation-time", format!("{what}: key creation time {} on the wire, requested {created}", p.created));
    }
    if let Some(oid) = alg.oid() {
        match ecc_parts(&p.material) {
            Some((o, _, _)) if o == oid => {}
            other => k.v("C07/requested/curve", format!("{what}: curve oid {:?}, requested {}", other.map(|x| hex::encode(x.0)), alg.name())),
        }
    }
    if alg == Alg::Rsa {
        match rfc::read_mpi(&p.material, 0) {
            Some((n, _)) if n.len() == 256 && n[0] & 0x80 != 0 => {}
            other => k.v("C07/requested/rsa-size", format!("{what}: modulus of {:?} octets for RSA 2048", other.map(|x| x.0.len()))),
        }
    }
    if p.alg == 18 {
        if let Some(e) = rfc::key::parse_ecdh_material(&p.material) {
            let want = match alg {
                Alg::EcdhP384 => (9, 8),
                Alg::EcdhP521 => (10, 9),
                _ => (8, 7),
            };
            if (e.kdf_hash, e.kek_alg) != want {
                if v6 {
                    // RFC 9580 11.5.1: v6 ECDH keys MUST use the listed KDF/KEK parameters
                    k.v("C07/requested/ecdh-kdf-params", format!("{what}: KDF hash {} / KEK {} for {}", e.kdf_hash, e.kek_alg, alg.name()));
                } else {
                    k.ctx.tally("ecdh.v4.nonstandard-kdf-params", 1);
                }
            }
        } else {
            k.v("C07/requested/ecdh-kdf-params", format!("{what}: ECDH public material not parsable"));
        }
    }
    // secret part
    let Some(sec) = RefSecret::parse(&kp.body) else {
        k.ctx.inconclusive("reference cannot parse secret key packet");
        return;
    };
    let usage = sec.protection.usage();
    if !locked {
        if usage != 0 {
            k.v("C07/lock/unrequested-protection", format!("{what}: S2K usage {usage} although no passphrase was requested"));
            return;
        }
    } else {
        let want: &[u8] = match s.s2k {
            S2kKind::CfbIter => &[254],
            S2kKind::AeadIter | S2kKind::AeadArgon2 => &[253],
            S2kKind::Default => {
                if v6 {
                    &[253]
                } else {
                    &[254]
                }
            }
        };
        if !want.contains(&usage) {
            k.v("C07/lock/s2k-usage", format!("{what}: S2K usage {usage}, requested {}", s.s2k.name()));
        }
    }
    let pw = if locked { s.pass.clone().unwrap_or_default() } else { String::new() };
    // the library default for v6 is Argon2 with 64 MiB: the reference can do it, it is just slow
    match sec.unlock(kp.tag, pw.as_bytes()) {
        None => {
            k.ctx.tally("ref_unlock.unsupported", 1);
            lz_key(k, p, None);
        }
        Some(Err(())) => {
            k.v("C07/lock/reference-cannot-unlock", format!("{what}: the exported secret material (usage {usage}) does not unlock with the requested passphrase in the reference implementation"));
            lz_key(k, p, None);
        }
        Some(Ok(m)) => {
            k.ctx.eval();
            match ref_pub_from_secret(p, &m) {
                None => k.ctx.tally("ref_pub_from_secret.no-primitive", 1),
                Some(Ok(())) => k.ctx.tally("ref_pub_from_secret.ok", 1),
                Some(Err(e)) => k.v(format!("C07/self-consistency/public-vs-secret/{}", alg_label(p)), format!("{what}: {e}")),
            }
            lz_key(k, p, Some(&m));
        }
    }
}

fn check_reference(k: &mut K, s: &Shape, bytes: &[u8], pbytes: &[u8], window: (u32, u32)) {
    let cert = match ref_cert(bytes) {
        Ok(c) => c,
        Err(e) => {
            k.ctx.inconclusive(format!("reference cannot parse the exported key: {e}"));
            return;
        }
    };
    // public export = same certificate with the secret parts dropped
    match ref_cert(pbytes) {
        Err(e) => k.ctx.inconclusive(format!("reference cannot parse the exported public key: {e}")),
        Ok(pc) => {
            let same = pc.primary.tag == 6
                && pc.primary.body == cert.primary.pub_body
                && pc.direct == cert.direct
                && pc.comps.len() == cert.comps.len()
                && pc.comps.iter().zip(&cert.comps).all(|(a, b)| a.tag == b.tag && a.body == b.body && a.sigs == b.sigs)
                && pc.subs.len() == cert.subs.len()
                && pc.subs.iter().zip(&cert.subs).all(|(a, b)| a.0.tag == 14 && a.0.body == b.0.pub_body && a.1 == b.1);
            if !same {
                k.v("C07/public-half/differs-from-secret", "exported public key is not the exported secret key with the secret material dropped");
            }
        }
    }
    let locked_p = s.pass.is_some() && s.lock_primary;
    check_key_packet(k, "primary", &cert.primary, 5, s.v6, s.primary, s.created, locked_p, s);

    let meta = meta_of(s);
    let kf = rfc::sig::key_hash_framing(&cert.primary.pub_body);
    let signer = &cert.primary.public;

    // direct key signatures
    // v6: the key metadata lives on a direct key signature, so there must be one (RFC 9580 10.1.1);
    // a v4 key needs none (the library makes none), but whatever is there must be valid
    if s.v6 && cert.direct.is_empty() {
        k.v("C07/structure/direct-key-signatures", "v6 key without direct key signature");
    }
    for (i, d) in cert.direct.iter().enumerate() {
        if let Some(si) = check_selfsig(k, "direct key signature", d, &[0x1F], &[&kf], signer, window) {
            check_meta_ref(k, "direct key signature", &si.hashed, &meta, s.v6 && i == 0);
        }
    }
    // user ids and attributes
    let want_comps = s.uids.len() + s.attr.is_some() as usize;
    if cert.comps.len() != want_comps {
        k.v("C07/structure/user-ids", format!("{} user id/attribute packets, requested {want_comps}", cert.comps.len()));
    }
    for (i, c) in cert.comps.iter().enumerate() {
        let what = format!("component {i} (tag {})", c.tag);
        let is_attr = c.tag == 17;
        if i < s.uids.len() {
            if is_attr || c.body != s.uids[i].as_bytes() {
                k.v("C07/requested/user-id", format!("{what}: body {:?}, requested {:?}", String::from_utf8_lossy(&c.body), s.uids[i]));
            }
        } else if !is_attr {
            k.v("C07/requested/user-id", format!("{what}: unrequested user id"));
        } else if let Some(img) = &s.attr {
            if !c.body.ends_with(img) {
                k.v("C07/requested/user-attribute", format!("{what}: image data not carried"));
            }
        }
        if c.sigs.is_empty() {
            k.v("C07/structure/certifications", format!("{what}: no self-certification"));
        }
        let framing = rfc::sig::uid_hash_framing(4, is_attr, &c.body);
        for sg in &c.sigs {
            let Some(si) = check_selfsig(k, &what, sg, &[0x10, 0x11, 0x12, 0x13], &[&kf, &framing], signer, window) else { continue };
            let is_primary_uid = i == 0 && s.has_primary && !is_attr;
            let flagged = matches!(find_sp(&si.hashed, 25), Some(sp) if sp.body.first().is_some_and(|b| *b != 0));
            if flagged != is_primary_uid {
                k.v("C07/requested/primary-user-id", format!("{what}: primary-user-id flag is {flagged}, requested {is_primary_uid}"));
            }
            if !s.v6 {
                // v4: the primary user id certification carries the key metadata
                check_meta_ref(k, &what, &si.hashed, &meta, is_primary_uid);
            } else {
                check_meta_ref(k, &what, &si.hashed, &meta, false);
            }
        }
    }
    // subkeys
    if cert.subs.len() != s.subs.len() {
        k.v("C07/structure/subkeys", format!("{} subkeys, requested {}", cert.subs.len(), s.subs.len()));
    }
    for (i, ((kp, sigs), sub)) in cert.subs.iter().zip(&s.subs).enumerate() {
        let what = format!("subkey {i} ({})", sub.alg.name());
        check_key_packet(k, &what, kp, 7, s.v6, sub.alg, s.created.saturating_add(sub.created_off), s.pass.is_some() && sub.locked, s);
        if sigs.is_empty() {
            k.v("C07/structure/subkey-bindings", format!("{what}: no binding signature"));
        }
        let skf = rfc::sig::key_hash_framing(&kp.pub_body);
        for sg in sigs {
            let Some(si) = check_selfsig(k, &format!("{what} binding"), sg, &[0x18], &[&kf, &skf], signer, window) else { continue };
            let want_flags = (sub.sign as u8) << 1 | caps_bits(sub.enc) | (sub.auth as u8) << 5;
            if !flags_ok(find_sp(&si.hashed, 27), want_flags) {
                k.v(
                    "C07/meta-ref/subkey-flags",
                    format!("{what}: key flags {:?}, requested {want_flags:02x}", find_sp(&si.hashed, 27).map(|s| hex::encode(&s.body))),
                );
            }
            let unhashed = parse_sig(sg).ok().and_then(|r| parse_subpackets(&r.unhashed).ok()).unwrap_or_default();
            let emb = find_sp(&si.hashed, 32).or_else(|| find_sp(&unhashed, 32));
            match emb {
                None => {
                    if sub.sign {
                        k.v(format!("C07/back-signature/missing/{}", alg_label(&kp.public)), format!("{what}: signing-capable subkey without embedded 0x19 signature"));
                    }
                }
                Some(e) => {
                    k.ctx.tally("backsig.checked", 1);
                    // the back signature is made before the binding signature, by the subkey
                    check_selfsig(k, &format!("{what} back-signature"), &e.body, &[0x19], &[&kf, &skf], &kp.public, window);
                }
            }
        }
    }
}

// ------------------------------------------------------------------------------------------
// (c) through the library accessors

fn flags_of(sig: &Signature) -> u8 {
    let f = sig.key_flags();
    (f.certify() as u8)
        | (f.sign() as u8) << 1
        | (f.encrypt_comms() as u8) << 2
        | (f.encrypt_storage() as u8) << 3
        | (f.shared() as u8) << 4
        | (f.authentication() as u8) << 5
        | (f.group() as u8) << 7
}

fn check_meta_acc(k: &mut K, what: &str, sig: &Signature, s: &Shape) {
    let got = flags_of(sig);
    if got != s.primary_flags() || sig.key_flags().adsk() || sig.key_flags().timestamping() {
        k.v("C07/meta-accessor/key-flags", format!("{what}: key_flags() = {got:02x}, requested {:02x}", s.primary_flags()));
    }
    let (f1, f2) = sig.features().map(|f| (f.seipd_v1(), f.seipd_v2())).unwrap_or((false, false));
    if (f1, f2) != (s.feat1, s.feat2) {
        k.v("C07/meta-accessor/features", format!("{what}: features() seipd v1/v2 = {f1}/{f2}, requested {}/{}", s.feat1, s.feat2));
    }
    let sym: Vec<u8> = sig.preferred_symmetric_algs().iter().map(|a| u8::from(*a)).collect();
    let hash: Vec<u8> = sig.preferred_hash_algs().iter().map(|a| u8::from(*a)).collect();
    let comp: Vec<u8> = sig.preferred_compression_algs().iter().map(|a| u8::from(*a)).collect();
    let aead: Vec<(u8, u8)> = sig.preferred_aead_algs().iter().map(|(a, b)| (u8::from(*a), u8::from(*b))).collect();
    if sym != s.sym {
        k.v("C07/meta-accessor/pref-sym", format!("{what}: {sym:?}, requested {:?}", s.sym));
    }
    if hash != s.hash {
        k.v("C07/meta-accessor/pref-hash", format!("{what}: {hash:?}, requested {:?}", s.hash));
    }
    if comp != s.comp {
        k.v("C07/meta-accessor/pref-compression", format!("{what}: {comp:?}, requested {:?}", s.comp));
    }
    if aead != s.aead {
        k.v("C07/meta-accessor/pref-aead", format!("{what}: {aead:?}, requested {:?}", s.aead));
    }
}

fn check_accessors(k: &mut K, s: &Shape, key: &SignedSecretKey) {
    let want_ver = if s.v6 { KeyVersion::V6 } else { KeyVersion::V4 };
    if key.primary_key.version() != want_ver
        || u8::from(key.primary_key.algorithm()) != s.primary.id()
        || key.primary_key.created_at().as_secs() != s.created
    {
        k.v(
            "C07/requested/primary-accessors",
            format!(
                "primary key reports version {:?} algorithm {:?} created {}",
                key.primary_key.version(),
                key.primary_key.algorithm(),
                key.primary_key.created_at().as_secs()
            ),
        );
    }
    if !key.details.revocation_signatures.is_empty() || !key.public_subkeys.is_empty() {
        k.v("C07/structure/unrequested-parts", "generated key has revocation signatures or public-only subkeys");
    }
    if s.v6 {
        match key.details.direct_signatures.first() {
            Some(sig) => check_meta_acc(k, "direct key signature", sig, s),
            None => k.v("C07/structure/direct-key-signatures", "v6 key without direct key signature (accessor)"),
        }
    }
    let ids: Vec<Vec<u8>> = key.details.users.iter().map(|u| u.id.id().to_vec()).collect();
    let want: Vec<Vec<u8>> = s.uids.iter().map(|u| u.as_bytes().to_vec()).collect();
    if ids != want {
        k.v("C07/requested/user-id", format!("details.users = {:?}, requested {:?}", ids.iter().map(|i| String::from_utf8_lossy(i).to_string()).collect::<Vec<_>>(), s.uids));
    } else {
        for (i, u) in key.details.users.iter().enumerate() {
            let want_primary = i == 0 && s.has_primary;
            if u.is_primary() != want_primary {
                k.v("C07/requested/primary-user-id", format!("user {i}: is_primary() = {}, requested {want_primary}", u.is_primary()));
            }
            if !s.v6 && want_primary {
                match u.signatures.first() {
                    Some(sig) => check_meta_acc(k, "primary user id certification", sig, s),
                    None => k.v("C07/structure/certifications", "primary user id without signature"),
                }
            }
        }
    }
    if key.details.user_attributes.len() != s.attr.is_some() as usize {
        k.v("C07/requested/user-attribute", format!("{} user attributes", key.details.user_attributes.len()));
    }
    if key.secret_subkeys.len() != s.subs.len() {
        k.v("C07/structure/subkeys", format!("{} secret subkeys (accessor), requested {}", key.secret_subkeys.len(), s.subs.len()));
        return;
    }
    for (i, (sk, sub)) in key.secret_subkeys.iter().zip(&s.subs).enumerate() {
        let what = format!("subkey {i} ({})", sub.alg.name());
        if sk.key.version() != want_ver
            || u8::from(sk.key.algorithm()) != sub.alg.id()
            || sk.key.created_at().as_secs() != s.created.saturating_add(sub.created_off)
        {
            k.v("C07/requested/subkey-accessors", format!("{what}: version {:?} algorithm {:?} created {}", sk.key.version(), sk.key.algorithm(), sk.key.created_at().as_secs()));
        }
        let Some(sig) = sk.signatures.first() else {
            k.v("C07/structure/subkey-bindings", format!("{what}: no binding signature"));
            continue;
        };
        let want_flags = (sub.sign as u8) << 1 | caps_bits(sub.enc) | (sub.auth as u8) << 5;
        if flags_of(sig) != want_flags {
            k.v("C07/meta-accessor/subkey-flags", format!("{what}: key_flags() = {:02x}, requested {want_flags:02x}", flags_of(sig)));
        }
        match sig.embedded_signature() {
            None => {
                if sub.sign {
                    k.v(format!("C07/back-signature/missing-accessor/{}", sub.alg.name()), format!("{what}: embedded_signature() is None for a signing subkey"));
                }
            }
            Some(back) => {
                if back.typ() != Some(SignatureType::KeyBinding) {
                    k.v("C07/back-signature/type", format!("{what}: embedded signature of type {:?}", back.typ()));
                }
                if let Err(e) = back.verify_primary_key_binding(sk.key.public_key(), key.primary_key.public_key()) {
                    k.v(format!("C07/back-signature/verify/{}", sub.alg.name()), format!("{what}: verify_primary_key_binding: {e}"));
                }
                k.ctx.eval();
            }
        }
    }
}

// ------------------------------------------------------------------------------------------
// (e) usability

fn password_of(s: &Shape) -> Password {
    match &s.pass {
        Some(p) => Password::from(p.as_str()),
        None => Password::empty(),
    }
}

fn wrong_passwords(s: &Shape) -> Vec<Password> {
    let p = s.pass.clone().unwrap_or_default();
    let mut v = vec![Password::from(format!("{p}x").as_str())];
    if !p.is_empty() {
        v.push(Password::empty());
        v.push(Password::from(&p[..p.len() - p.chars().last().map(|c| c.len_utf8()).unwrap_or(0)]));
    }
    v
}

#[allow(clippy::too_many_arguments)]
fn sign_check<S, V>(k: &mut K, what: &str, s: &Shape, signer: &S, verifier: &V, locked: bool, rng: &mut ChaCha8Rng, via_config: bool)
where
    S: SigningKey,
    V: VerifyingKey + Serialize,
{
    let pw = password_of(s);
    let n = rng.gen_range(0..200);
    let mut data = vec![0u8; n];
    rng.fill_bytes(&mut data);
    let hash = signer.hash_alg();
    let alg = format!("{:?}", signer.algorithm());
    let res = if via_config {
        (|| {
            let mut cfg = SignatureConfig::from_key(&mut *rng, signer, SignatureType::Binary)?;
            cfg.hashed_subpackets = vec![
                Subpacket::regular(SubpacketData::SignatureCreationTime(Timestamp::now()))?,
                Subpacket::regular(SubpacketData::IssuerFingerprint(signer.fingerprint()))?,
            ];
            cfg.sign(signer, &pw, &data[..])
        })()
    } else {
        DetachedSignature::sign_binary_data(&mut *rng, signer, &pw, hash, &data[..]).map(|d| d.signature)
    };
    k.ctx.eval();
    let sig = match res {
        Ok(s) => s,
        Err(e) => {
            k.v(format!("C07/usability/sign-error/{alg}"), format!("{what}: signing {n} octets with {hash:?} failed: {e}"));
            return;
        }
    };
    if let Err(e) = sig.verify(verifier, &data[..]) {
        k.v(format!("C07/usability/own-signature-rejected/{alg}"), format!("{what}: signature over {n} octets does not verify with the public half: {e}"));
    }
    k.ctx.eval();
    let mut other = data.clone();
    if other.is_empty() {
        other.push(0);
    } else {
        let p = rng.gen_range(0..other.len());
        other[p] ^= 1 << rng.gen_range(0..8);
    }
    if sig.verify(verifier, &other[..]).is_ok() {
        k.v(format!("C07/usability/wrong-message-accepted/{alg}"), format!("{what}: signature verifies over a different message"));
    }
    k.ctx.eval();
    // reference: digest and signature value
    let (Ok(body), Ok(pbody)) = (sig.to_bytes(), verifier.to_bytes()) else { return };
    let (Ok(rs), Some((rp, _))) = (parse_sig(&body), RefPub::parse_prefix(&pbody)) else {
        k.ctx.inconclusive("reference cannot parse data signature / public key");
        return;
    };
    if let Some(d) = rs.digest_document(&data) {
        let label = alg_label(&rp);
        if d[..2] != rs.left16 {
            k.v(format!("C07/usability/data-signature-left16/{label}"), format!("{what}: left16 differs from the RFC digest"));
        } else if let Some(Err(e)) = ref_verify(&rp, &d, &rs.sig_data) {
            k.v(format!("C07/usability/data-signature-independent-verify/{label}"), format!("{what}: {e}"));
        }
        let fs = match rp.alg {
            19 | 22 => ecc_parts(&rp.material).and_then(|(o, _, _)| fsize_of_oid(o)),
            17 => Some(32),
            _ => None,
        };
        if let Some(fs) = fs {
            if let Some((r, p)) = rfc::read_mpi(&rs.sig_data, 0) {
                k.lz(&format!("{label}.sig_r"), r.len(), fs);
                if let Some((s_, _)) = rfc::read_mpi(&rs.sig_data, p) {
                    k.lz(&format!("{label}.sig_s"), s_.len(), fs);
                }
            }
        }
    }
    if locked {
        for w in wrong_passwords(s).iter().take(1) {
            if DetachedSignature::sign_binary_data(&mut *rng, signer, w, hash, &data[..]).is_ok() {
                k.v("C07/lock/sign-with-wrong-passphrase", format!("{what}: signing succeeded with a wrong passphrase"));
            }
            k.ctx.eval();
        }
    }
}

fn encrypt_to<E: EncryptionKey>(rng: &mut ChaCha8Rng, v2: bool, payload: &[u8], e: &E) -> pgp::errors::Result<Vec<u8>> {
    let sym = *[SymmetricKeyAlgorithm::AES128, SymmetricKeyAlgorithm::AES192, SymmetricKeyAlgorithm::AES256]
        .choose(rng)
        .unwrap();
    if v2 {
        let aead = *[AeadAlgorithm::Eax, AeadAlgorithm::Ocb, AeadAlgorithm::Gcm].choose(rng).unwrap();
        let mut b = MessageBuilder::from_bytes("", payload.to_vec()).seipd_v2(&mut *rng, sym, aead, ChunkSize::default());
        b.encrypt_to_key(&mut *rng, e)?;
        b.to_vec(&mut *rng)
    } else {
        let mut b = MessageBuilder::from_bytes("", payload.to_vec()).seipd_v1(&mut *rng, sym);
        b.encrypt_to_key(&mut *rng, e)?;
        b.to_vec(&mut *rng)
    }
}

fn decrypt_with(ct: &[u8], pw: &Password, key: &SignedSecretKey) -> Result<Vec<u8>, String> {
    let msg = Message::from_bytes(ct).map_err(|e| format!("parse: {e}"))?;
    let mut dec = msg.decrypt(pw, key).map_err(|e| format!("decrypt: {e}"))?;
    dec.as_data_vec().map_err(|e| format!("read: {e}"))
}

fn encrypt_check<E: EncryptionKey>(k: &mut K, what: &str, s: &Shape, enc: &E, sec: &SignedSecretKey, locked: bool, rng: &mut ChaCha8Rng) {
    let n = rng.gen_range(0..300);
    let mut payload = vec![0u8; n];
    rng.fill_bytes(&mut payload);
    let alg = format!("{:?}", enc.algorithm());
    let ct = match encrypt_to(rng, s.v6, &payload, enc) {
        Ok(c) => c,
        Err(e) => {
            k.v(format!("C07/usability/encrypt-error/{alg}"), format!("{what}: encrypting to the generated key failed: {e}"));
            return;
        }
    };
    k.ctx.eval();
    match decrypt_with(&ct, &password_of(s), sec) {
        Ok(p) if p == payload => {}
        Ok(p) => k.v(format!("C07/usability/decrypt-wrong-plaintext/{alg}"), format!("{what}: decrypted {} octets, sent {n}", p.len())),
        Err(e) => k.v(format!("C07/usability/decrypt-error/{alg}"), format!("{what}: message to the generated key does not decrypt with it: {e}")),
    }
    k.ctx.eval();
    if locked {
        if let Some(w) = wrong_passwords(s).first() {
            if decrypt_with(&ct, w, sec).is_ok() {
                k.v("C07/lock/decrypt-with-wrong-passphrase", format!("{what}: decryption succeeded with a wrong passphrase"));
            }
            k.ctx.eval();
        }
    }
}

fn check_usability(k: &mut K, s: &Shape, idx: u64, fam: &str, orig: &SignedSecretKey, re: &SignedSecretKey, pubk: &SignedPublicKey) {
    let mut rng = k.ctx.rng(&format!("{fam}.use"), idx);
    if re.secret_subkeys.len() != s.subs.len() || pubk.public_subkeys.len() != s.subs.len() || orig.secret_subkeys.len() != s.subs.len() {
        return; // reported by the structure checks
    }
    let pw = password_of(s);
    // the library default S2K of v6 keys is Argon2 with 64 MiB: keep the number of derivations small
    let costly = s.pass.is_some() && s.s2k == S2kKind::Default;
    let mut wrong = wrong_passwords(s);
    if costly {
        wrong.truncate(1);
    }
    let locked_p = s.pass.is_some() && s.lock_primary;
    // unlock with right / wrong passphrase
    let unlock_check = |k: &mut K, what: &str, locked: bool, f: &dyn Fn(&Password) -> bool| {
        if !f(&pw) {
            k.v("C07/lock/unlock-fails", format!("{what}: unlock with the requested passphrase failed (locked: {locked})"));
        }
        k.ctx.eval();
        if locked {
            for w in &wrong {
                if f(w) {
                    k.v("C07/lock/unlock-with-wrong-passphrase", format!("{what}: unlock succeeded with a wrong passphrase"));
                }
                k.ctx.eval();
            }
        }
    };
    for (name, key) in [("generated", orig), ("re-imported", re)] {
        if costly && name == "generated" {
            continue;
        }
        unlock_check(k, &format!("{name} primary"), locked_p, &|p| matches!(key.primary_key.unlock(p, |_, _| Ok(())), Ok(Ok(()))));
        for (i, sk) in key.secret_subkeys.iter().enumerate() {
            let locked = s.pass.is_some() && s.subs[i].locked;
            unlock_check(k, &format!("{name} subkey {i}"), locked, &|p| matches!(sk.key.unlock(p, |_, _| Ok(())), Ok(Ok(()))));
        }
    }
    // signing: alternate between the generated value and the re-imported one
    let pick = |i: u64| if (idx + i) % 2 == 0 { orig } else { re };
    if s.sign {
        sign_check(k, "primary", s, &pick(0).primary_key, &pubk.primary_key, locked_p, &mut rng, idx % 3 == 0);
    }
    for (i, sub) in s.subs.iter().enumerate() {
        if sub.sign {
            let locked = s.pass.is_some() && sub.locked;
            sign_check(k, &format!("subkey {i}"), s, &pick(i as u64 + 1).secret_subkeys[i].key, &pubk.public_subkeys[i].key, locked, &mut rng, (idx + i as u64) % 3 == 1);
        }
    }
    // encryption: always decrypt with the re-imported secret key (stripped scalars re-padded)
    let dec_key = if idx % 4 == 3 { orig } else { re };
    if s.enc != EncryptionCaps::None {
        encrypt_check(k, "primary", s, &pubk.primary_key, dec_key, locked_p, &mut rng);
    }
    for (i, sub) in s.subs.iter().enumerate() {
        if sub.enc != EncryptionCaps::None {
            let locked = s.pass.is_some() && sub.locked;
            encrypt_check(k, &format!("subkey {i} ({})", sub.alg.name()), s, &pubk.public_subkeys[i].key, dec_key, locked, &mut rng);
        }
    }
}

// ------------------------------------------------------------------------------------------
// (f) builder validation

struct VSub(KeyVersion, KeyType, bool, EncryptionCaps, bool);

#[allow(clippy::too_many_arguments)]
fn try_gen(pv: KeyVersion, kt: Option<KeyType>, sign: bool, enc: EncryptionCaps, auth: bool, uid: bool, subs: Vec<VSub>) -> Result<(), String> {
    let mut b = SecretKeyParamsBuilder::default();
    b.version(pv).can_certify(true).can_sign(sign).can_encrypt(enc).can_authenticate(auth).created_at(Timestamp::from_secs(1_700_000_000));
    if let Some(kt) = kt {
        b.key_type(kt);
    }
    if uid {
        b.primary_user_id("Validation <v@example.org>".into());
    }
    for VSub(v, kt, sg, en, au) in subs {
        let sp = SubkeyParamsBuilder::default()
            .version(v)
            .key_type(kt)
            .can_sign(sg)
            .can_encrypt(en)
            .can_authenticate(au)
            .created_at(Timestamp::from_secs(1_700_000_000))
            .build()
            .map_err(|e| format!("subkey build: {e}"))?;
        b.subkey(sp);
    }
    let params = b.build().map_err(|e| format!("build: {e}"))?;
    let key = params.generate(Ctx::fixed_rng("c07.validation", 0)).map_err(|e| format!("generate: {e}"))?;
    key.verify_bindings().map_err(|e| format!("generated but verify_bindings fails: {e}"))?;
    Ok(())
}

fn validation_family(ctx: &mut Ctx) {
    use EncryptionCaps::{All as EA, None as EN};
    use KeyVersion::{V4, V6};
    let ed = || KeyType::Ed25519;
    // (name, must be refused?, result)
    let mut cases: Vec<(&str, bool, Box<dyn Fn() -> Result<(), String>>)> = vec![];
    macro_rules! case {
        ($name:expr, $refused:expr, $e:expr) => {
            cases.push(($name, $refused, Box::new(move || $e)));
        };
    }
    // version mixes
    case!("v6 primary + v4 subkey", true, try_gen(V6, Some(ed()), true, EN, false, true, vec![VSub(V4, KeyType::X25519, false, EA, false)]));
    case!("v4 primary + v6 subkey", true, try_gen(V4, Some(ed()), true, EN, false, true, vec![VSub(V6, KeyType::X25519, false, EA, false)]));
    case!("v6 primary + v4 signing subkey", true, try_gen(V6, Some(ed()), true, EN, false, true, vec![VSub(V4, ed(), true, EN, false)]));
    case!("v6 primary + v6 and v4 subkeys", true, try_gen(V6, Some(ed()), true, EN, false, true, vec![VSub(V6, KeyType::X25519, false, EA, false), VSub(V4, KeyType::X25519, false, EA, false)]));
    // legacy 25519 formats are v4 only
    case!("v6 Ed25519Legacy primary", true, try_gen(V6, Some(KeyType::Ed25519Legacy), true, EN, false, true, vec![]));
    case!("v6 Ed25519Legacy subkey", true, try_gen(V6, Some(ed()), true, EN, false, true, vec![VSub(V6, KeyType::Ed25519Legacy, true, EN, false)]));
    case!("v6 ECDH Curve25519Legacy subkey", true, try_gen(V6, Some(ed()), true, EN, false, true, vec![VSub(V6, KeyType::ECDH(ECCCurve::Curve25519Legacy), false, EA, false)]));
    // RSA sizes
    case!("v4 RSA 1024", true, try_gen(V4, Some(KeyType::Rsa(1024)), true, EN, false, true, vec![]));
    case!("v4 RSA 2047", true, try_gen(V4, Some(KeyType::Rsa(2047)), true, EN, false, true, vec![]));
    case!("v6 RSA 1024", true, try_gen(V6, Some(KeyType::Rsa(1024)), true, EN, false, true, vec![]));
    case!("v4 RSA 0", true, try_gen(V4, Some(KeyType::Rsa(0)), true, EN, false, true, vec![]));
    case!("RSA 1024 subkey", true, try_gen(V4, Some(ed()), true, EN, false, true, vec![VSub(V4, KeyType::Rsa(1024), false, EA, false)]));
    // ECDSA curves
    for (n, c) in [
        ("ECDSA over Curve25519Legacy", ECCCurve::Curve25519Legacy),
        ("ECDSA over Ed25519Legacy", ECCCurve::Ed25519Legacy),
        ("ECDSA over brainpoolP256r1", ECCCurve::BrainpoolP256r1),
        ("ECDSA over brainpoolP384r1", ECCCurve::BrainpoolP384r1),
        ("ECDSA over brainpoolP512r1", ECCCurve::BrainpoolP512r1),
    ] {
        let c2 = c.clone();
        case!(n, true, try_gen(V4, Some(KeyType::ECDSA(c.clone())), true, EN, false, true, vec![]));
        cases.push(("ECDSA subkey over an unsupported curve", true, Box::new(move || try_gen(V4, Some(KeyType::Ed25519), true, EN, false, true, vec![VSub(V4, KeyType::ECDSA(c2.clone()), true, EN, false)]))));
    }
    // ECDH curves that cannot be generated
    for (n, c) in [
        ("ECDH over secp256k1", ECCCurve::Secp256k1),
        ("ECDH over Ed25519Legacy", ECCCurve::Ed25519Legacy),
        ("ECDH over brainpoolP256r1", ECCCurve::BrainpoolP256r1),
    ] {
        case!(n, true, try_gen(V4, Some(KeyType::Ed25519), true, EN, false, true, vec![VSub(V4, KeyType::ECDH(c.clone()), false, EA, false)]));
    }
    // capabilities the algorithm does not have
    case!("sign on ECDH P-256 primary", true, try_gen(V4, Some(KeyType::ECDH(ECCCurve::P256)), true, EN, false, true, vec![]));
    case!("sign on X25519 primary", true, try_gen(V6, Some(KeyType::X25519), true, EN, false, true, vec![]));
    case!("sign on X448 primary", true, try_gen(V6, Some(KeyType::X448), true, EN, false, true, vec![]));
    case!("sign on X25519 subkey", true, try_gen(V6, Some(ed()), true, EN, false, true, vec![VSub(V6, KeyType::X25519, true, EN, false)]));
    case!("sign on ECDH subkey", true, try_gen(V4, Some(ed()), true, EN, false, true, vec![VSub(V4, KeyType::ECDH(ECCCurve::P384), true, EA, false)]));
    case!("authenticate on X25519 subkey", true, try_gen(V6, Some(ed()), true, EN, false, true, vec![VSub(V6, KeyType::X25519, false, EA, true)]));
    case!("authenticate on X448 primary", true, try_gen(V6, Some(KeyType::X448), false, EN, true, true, vec![]));
    case!("encrypt on Ed25519 primary", true, try_gen(V6, Some(ed()), true, EA, false, true, vec![]));
    case!("encrypt(comms) on Ed448 primary", true, try_gen(V6, Some(KeyType::Ed448), true, EncryptionCaps::Communication, false, true, vec![]));
    case!("encrypt(storage) on ECDSA primary", true, try_gen(V4, Some(KeyType::ECDSA(ECCCurve::P256)), true, EncryptionCaps::Storage, false, true, vec![]));
    case!("encrypt on Ed25519Legacy primary", true, try_gen(V4, Some(KeyType::Ed25519Legacy), true, EA, false, true, vec![]));
    case!("encrypt on Ed25519 subkey", true, try_gen(V6, Some(ed()), true, EN, false, true, vec![VSub(V6, ed(), false, EA, false)]));
    case!("encrypt on ECDSA subkey", true, try_gen(V4, Some(ed()), true, EN, false, true, vec![VSub(V4, KeyType::ECDSA(ECCCurve::P521), false, EncryptionCaps::Storage, false)]));
    // mandatory parts
    case!("v4 without primary user id", true, try_gen(V4, Some(ed()), true, EN, false, false, vec![]));
    case!("no key type", true, try_gen(V6, None, true, EN, false, true, vec![]));
    // legal controls: each differs from an illegal case above in exactly the offending parameter
    case!("v6 primary + v6 subkey", false, try_gen(V6, Some(ed()), true, EN, false, true, vec![VSub(V6, KeyType::X25519, false, EA, false)]));
    case!("v4 primary + v4 subkey", false, try_gen(V4, Some(ed()), true, EN, false, true, vec![VSub(V4, KeyType::X25519, false, EA, false)]));
    case!("v4 Ed25519Legacy + Curve25519Legacy", false, try_gen(V4, Some(KeyType::Ed25519Legacy), true, EN, false, true, vec![VSub(V4, KeyType::ECDH(ECCCurve::Curve25519Legacy), false, EA, false)]));
    case!("v6 without user id", false, try_gen(V6, Some(ed()), true, EN, false, false, vec![]));
    case!("v4 ECDSA P-256 + ECDH P-256", false, try_gen(V4, Some(KeyType::ECDSA(ECCCurve::P256)), true, EN, false, true, vec![VSub(V4, KeyType::ECDH(ECCCurve::P256), false, EA, false)]));
    case!("v6 ECDSA secp256k1... v4", false, try_gen(V4, Some(KeyType::ECDSA(ECCCurve::Secp256k1)), true, EN, false, true, vec![]));
    case!("authenticate on Ed25519 subkey", false, try_gen(V6, Some(ed()), true, EN, false, true, vec![VSub(V6, ed(), false, EN, true)]));
    case!("sign on Ed448 subkey", false, try_gen(V6, Some(KeyType::Ed448), true, EN, false, true, vec![VSub(V6, KeyType::Ed448, true, EN, false)]));
    case!("encrypt on X448 subkey", false, try_gen(V6, Some(ed()), true, EN, false, true, vec![VSub(V6, KeyType::X448, false, EncryptionCaps::Storage, false)]));

    for (name, must_refuse, f) in cases {
        describe_case(&format!("C07 validation: {name}"));
        let replay = json!({"family": "validation", "case": name});
        match guard(&f) {
            Err(p) => ctx.violation(format!("C07/validation/panic/{}", p.short_loc()), format!("{name}: panic: {} at {}", p.msg, p.loc), replay),
            Ok(r) => {
                ctx.eval();
                ctx.cover(&("validation", name));
                match (must_refuse, r) {
                    (true, Ok(())) => ctx.violation("C07/validation/illegal-mix-accepted", format!("{name}: build() and generate() succeeded"), replay),
                    (true, Err(e)) if e.starts_with("generated but") => {
                        ctx.violation("C07/validation/illegal-mix-accepted", format!("{name}: build() and generate() succeeded ({e})"), replay)
                    }
                    (true, Err(e)) => {
                        ctx.seen("validation.refused", name);
                        ctx.tally(if e.starts_with("generate") { "validation.refused-at-generate" } else { "validation.refused-at-build" }, 1);
                    }
                    (false, Ok(())) => ctx.seen("validation.accepted", name),
                    (false, Err(e)) => ctx.violation("C07/validation/legal-mix-refused", format!("{name}: {e}"), replay),
                }
            }
        }
    }
}

// ------------------------------------------------------------------------------------------
// slow families (RSA, DSA, library-default S2K) and the driver

fn rsa_shape(r: &mut ChaCha8Rng, j: u64) -> Shape {
    // start from a random fast shape to get user ids / preferences / locking, then force the algorithms
    let mut s = fast_shape(r, Alg::Ed25519, j);
    s.uncertain = false;
    let lock_subs = s.subs.first().map(|x| x.locked).unwrap_or(s.pass.is_some());
    let rsa_sub = |sign: bool, enc: EncryptionCaps| SubShape { alg: Alg::Rsa, sign, enc, auth: false, locked: lock_subs, created_off: 0 };
    match (j / 2) % 5 {
        0 => {
            s.primary = Alg::Rsa;
            s.enc = EncryptionCaps::All;
            s.sign = true;
            s.subs.clear();
        }
        1 => {
            s.primary = Alg::Rsa;
            s.subs = vec![rsa_sub(false, EncryptionCaps::All)];
        }
        2 => {
            s.primary = Alg::Rsa;
            s.enc = EncryptionCaps::Storage;
            s.subs = vec![rsa_sub(true, EncryptionCaps::Communication)];
        }
        3 => {
            // fast primary, RSA encryption subkey and RSA signing subkey
            s.subs = vec![rsa_sub(false, EncryptionCaps::All), rsa_sub(true, EncryptionCaps::None)];
        }
        _ => {
            s.primary = Alg::Rsa;
            s.subs = vec![
                SubShape { alg: if s.v6 { Alg::X25519 } else { Alg::EcdhCv }, sign: false, enc: EncryptionCaps::All, auth: false, locked: lock_subs, created_off: 0 },
                SubShape { alg: Alg::P256, sign: true, enc: EncryptionCaps::None, auth: false, locked: lock_subs, created_off: 0 },
            ];
        }
    }
    s
}

fn dsa_shape(r: &mut ChaCha8Rng, j: u64) -> Shape {
    let mut s = fast_shape(r, Alg::P256, j);
    s.primary = Alg::Dsa;
    // DSA is exercised mostly as v4 (RFC 9580 deprecates it); every fourth key asks for v6 and only
    // records what the builder says
    s.v6 = j % 4 == 3;
    s.uncertain = s.v6;
    if s.uids.is_empty() {
        s.uids.push("Dsa <dsa@example.org>".into());
    }
    if !s.v6 {
        s.has_primary = true;
    }
    for sub in s.subs.iter_mut() {
        if s.v6 && sub.alg.v4_only() {
            sub.alg = Alg::X25519;
        }
    }
    s
}

fn default_s2k_shape(r: &mut ChaCha8Rng, j: u64) -> Shape {
    let mut s = fast_shape(r, if j % 4 < 2 { Alg::Ed25519 } else { Alg::P256 }, j);
    s.uncertain = false;
    s.pass = Some(random_pass(r));
    s.lock_primary = true;
    s.s2k = S2kKind::Default;
    s.subs = vec![SubShape { alg: if j % 4 < 2 { Alg::X25519 } else { Alg::EcdhP256 }, sign: false, enc: EncryptionCaps::All, auth: false, locked: true, created_off: 0 }];
    s
}

fn run_case(ctx: &mut Ctx, fam: &str, idx: u64, s: &Shape) {
    describe_case(&format!("C07 {fam} {idx}: {}", s.desc()));
    if let Err(p) = guard(|| check_key(ctx, fam, idx, s)) {
        if p.in_harness() {
            ctx.inconclusive(format!("harness panic at {}: {}", p.loc, p.msg));
        } else {
            ctx.violation(
                format!("C07/panic/{}", p.short_loc()),
                format!("panic: {} at {}; shape: {}", p.msg, p.loc, s.desc()),
                json!({"family": fam, "index": idx, "seed": ctx.seed, "shape": s.desc()}),
            );
        }
    }
}

pub fn run(ctx: &mut Ctx) {
    // (f) builder validation: one case
    if ctx.mine() {
        validation_family(ctx);
    }
    // slow algorithms first, so that they spread over the shards
    let n_rsa = ctx.qt(10u64, 200);
    for j in 0..n_rsa {
        if !ctx.mine() {
            continue;
        }
        let mut r = ctx.rng("rsa.shape", j);
        let s = rsa_shape(&mut r, j);
        run_case(ctx, "rsa", j, &s);
    }
    let n_dsa = ctx.qt(8u64, 200);
    for j in 0..n_dsa {
        if !ctx.mine() {
            continue;
        }
        let mut r = ctx.rng("dsa.shape", j);
        let s = dsa_shape(&mut r, j);
        run_case(ctx, "dsa", j, &s);
    }
    let n_def = ctx.qt(4u64, 48);
    for j in 0..n_def {
        if !ctx.mine() {
            continue;
        }
        let mut r = ctx.rng("default-s2k.shape", j);
        let s = default_s2k_shape(&mut r, j);
        run_case(ctx, "default-s2k", j, &s);
    }
    // metadata matrix: every cell of {v4,v6} x empty/non-empty preference lists x features x
    // primary key flags, 8 keys per case
    let reps = ctx.qt(1u64, 8);
    for rep in 0..reps {
        for group in 0..META_CELLS / 8 {
            if !ctx.mine() {
                continue;
            }
            for cell in group * 8..group * 8 + 8 {
                let j = rep * META_CELLS + cell;
                let mut r = ctx.rng("meta-matrix.shape", j);
                let s = meta_matrix_shape(&mut r, cell, rep);
                run_case(ctx, "meta-matrix", j, &s);
                if j == 1 + 2 * 9 {
                    ctx.sample(json!({"family": "meta-matrix", "index": j, "shape": s.desc()}));
                }
            }
        }
    }
    // fast algorithms: N keys per primary algorithm, chosen so that each 1/256 leading-zero event
    // is expected >= 9 times per field (P(no event) < 1e-4)
    let scale = ctx.qt(1u64, 20);
    let plan: [(Alg, u64); 7] = [
        (Alg::EdLegacy, 2400),
        (Alg::P256, 2400),
        (Alg::P384, 2400),
        (Alg::K256, 2400),
        (Alg::P521, 1200),
        (Alg::Ed25519, 1600),
        (Alg::Ed448, 1000),
    ];
    for (alg, n) in plan {
        for j in 0..n * scale {
            if !ctx.mine() {
                continue;
            }
            let fam = format!("fast.{}", alg.name());
            let mut r = ctx.rng(&format!("{fam}.shape"), j);
            let s = fast_shape(&mut r, alg, j);
            run_case(ctx, &fam, j, &s);
            if j < 2 {
                ctx.sample(json!({"family": fam, "index": j, "shape": s.desc()}));
            }
        }
    }
}
