//! C12 — symmetric and KDF constructions are the RFC's (interoperable ciphertext).
//!
//! Every construction is exercised in both directions against the independent reference
//! (`crate::rfc`): what the library emits must decrypt under the reference to the plaintext, what
//! the reference emits must decrypt under the library, and deterministic outputs (given key, salt,
//! IV/nonce, prefix) must be byte-identical.

use std::io::Read;

use pgp::composed::{
    DecryptionOptions, Message, MessageBuilder, PlainSessionKey, RawSessionKey, TheRing,
};
use pgp::crypto::aead::{AeadAlgorithm, ChunkSize};
use pgp::crypto::hash::HashAlgorithm;
use pgp::crypto::sym::SymmetricKeyAlgorithm;
use pgp::packet::{PacketHeader, SymEncryptedProtectedData};
use pgp::ser::Serialize;
use pgp::types::{
    DecryptionKey, EncryptionKey, EskType, Mpi, Password, PkeskBytes, S2kParams,
    Seipdv1ReadMode, StringToKey, Tag,
};
use rand::{Rng, RngCore};
use rand_chacha::ChaCha8Rng;
use serde_json::{json, Value};

use crate::core::{describe_case, hexs, Ctx};
use crate::hooks;
use crate::rec::RecEncryptor;
use crate::rfc;
use crate::rfc::frame::{deframe, frame, LenForm};
use crate::rfc::key::{RefProtection, RefPub, RefSecret};
use crate::rfc::sym::RefS2k;
use crate::shim::{drain_read, Consume, Sched, SchedReader};
use crate::zoo;

pub fn run(ctx: &mut Ctx) {
    // (family, repetitions with fresh random material in the thorough tier)
    let fams: [(&str, fn(&mut Ctx), u64); 17] = [
        ("s2k", fam_s2k, 1),
        ("cfb_raw", fam_cfb_raw, 3),
        ("seipd1_msg", fam_seipd1_msg, 4),
        ("seipd2_raw", fam_seipd2_raw, 2),
        ("seipd2_msg", fam_seipd2_msg, 4),
        ("skesk", fam_skesk, 6),
        ("keyprot", fam_keyprot, 3),
        ("kw_kdf", fam_kw_kdf, 4),
        ("ecdh_params", fam_ecdh_params, 6),
        ("pkesk_e2e", fam_pkesk_e2e, 3),
        // the accepting side: reference-made near misses (section 8)
        ("accept_s2k", fam_accept_s2k, 1),
        ("accept_skesk", fam_accept_skesk, 2),
        ("accept_kw", fam_accept_kw, 2),
        ("accept_ecdh", fam_accept_ecdh, 2),
        ("accept_x", fam_accept_x, 2),
        ("accept_seipd2", fam_accept_seipd2, 1),
        ("accept_keyprot", fam_accept_keyprot, 2),
    ];
    let seed0 = ctx.seed;
    for (name, f, reps) in fams {
        let t0 = crate::core::thread_cpu_s();
        for rep in 0..ctx.qt(1, reps * 4) {
            // every random draw goes through ctx.rng(seed, ..): a repetition is the same case
            // grid with different keys / salts / nonces / plaintexts
            ctx.seed = seed0 ^ rep.wrapping_mul(0x9E37_79B9_7F4A_7C15);
            f(ctx);
        }
        ctx.seed = seed0;
        ctx.tally(&format!("cpu_ms.{name}"), ((crate::core::thread_cpu_s() - t0) * 1000.0) as u64);
    }
}

// ---------------------------------------------------------------------------------------------
// helpers

const HASHES: [u8; 9] = [1, 2, 3, 8, 9, 10, 11, 12, 14];
const STRONG_HASHES: [u8; 6] = [8, 9, 10, 11, 12, 14];
const AES: [u8; 3] = [7, 8, 9];
const AEADS: [u8; 3] = [1, 2, 3];

fn sym(a: u8) -> SymmetricKeyAlgorithm {
    SymmetricKeyAlgorithm::from(a)
}
fn aead(a: u8) -> AeadAlgorithm {
    AeadAlgorithm::from(a)
}
fn chunk(c: u8) -> ChunkSize {
    ChunkSize::try_from(c).expect("chunk octet 0..=16")
}
fn rbytes(rng: &mut ChaCha8Rng, n: usize) -> Vec<u8> {
    let mut v = vec![0u8; n];
    rng.fill_bytes(&mut v);
    v
}

/// class of a length relative to a unit (block / chunk / buffer size)
fn len_class(n: usize, unit: usize) -> String {
    if n == 0 {
        return "0".into();
    }
    let k = (n / unit).min(4);
    let r = n % unit;
    if r == 0 {
        format!("{k}u")
    } else if r == 1 {
        format!("{k}u+1")
    } else if r == unit - 1 {
        format!("{}u-1", k + 1)
    } else {
        format!("{k}u+mid")
    }
}

#[allow(clippy::too_many_arguments)]
fn cov(
    ctx: &mut Ctx,
    cons: &str,
    cipher: u8,
    aead: u8,
    chunk: u8,
    s2k: u8,
    hash: u8,
    countc: &str,
    lenc: &str,
    dir: &str,
) {
    ctx.cover(&(cons, cipher, aead, chunk, s2k, hash, countc, lenc, dir));
    ctx.seen("constructions", format!("{cons}/{dir}"));
    if cipher != 0 {
        ctx.seen("matrix.construction:cipher", format!("{cons}:{cipher}"));
    }
    if aead != 0 {
        ctx.seen("matrix.construction:aead:chunk", format!("{cons}:{aead}:{chunk}"));
    }
    if hash != 0 || s2k != 0 {
        ctx.seen("matrix.construction:s2k-type:hash", format!("{cons}:{s2k}:{hash}"));
    }
}

/// Runs a piece of library code under panic capture and counts it as one evaluation.
fn lib<T>(ctx: &mut Ctx, sig: &str, replay: &Value, f: impl FnOnce() -> T) -> Option<T> {
    ctx.eval();
    ctx.guarded(sig, || replay.clone(), f)
}

/// Reference literal data packet (binary, empty name, date 0) around `payload`.
fn ref_literal(payload: &[u8]) -> Vec<u8> {
    let mut body = vec![b'b', 0, 0, 0, 0, 0];
    body.extend_from_slice(payload);
    frame(11, &body, &LenForm::NewMin).expect("literal frame")
}

/// Parses an inner packet stream that must consist of exactly one literal packet.
fn parse_literal(inner: &[u8]) -> Result<Vec<u8>, String> {
    let pk = deframe(inner)?;
    if pk.len() != 1 || pk[0].tag != 11 {
        return Err(format!(
            "inner stream is not a single literal packet: tags {:?}",
            pk.iter().map(|p| p.tag).collect::<Vec<_>>()
        ));
    }
    let b = &pk[0].body;
    if b.len() < 6 {
        return Err("literal too short".into());
    }
    let nl = b[1] as usize;
    b.get(2 + nl + 4..).map(|d| d.to_vec()).ok_or_else(|| "literal truncated".to_string())
}

fn ring_sk(sk: PlainSessionKey, opts: DecryptionOptions) -> TheRing<'static> {
    TheRing {
        session_keys: vec![sk],
        decrypt_options: opts,
        ..Default::default()
    }
}

/// Library: parse message bytes, decrypt with the ring, read all data.
fn lib_read_msg(bytes: &[u8], ring: TheRing<'_>) -> Result<Vec<u8>, String> {
    let msg = Message::from_bytes(bytes).map_err(|e| format!("parse: {e}"))?;
    let (mut m, _) = msg.decrypt_the_ring(ring, true).map_err(|e| format!("decrypt: {e}"))?;
    m.as_data_vec().map_err(|e| format!("read: {e}"))
}

fn outer_form(idx: usize, body_len: usize, tag: u8) -> LenForm {
    match idx % 5 {
        0 => LenForm::NewMin,
        1 => LenForm::New5,
        2 if body_len >= 512 => LenForm::Partial(vec![512], Box::new(LenForm::NewMin)),
        3 if tag <= 15 => LenForm::OldIndeterminate,
        4 if tag <= 15 => LenForm::Old4,
        _ => LenForm::NewMin,
    }
}

fn form_name(f: &LenForm) -> &'static str {
    match f {
        LenForm::NewMin => "new",
        LenForm::New5 => "new5",
        LenForm::Partial(..) => "partial",
        LenForm::OldIndeterminate => "old-indet",
        LenForm::Old4 => "old4",
        _ => "other",
    }
}

fn note_hooks(ctx: &mut Ctx, ev: &[hooks::Ev]) {
    for e in ev {
        match e.site {
            "aead.enc.chunk" => ctx.seen("hook.aead.enc.chunk.index", e.a.min(3).to_string()),
            "aead.enc.final" => ctx.seen("hook.aead.enc.final.chunks", e.b.min(3).to_string()),
            "aead.dec.chunk" => ctx.seen("hook.aead.dec.chunk.index", e.a.min(3).to_string()),
            "aead.dec.final" => ctx.seen("hook.aead.dec.final.chunks", e.b.min(3).to_string()),
            "cfb.dec.avail" => ctx.seen("hook.cfb.dec.mode", format!("{}-last{}", e.a, e.c)),
            "cfb.dec.mdc_ok" => ctx.seen("hook.cfb.dec.mdc_ok", "seen"),
            _ => {}
        }
    }
}

// ---------------------------------------------------------------------------------------------
// (4) S2K

fn lib_s2k(r: &RefS2k) -> StringToKey {
    match r {
        RefS2k::Simple { hash } => StringToKey::Simple { hash_alg: HashAlgorithm::from(*hash) },
        RefS2k::Salted { hash, salt } => StringToKey::Salted {
            hash_alg: HashAlgorithm::from(*hash),
            salt: *salt,
        },
        RefS2k::Iterated { hash, salt, count } => StringToKey::IteratedAndSalted {
            hash_alg: HashAlgorithm::from(*hash),
            salt: *salt,
            count: *count,
        },
        RefS2k::Argon2 { salt, t, p, m } => StringToKey::Argon2 {
            salt: *salt,
            t: *t,
            p: *p,
            m_enc: *m,
        },
    }
}

fn s2k_kind(r: &RefS2k) -> (u8, u8, &'static str) {
    match r {
        RefS2k::Simple { hash } => (0, *hash, "simple"),
        RefS2k::Salted { hash, .. } => (1, *hash, "salted"),
        RefS2k::Iterated { hash, .. } => (3, *hash, "iterated"),
        RefS2k::Argon2 { .. } => (4, 0, "argon2"),
    }
}

fn count_class(c: u8) -> String {
    // mantissa class x exponent
    let m = match c & 15 {
        0 => "m0",
        15 => "m15",
        _ => "m",
    };
    format!("{m}e{}", c >> 4)
}

fn s2k_check(ctx: &mut Ctx, r: &RefS2k, pw: &[u8], ks: usize, countc: &str) {
    let (kind, hash, name) = s2k_kind(r);
    let rp = json!({"family": "s2k", "s2k": hexs(&r.encode()), "pw": hexs(pw), "key_size": ks});
    let l = lib_s2k(r);
    let got = lib(ctx, "C12/s2k", &rp, || l.derive_key(pw, ks).map(|k| k.as_ref().to_vec()));
    let Some(got) = got else { return };
    let Some(want) = r.derive(pw, ks) else {
        ctx.inconclusive("reference cannot derive this S2K");
        return;
    };
    let hl = rfc::hash_len(hash).unwrap_or(ks);
    let rounds = if kind == 4 { 1 } else { ks.div_ceil(hl) };
    let pwc = match pw.len() {
        0 => "0".to_string(),
        n if n > 1000 => "long".to_string(),
        n => n.to_string(),
    };
    cov(ctx, "s2k", 0, 0, 0, kind, hash, countc, &format!("ks{ks}r{rounds}pw{pwc}"), "derive");
    ctx.seen("s2k.rounds", rounds.min(3).to_string());
    match got {
        Ok(k) => {
            if k != want {
                let why = if rounds > 1 && k[..hl.min(ks)] == want[..hl.min(ks)] {
                    "later-round"
                } else {
                    "first-round"
                };
                ctx.violation(
                    format!("C12/s2k/derive-mismatch/{name}"),
                    format!(
                        "StringToKey::derive_key differs from RFC 9580 3.7.1 ({why}): s2k={} pwlen={} key_size={} lib={} ref={}",
                        hexs(&r.encode()), pw.len(), ks, hexs(&k), hexs(&want)
                    ),
                    rp,
                );
            }
        }
        Err(e) => ctx.violation(
            format!("C12/s2k/derive-error/{name}"),
            format!("derive_key failed on a specifier the RFC defines: {e}; s2k={}", hexs(&r.encode())),
            rp,
        ),
    }
}

fn s2k_codec_check(ctx: &mut Ctx, r: &RefS2k) {
    let enc = r.encode();
    let l = lib_s2k(r);
    let rp = json!({"family": "s2k-codec", "s2k": hexs(&enc)});
    if let Some(Ok(b)) = lib(ctx, "C12/s2k", &rp, || l.to_bytes()) {
        if b != enc {
            ctx.violation(
                "C12/s2k/encode-mismatch",
                format!("S2K specifier wire form differs: lib={} ref={}", hexs(&b), hexs(&enc)),
                rp.clone(),
            );
        }
    }
    match lib(ctx, "C12/s2k", &rp, || StringToKey::try_from_reader(&enc[..])) {
        Some(Ok(p)) if p == l => {}
        Some(other) => ctx.violation(
            "C12/s2k/decode-mismatch",
            format!("S2K specifier {} parsed as {:?}", hexs(&enc), other.map(|s| format!("{s:?}"))),
            rp,
        ),
        None => {}
    }
}

fn fam_s2k(ctx: &mut Ctx) {
    let pwlens: [usize; 7] = [0, 1, 8, 55, 56, 64, 200];
    let long_pw: [usize; 3] = [1016, 1017, 2000];
    let key_sizes = [16usize, 24, 32];

    // simple + salted + iterated with small counts: full matrix hash x key size x password length
    let small_counts: Vec<u8> = if ctx.quick() {
        (0u8..=0x4F).chain([96, 111]).collect()
    } else {
        (0u8..=0x8F).collect()
    };
    for (hi, &h) in HASHES.iter().enumerate() {
        // --- simple, salted
        if ctx.mine() {
            describe_case(&format!("s2k simple/salted hash {h}"));
            let mut rng = ctx.rng("s2k.ss", hi as u64);
            s2k_codec_check(ctx, &RefS2k::Simple { hash: h });
            for &ks in &key_sizes {
                for &pl in pwlens.iter().chain(long_pw.iter().take(1)) {
                    let pw = rbytes(&mut rng, pl);
                    s2k_check(ctx, &RefS2k::Simple { hash: h }, &pw, ks, "-");
                    let salt: [u8; 8] = rng.gen();
                    let r = RefS2k::Salted { hash: h, salt };
                    s2k_check(ctx, &r, &pw, ks, "-");
                    if pl == 8 && ks == 16 {
                        s2k_codec_check(ctx, &r);
                    }
                }
            }
        }
        // --- iterated, small counts
        for (ci, chunk_) in small_counts.chunks(8).enumerate() {
            if !ctx.mine() {
                continue;
            }
            describe_case(&format!("s2k iterated hash {h} counts {chunk_:?}"));
            let mut rng = ctx.rng("s2k.it", (hi * 1000 + ci) as u64);
            for &c in chunk_ {
                let salt: [u8; 8] = rng.gen();
                let r = RefS2k::Iterated { hash: h, salt, count: c };
                s2k_codec_check(ctx, &r);
                for &ks in &key_sizes {
                    for &pl in pwlens.iter() {
                        let pw = rbytes(&mut rng, pl);
                        s2k_check(ctx, &r, &pw, ks, &count_class(c));
                    }
                }
                // salt+password longer than / equal to the decoded count
                if c <= 17 {
                    for &pl in &long_pw {
                        let pw = rbytes(&mut rng, pl);
                        s2k_check(ctx, &r, &pw, key_sizes[(c as usize + pl) % 3], &count_class(c));
                    }
                }
            }
        }
    }
    // --- iterated, large counts (rationed: one key size / password per case)
    let big_counts: Vec<u8> = if ctx.quick() {
        vec![128, 143, 160, 224, 255]
    } else {
        (0x90u8..=0xFF).collect()
    };
    let big_ks: &[usize] = if ctx.quick() { &[32] } else { &[16, 24, 32] };
    let npw = ctx.qt(1usize, 2usize);
    for (hi, &h) in HASHES.iter().enumerate() {
        for &c in &big_counts {
            for &ks in big_ks {
                if !ctx.mine() {
                    continue;
                }
                describe_case(&format!("s2k iterated hash {h} count {c} ks {ks}"));
                let mut rng = ctx.rng("s2k.big", (hi * 100000 + c as usize * 100 + ks) as u64);
                for k in 0..npw {
                    let salt: [u8; 8] = rng.gen();
                    let pl = pwlens[(c as usize + hi + ks + 3 * k) % pwlens.len()];
                    let pw = rbytes(&mut rng, pl);
                    s2k_check(ctx, &RefS2k::Iterated { hash: h, salt, count: c }, &pw, ks, &count_class(c));
                }
            }
        }
    }
    // --- Argon2 (cheap parameters, 8p <= 2^m)
    let mut idx = 0u64;
    for t in 1u8..=3 {
        for p in [1u8, 2, 3, 4] {
            let m_min = 3 + (p as f32).log2().ceil() as u8;
            let m_max = ctx.qt(m_min + 2, 10);
            for m in m_min..=m_max {
                idx += 1;
                if !ctx.mine() {
                    continue;
                }
                describe_case(&format!("s2k argon2 t{t} p{p} m{m}"));
                let mut rng = ctx.rng("s2k.argon", idx);
                let salt: [u8; 16] = rng.gen();
                let r = RefS2k::Argon2 { salt, t, p, m };
                s2k_codec_check(ctx, &r);
                for &ks in &key_sizes {
                    for pl in [0usize, 8, 200] {
                        let pw = rbytes(&mut rng, pl);
                        s2k_check(ctx, &r, &pw, ks, &format!("t{t}p{p}m{m}"));
                    }
                }
            }
        }
    }
    // --- unknown hash ids must be refused, never silently mapped
    if ctx.mine() {
        for h in [0u8, 4, 5, 6, 7, 13, 15, 100, 110] {
            let l = StringToKey::Simple { hash_alg: HashAlgorithm::from(h) };
            let rp = json!({"family": "s2k-unknown-hash", "hash": h});
            if let Some(Ok(k)) = lib(ctx, "C12/s2k", &rp, || l.derive_key(b"pw", 16).map(|k| k.as_ref().to_vec())) {
                ctx.violation(
                    "C12/s2k/unknown-hash-derives",
                    format!("derive_key with undefined hash id {h} returned a key {}", hexs(&k)),
                    rp,
                );
            }
            ctx.tally("s2k.unknown_hash_refused", 1);
        }
    }
}

// placeholders, filled in below
// ---------------------------------------------------------------------------------------------
// (1) OpenPGP CFB at the raw API: encrypt_protected / stream_encryptor / stream_decryptor_* /
// encrypt (SED) / *_with_iv_regular against the reference, arbitrary plaintext, exact lengths.

fn cfb_lengths(bs: usize, quick: bool) -> Vec<usize> {
    let mut v: Vec<usize> = (0..=2 * bs + 2).collect();
    v.extend([3 * bs - 1, 3 * bs, 100, 1000]);
    let kmax = if quick { 2 } else { 6 };
    for k in 1..=kmax {
        // 8192-byte buffers of the stream encryptor (plaintext side) and decryptor (ciphertext
        // side, 22 octets of MDC held back)
        for d in [-23i64, -22, -21, -2, -1, 0, 1, 2] {
            v.push((8192 * k as i64 + d) as usize);
        }
    }
    v.sort_unstable();
    v.dedup();
    v
}

fn fam_cfb_raw(ctx: &mut Ctx) {
    let scheds = |seed: u64| -> [Sched; 4] {
        [Sched::All, Sched::Fixed(1), Sched::Cycle(vec![8191, 1, 2]), Sched::Random(seed, 9000)]
    };
    let consumers = [Consume::ToEnd, Consume::Read(1), Consume::Read(8192), Consume::Read(777)];
    for &alg in rfc::sym::ALL_CIPHERS.iter() {
        let bs = rfc::sym::block_size(alg).unwrap();
        let ks = rfc::sym::key_size(alg).unwrap();
        let lens = cfb_lengths(bs, ctx.quick());
        for (gi, group) in lens.chunks(12).enumerate() {
            if !ctx.mine() {
                continue;
            }
            describe_case(&format!("cfb raw alg {alg} lens {group:?}"));
            for &n in group {
                let mut rng = ctx.rng("cfb.raw", (alg as u64) << 32 | n as u64);
                let key = rbytes(&mut rng, ks);
                let pt = rbytes(&mut rng, n);
                let seed: u64 = rng.gen();
                let lrng = rng.clone(); // the generator handed to the library
                let prefix = rbytes(&mut rng, bs); // what the library will draw from it
                let rp = json!({"family": "cfb-raw", "alg": alg, "len": n, "key": hexs(&key), "prefix": hexs(&prefix), "pt": hexs(&pt)});
                let lc = len_class(n, if n >= 4096 { 8192 } else { bs });
                let a = sym(alg);
                let want = rfc::sym::seipd_v1_encrypt(alg, &key, &prefix, &pt).expect("ref seipd1");

                // (a) one-shot protected encryption: byte identical
                cov(ctx, "seipd1-raw", alg, 0, 0, 0, 0, "-", &lc, "lib->ref");
                if let Some(r) = lib(ctx, "C12/seipd1/raw", &rp, || a.encrypt_protected(lrng.clone(), &key, &pt)) {
                    match r {
                        Ok(ct) if ct == want => {}
                        Ok(ct) => {
                            let sym_ = match rfc::sym::seipd_v1_decrypt(alg, &key, &ct) {
                                Ok(p) if p == pt => "other-prefix",
                                Ok(_) => "wrong-plaintext",
                                Err(rfc::sym::V1Error::Mdc) => "mdc",
                                Err(rfc::sym::V1Error::QuickCheck) => "quick-check",
                                Err(_) => "undecryptable",
                            };
                            if sym_ == "other-prefix" {
                                ctx.inconclusive("library drew the CFB prefix differently from the generator than assumed");
                            } else {
                                ctx.violation(
                                    format!("C12/seipd1/raw/encrypt_protected/{sym_}"),
                                    format!("encrypt_protected output is not the RFC 9580 5.13.1 ciphertext (alg {alg}, len {n}): reference says {sym_}"),
                                    rp.clone(),
                                );
                            }
                        }
                        Err(e) => ctx.violation("C12/seipd1/raw/encrypt_protected/error", format!("{e}"), rp.clone()),
                    }
                }
                // (b) streaming encryptor under a source schedule and a consumer pattern
                let sc = scheds(seed)[(n + alg as usize) % 4].clone();
                let cons = &consumers[(n / 3 + alg as usize) % 4];
                if let Some(r) = lib(ctx, "C12/seipd1/raw", &rp, || {
                    a.stream_encryptor(lrng.clone(), &key, SchedReader::new(pt.clone(), sc.clone()))
                        .map(|mut e| drain_read(&mut e, cons))
                }) {
                    match r {
                        Ok(d) if d.err.is_none() && d.data == want => {}
                        Ok(d) => {
                            let sym_ = if d.err.is_some() {
                                "io-error"
                            } else if d.data.len() != want.len() {
                                "length"
                            } else {
                                match rfc::sym::seipd_v1_decrypt(alg, &key, &d.data) {
                                    Ok(p) if p == pt => "other-prefix",
                                    Ok(_) => "wrong-plaintext",
                                    Err(rfc::sym::V1Error::Mdc) => "mdc",
                                    Err(_) => "undecryptable",
                                }
                            };
                            if sym_ == "other-prefix" {
                                ctx.inconclusive("library drew the CFB prefix differently from the generator than assumed");
                            } else {
                                ctx.violation(
                                    format!("C12/seipd1/raw/stream_encryptor/{sym_}"),
                                    format!("stream_encryptor output is not the RFC ciphertext (alg {alg}, len {n}, source {}, consumer {cons:?}): got {} bytes, want {}", sc.name(), d.data.len(), want.len()),
                                    rp.clone(),
                                );
                            }
                        }
                        Err(e) => ctx.violation("C12/seipd1/raw/stream_encryptor/error", format!("{e}"), rp.clone()),
                    }
                }
                // (c) reference ciphertext through the library's protected stream decryptor, both modes
                for (mi, mode) in [Seipdv1ReadMode::default(), Seipdv1ReadMode::Streaming].into_iter().enumerate() {
                    cov(ctx, "seipd1-raw", alg, 0, 0, 0, 0, if mi == 0 { "checkfirst" } else { "streaming" }, &lc, "ref->lib");
                    let r = lib(ctx, "C12/seipd1/raw", &rp, || {
                        hooks::record(|| {
                            a.stream_decryptor_protected(mode, &key, &want[..]).map_err(|e| e.to_string()).and_then(|mut d| {
                                let mut out = vec![];
                                d.read_to_end(&mut out).map_err(|e| e.to_string())?;
                                Ok(out)
                            })
                        })
                    });
                    let Some((r, ev)) = r else { continue };
                    note_hooks(ctx, &ev);
                    match r {
                        Ok(out) if out == pt => {}
                        Ok(_) => ctx.violation("C12/seipd1/raw/ref-to-lib/wrong-plaintext", format!("alg {alg} len {n} mode {mi}"), rp.clone()),
                        Err(e) => ctx.violation(
                            "C12/seipd1/raw/ref-to-lib/rejected",
                            format!("library rejects the reference SEIPDv1 ciphertext (alg {alg}, len {n}, mode {mi}): {e}"),
                            rp.clone(),
                        ),
                    }
                }
                // (c2) the accepting side: streams made by a key holder that deviate from RFC 9580 5.13.1 in exactly
                // one element of the construction must be refused (both read modes)
                if n <= 64 || n % 7 == 0 {
                    let near_misses: Vec<(&str, Vec<u8>)> = {
                        let mut v = vec![];
                        let build = |hdr: [u8; 2], hash_from: usize, hash_hdr: bool| -> Option<Vec<u8>> {
                            let mut p = prefix.clone();
                            p.push(prefix[bs - 2]);
                            p.push(prefix[bs - 1]);
                            p.extend_from_slice(&pt);
                            let mut hashed = p[hash_from..].to_vec();
                            if hash_hdr {
                                hashed.extend_from_slice(&hdr);
                            }
                            let h = rfc::hash(2, &[&hashed])?;
                            p.extend_from_slice(&hdr);
                            p.extend(h);
                            rfc::sym::cfb_encrypt(alg, &key, &vec![0u8; bs], &mut p)?;
                            Some(p)
                        };
                        for (name, hdr, from, hh) in [
                            ("mdc-tag-octet-d4", [0xD4u8, 0x14u8], 0usize, true),
                            ("mdc-tag-octet-53", [0x53, 0x14], 0, true),
                            ("mdc-length-octet-13", [0xD3, 0x13], 0, true),
                            ("mdc-length-octet-00", [0xD3, 0x00], 0, true),
                            ("digest-without-mdc-header", [0xD3, 0x14], 0, false),
                            ("digest-without-prefix", [0xD3, 0x14], bs + 2, true),
                            ("digest-without-prefix-repeat", [0xD3, 0x14], 2, true),
                        ] {
                            if let Some(c) = build(hdr, from, hh) {
                                v.push((name, c));
                            }
                        }
                        v
                    };
                    for (name, ct) in near_misses {
                        if rfc::sym::seipd_v1_decrypt(alg, &key, &ct).is_ok() {
                            ctx.inconclusive("reference accepts its own near miss");
                            continue;
                        }
                        for (mi, mode) in [Seipdv1ReadMode::default(), Seipdv1ReadMode::Streaming].into_iter().enumerate() {
                            cov(ctx, "seipd1-raw", alg, 0, 0, 0, 0, "near-miss", &lc, "ref->lib");
                            let r = lib(ctx, "C12/seipd1/raw", &rp, || {
                                a.stream_decryptor_protected(mode, &key, &ct[..]).map_err(|e| e.to_string()).and_then(|mut d| {
                                    let mut out = vec![];
                                    d.read_to_end(&mut out).map_err(|e| e.to_string())?;
                                    Ok(out)
                                })
                            });
                            ctx.seen("seipd1.near-miss", name);
                            if let Some(Ok(_)) = r {
                                ctx.violation(
                                    format!("C12/seipd1/raw/accepts-non-rfc-stream/{name}"),
                                    format!("the library's SEIPDv1 decryptor (alg {alg}, len {n}, mode {mi}) read a stream to a clean end that is not an RFC 9580 5.13.1 stream: {name}"),
                                    json!({"base": rp, "deviation": name, "ciphertext": hexs(&ct)}),
                                );
                            }
                        }
                    }
                }
                // (d) SED (tag 9, resynchronising CFB)
                let want_sed = rfc::sym::sed_encrypt(alg, &key, &prefix, &pt).expect("ref sed");
                cov(ctx, "sed-raw", alg, 0, 0, 0, 0, "-", &lc, "lib->ref");
                if let Some(r) = lib(ctx, "C12/sed/raw", &rp, || a.encrypt(lrng.clone(), &key, &pt)) {
                    match r {
                        Ok(ct) if ct == want_sed => {}
                        Ok(ct) => {
                            let ok = rfc::sym::sed_decrypt(alg, &key, &ct).as_deref() == Some(&pt[..]);
                            ctx.violation(
                                format!("C12/sed/raw/encrypt/{}", if ok { "prefix-differs" } else { "undecryptable" }),
                                format!("SymmetricKeyAlgorithm::encrypt is not the RFC 4880 5.7 resync-CFB ciphertext (alg {alg}, len {n})"),
                                rp.clone(),
                            );
                        }
                        Err(e) => ctx.violation("C12/sed/raw/encrypt/error", format!("{e}"), rp.clone()),
                    }
                }
                cov(ctx, "sed-raw", alg, 0, 0, 0, 0, "-", &lc, "ref->lib");
                if let Some((r, ev)) = lib(ctx, "C12/sed/raw", &rp, || {
                    hooks::record(|| {
                        a.stream_decryptor_unprotected(&key, &want_sed[..]).map_err(|e| e.to_string()).and_then(|mut d| {
                            let mut out = vec![];
                            d.read_to_end(&mut out).map_err(|e| e.to_string())?;
                            Ok(out)
                        })
                    })
                }) {
                    note_hooks(ctx, &ev);
                    match r {
                        Ok(out) if out == pt => {}
                        Ok(_) => ctx.violation("C12/sed/raw/ref-to-lib/wrong-plaintext", format!("alg {alg} len {n}"), rp.clone()),
                        Err(e) => ctx.violation("C12/sed/raw/ref-to-lib/rejected", format!("alg {alg} len {n}: {e}"), rp.clone()),
                    }
                }
                // (e) plain CFB with explicit IV (SKESK v4, secret key protection)
                let iv = rbytes(&mut rng, bs);
                let mut w = pt.clone();
                rfc::sym::cfb_encrypt(alg, &key, &iv, &mut w).expect("ref cfb");
                cov(ctx, "cfb-iv", alg, 0, 0, 0, 0, "-", &lc, "both");
                let mut buf = pt.clone();
                if let Some(r) = lib(ctx, "C12/cfb-iv", &rp, || a.encrypt_with_iv_regular(&key, &iv, &mut buf)) {
                    if r.is_err() || buf != w {
                        ctx.violation("C12/cfb-iv/encrypt-differs", format!("encrypt_with_iv_regular alg {alg} len {n} iv {} -> {:?}", hexs(&iv), r.err().map(|e| e.to_string())), rp.clone());
                    }
                }
                let mut buf = w.clone();
                if let Some(r) = lib(ctx, "C12/cfb-iv", &rp, || a.decrypt_with_iv_regular(&key, &iv, &mut buf)) {
                    if r.is_err() || buf != pt {
                        ctx.violation("C12/cfb-iv/decrypt-differs", format!("decrypt_with_iv_regular alg {alg} len {n} iv {}", hexs(&iv)), rp.clone());
                    }
                }
            }
            if gi == 0 && alg == 9 {
                ctx.sample(json!({"family": "cfb-raw", "alg": alg, "lengths": group}));
            }
        }
    }
}
// ---------------------------------------------------------------------------------------------
// (1) SEIPDv1 / SED at the message API

fn msg_payload_lengths(bs: usize, dense: bool) -> Vec<usize> {
    let mut v = vec![0usize, 1, bs - 1, bs, bs + 1, 2 * bs, 100, 185, 186, 187];
    if dense {
        // inner stream = literal header (9 octets for these sizes) + payload, around 8192 and 16384
        v.extend(8192 - 12..=8192 - 6);
        v.extend([8192 - 1, 8192, 8192 + 1, 16384 - 10, 16384 - 9, 16384 - 8, 16384 + 7]);
    } else {
        v.extend([8192 - 10, 8192 - 9, 8192 - 8, 16384 - 9]);
    }
    v
}

fn fam_seipd1_msg(ctx: &mut Ctx) {
    for &alg in rfc::sym::ALL_CIPHERS.iter() {
        let bs = rfc::sym::block_size(alg).unwrap();
        let ks = rfc::sym::key_size(alg).unwrap();
        let dense = !ctx.quick() || alg == 7 || alg == 3;
        let lens = msg_payload_lengths(bs, dense);
        for (gi, group) in lens.chunks(6).enumerate() {
            if !ctx.mine() {
                continue;
            }
            describe_case(&format!("seipd1 msg alg {alg} lens {group:?}"));
            for (li, &n) in group.iter().enumerate() {
                let mut rng = ctx.rng("seipd1.msg", (alg as u64) << 32 | n as u64);
                let key = rbytes(&mut rng, ks);
                let payload = rbytes(&mut rng, n);
                let rp = json!({"family": "seipd1-msg", "alg": alg, "len": n, "key": hexs(&key), "payload": hexs(&payload)});
                let lc = len_class(n + 9, if n >= 4096 { 8192 } else { bs });

                // ---- library -> reference, fixed-length source and reader source (partial bodies)
                for from_reader in [false, true] {
                    let dir = if from_reader { "lib(reader)->ref" } else { "lib->ref" };
                    cov(ctx, "seipd1", alg, 0, 0, 0, 0, "-", &lc, dir);
                    let r = lib(ctx, "C12/seipd1/lib-to-ref", &rp, || {
                        let sk = RawSessionKey::from(key.clone());
                        if from_reader {
                            let mut b = MessageBuilder::from_reader("", &payload[..]).seipd_v1(rng.clone(), sym(alg));
                            b.set_session_key(sk)?;
                            b.to_vec(rng.clone())
                        } else {
                            let mut b = MessageBuilder::from_bytes("", payload.clone()).seipd_v1(rng.clone(), sym(alg));
                            b.set_session_key(sk)?;
                            b.to_vec(rng.clone())
                        }
                    });
                    let Some(r) = r else { continue };
                    let out = match r {
                        Ok(o) => o,
                        Err(e) => {
                            ctx.violation("C12/seipd1/lib-to-ref/build-error", format!("alg {alg} len {n}: {e}"), rp.clone());
                            continue;
                        }
                    };
                    let verdict = (|| -> Result<(), (&'static str, String)> {
                        let pk = deframe(&out).map_err(|e| ("framing", e))?;
                        if pk.len() != 1 || pk[0].tag != 18 || pk[0].body.first() != Some(&1) {
                            return Err(("framing", format!("expected one SEIPDv1 packet, got tags {:?}", pk.iter().map(|p| p.tag).collect::<Vec<_>>())));
                        }
                        let inner = rfc::sym::seipd_v1_decrypt(alg, &key, &pk[0].body[1..]).map_err(|e| {
                            (
                                match e {
                                    rfc::sym::V1Error::Mdc => "mdc",
                                    rfc::sym::V1Error::QuickCheck => "quick-check",
                                    _ => "undecryptable",
                                },
                                format!("{e:?}"),
                            )
                        })?;
                        let got = parse_literal(&inner).map_err(|e| ("inner-stream", e))?;
                        if got != payload {
                            return Err(("wrong-plaintext", format!("{} vs {} bytes", got.len(), payload.len())));
                        }
                        Ok(())
                    })();
                    if let Err((s, d)) = verdict {
                        ctx.violation(
                            format!("C12/seipd1/lib-to-ref/{s}"),
                            format!("reference cannot read the library's SEIPDv1 message (alg {alg}, payload {n}, reader source {from_reader}): {d}"),
                            rp.clone(),
                        );
                    }
                }

                // ---- reference -> library
                let inner = ref_literal(&payload);
                let prefix = rbytes(&mut rng, bs);
                let ct = rfc::sym::seipd_v1_encrypt(alg, &key, &prefix, &inner).expect("ref seipd1");
                let mut body = vec![1u8];
                body.extend(ct);
                let form = outer_form(gi + li + alg as usize, body.len(), 18);
                let bytes = frame(18, &body, &form).expect("frame 18");
                for (mi, mode) in [Seipdv1ReadMode::default(), Seipdv1ReadMode::Streaming].into_iter().enumerate() {
                    cov(ctx, "seipd1", alg, 0, 0, 0, 0, form_name(&form), &lc, if mi == 0 { "ref->lib(checkfirst)" } else { "ref->lib(streaming)" });
                    let r = lib(ctx, "C12/seipd1/ref-to-lib", &rp, || {
                        hooks::record(|| {
                            let sk = PlainSessionKey::V3_4 { sym_alg: sym(alg), key: RawSessionKey::from(key.clone()) };
                            lib_read_msg(&bytes, ring_sk(sk, DecryptionOptions::new().set_seipdv1_read_mode(mode)))
                        })
                    });
                    let Some((r, ev)) = r else { continue };
                    note_hooks(ctx, &ev);
                    match r {
                        Ok(d) if d == payload => {}
                        Ok(d) => ctx.violation("C12/seipd1/ref-to-lib/wrong-plaintext", format!("alg {alg} len {n}: got {} bytes", d.len()), rp.clone()),
                        Err(e) => ctx.violation(
                            "C12/seipd1/ref-to-lib/rejected",
                            format!("library rejects a reference-made SEIPDv1 message (alg {alg}, payload {n}, framing {}, mode {mi}): {e}", form_name(&form)),
                            rp.clone(),
                        ),
                    }
                }

                // ---- SED: reference -> library (legacy option)
                let sed = rfc::sym::sed_encrypt(alg, &key, &prefix, &inner).expect("ref sed");
                let form = outer_form(gi + li + alg as usize + 3, sed.len(), 9);
                let bytes = frame(9, &sed, &form).expect("frame 9");
                cov(ctx, "sed", alg, 0, 0, 0, 0, form_name(&form), &lc, "ref->lib");
                let r = lib(ctx, "C12/sed/ref-to-lib", &rp, || {
                    let sk = PlainSessionKey::V3_4 { sym_alg: sym(alg), key: RawSessionKey::from(key.clone()) };
                    lib_read_msg(&bytes, ring_sk(sk, DecryptionOptions::new().enable_legacy()))
                });
                match r {
                    Some(Ok(d)) if d == payload => {}
                    Some(Ok(d)) => ctx.violation("C12/sed/ref-to-lib/wrong-plaintext", format!("alg {alg} len {n}: got {} bytes", d.len()), rp.clone()),
                    Some(Err(e)) => ctx.violation(
                        "C12/sed/ref-to-lib/rejected",
                        format!("library (legacy enabled) rejects a reference-made SED message (alg {alg}, payload {n}, framing {}): {e}", form_name(&form)),
                        rp.clone(),
                    ),
                    None => {}
                }
                if alg == 9 && n == 186 {
                    ctx.sample(json!({"family": "seipd1-msg", "alg": alg, "payload_len": n, "key": hexs(&key), "reference_message": hexs(&bytes)}));
                }
            }
        }
    }
}
// ---------------------------------------------------------------------------------------------
// (2) SEIPDv2

fn v2err_sym(e: &rfc::sym::V2Error) -> &'static str {
    match e {
        rfc::sym::V2Error::Auth(0) => "chunk0-auth",
        rfc::sym::V2Error::Auth(_) => "later-chunk-auth",
        rfc::sym::V2Error::FinalTag => "final-tag",
        rfc::sym::V2Error::Malformed => "malformed",
        rfc::sym::V2Error::Unsupported => "unsupported",
    }
}

/// Judges a library-made SEIPDv2 packet body against the reference. `want_inner` is the expected
/// plaintext of the container. Returns Err((symptom, detail)).
fn judge_v2_body(body: &[u8], s: u8, a: u8, co: u8, sk: &[u8], want_inner: &[u8]) -> Result<(), (&'static str, String)> {
    if body.len() < 36 + 16 || body[..4] != [2, s, a, co] {
        return Err(("header", format!("header octets {}", hexs(&body[..body.len().min(4)]))));
    }
    let mut salt = [0u8; 32];
    salt.copy_from_slice(&body[4..36]);
    // message key / IV through the first chunk
    let (mk, iv) = rfc::sym::seipd_v2_keys(s, a, co, &salt, sk).ok_or(("unsupported", String::new()))?;
    let cs = 1usize << (co as usize + 6);
    if !want_inner.is_empty() {
        let first_len = want_inner.len().min(cs) + 16;
        let mut nonce = iv.clone();
        nonce.extend([0u8; 8]);
        let first = body.get(36..36 + first_len).ok_or(("length", "first chunk missing".to_string()))?;
        match rfc::sym::aead_open(s, a, &mk, &nonce, &[0xD2, 2, s, a, co], first) {
            Some(Ok(p)) if p == want_inner[..first_len - 16] => {}
            Some(Ok(_)) => return Err(("wrong-plaintext", "first chunk".into())),
            _ => return Err(("chunk0-auth", "first chunk does not open under HKDF(salt, session key, info=D2 02 sym aead chunk) key/IV, nonce = IV || be64(0), AD = info".into())),
        }
    }
    let inner = rfc::sym::seipd_v2_decrypt(body, sk).map_err(|e| (v2err_sym(&e), format!("{e:?}")))?;
    if inner != want_inner {
        return Err(("wrong-plaintext", format!("{} vs {} octets", inner.len(), want_inner.len())));
    }
    let again = rfc::sym::seipd_v2_encrypt(s, a, co, &salt, sk, &inner).ok_or(("unsupported", String::new()))?;
    if again != body {
        return Err(("bytes-differ", format!("reference re-encryption under the same salt differs ({} vs {} octets)", again.len(), body.len())));
    }
    Ok(())
}

fn v2_lengths(cs: usize, full: bool) -> Vec<usize> {
    if full {
        let mut v = vec![0, 1, cs - 1, cs, cs + 1, 2 * cs - 1, 2 * cs, 2 * cs + 1, 3 * cs - 1, 3 * cs, 3 * cs + 5, 2 * (cs + 16), 4 * (cs + 16) - 16];
        if cs == 64 {
            v.push(cs * 258 + 3); // chunk index needs a second octet of the big-endian counter
        }
        v
    } else {
        vec![cs - 1, cs, 2 * cs + 1, 3 * cs]
    }
}

fn fam_seipd2_raw(ctx: &mut Ctx) {
    // every chunk-size octet in both tiers; the quick tier runs the large ones (512 KiB .. 4 MiB, the RFC's upper
    // limit) with one cipher / AEAD pairing each, in rotation
    let quick = ctx.quick();
    for (si, &s) in AES.iter().enumerate() {
        for (ai, &a) in AEADS.iter().enumerate() {
            for co in 0..=16u8 {
                if quick && co > 8 && (si * 3 + ai) != (co as usize % 9) {
                    continue;
                }
                if !ctx.mine() {
                    continue;
                }
                describe_case(&format!("seipd2 raw sym {s} aead {a} chunk {co}"));
                let cs = 1usize << (co as usize + 6);
                let full = if ctx.quick() { co <= 6 } else { co <= 12 };
                let ks = rfc::sym::key_size(s).unwrap();
                for &n in &v2_lengths(cs, full) {
                    let mut rng = ctx.rng("seipd2.raw", ((s as u64) << 40) | ((a as u64) << 32) | ((co as u64) << 24) ^ n as u64);
                    let key = rbytes(&mut rng, ks);
                    let pt = rbytes(&mut rng, n);
                    let rp = json!({"family": "seipd2-raw", "sym": s, "aead": a, "chunk": co, "len": n, "key": hexs(&key), "pt": hexs(&pt[..n.min(256)])});
                    let lc = len_class(n, cs);
                    // library -> reference
                    cov(ctx, "seipd2-raw", s, a, co, 0, 0, "-", &lc, "lib->ref");
                    let r = lib(ctx, "C12/seipd2/raw", &rp, || {
                        hooks::record(|| {
                            SymEncryptedProtectedData::encrypt_seipdv2(rng.clone(), sym(s), aead(a), chunk(co), &key, &pt).and_then(|p| p.to_bytes())
                        })
                    });
                    if let Some((r, ev)) = r {
                        note_hooks(ctx, &ev);
                        match r {
                            Ok(body) => {
                                if let Err((sy, d)) = judge_v2_body(&body, s, a, co, &key, &pt) {
                                    ctx.violation(
                                        format!("C12/seipd2/raw/lib-to-ref/{sy}"),
                                        format!("library SEIPDv2 body is not the RFC 9580 5.13.2 ciphertext (sym {s}, aead {a}, chunk octet {co}, len {n}): {d}"),
                                        rp.clone(),
                                    );
                                }
                            }
                            Err(e) => ctx.violation("C12/seipd2/raw/lib-to-ref/error", format!("{e}"), rp.clone()),
                        }
                    }
                    // reference -> library
                    let salt: [u8; 32] = rng.gen();
                    let body = rfc::sym::seipd_v2_encrypt(s, a, co, &salt, &key, &pt).expect("ref seipd2");
                    cov(ctx, "seipd2-raw", s, a, co, 0, 0, "-", &lc, "ref->lib");
                    let r = lib(ctx, "C12/seipd2/raw", &rp, || {
                        hooks::record(|| {
                            SymEncryptedProtectedData::try_from_reader(
                                PacketHeader::new_fixed(Tag::SymEncryptedProtectedData, body.len() as u32),
                                &body[..],
                            )
                            .and_then(|p| p.decrypt(&key, None, Seipdv1ReadMode::default()))
                        })
                    });
                    if let Some((r, ev)) = r {
                        note_hooks(ctx, &ev);
                        match r {
                            Ok(out) if out == pt => {}
                            Ok(out) => ctx.violation("C12/seipd2/raw/ref-to-lib/wrong-plaintext", format!("sym {s} aead {a} chunk {co} len {n}: got {} octets", out.len()), rp.clone()),
                            Err(e) => ctx.violation(
                                "C12/seipd2/raw/ref-to-lib/rejected",
                                format!("library rejects the reference SEIPDv2 body (sym {s}, aead {a}, chunk octet {co}, len {n}): {e}"),
                                rp.clone(),
                            ),
                        }
                    }
                }
                if s == 9 && a == 2 && co == 0 {
                    ctx.sample(json!({"family": "seipd2-raw", "sym": s, "aead": a, "chunk_octet": co, "lengths": v2_lengths(cs, full)}));
                }
            }
        }
    }
}

/// payload length whose literal packet is exactly `target` octets long (None if unreachable)
fn payload_for_inner(target: usize) -> Option<usize> {
    for hdr in [2usize, 3, 6] {
        if target < hdr + 6 {
            continue;
        }
        let n = target - hdr - 6;
        if ref_literal(&vec![0u8; n]).len() == target {
            return Some(n);
        }
    }
    None
}

fn fam_seipd2_msg(ctx: &mut Ctx) {
    let chunks: Vec<u8> = if ctx.quick() { vec![0, 2, 6] } else { (0u8..=12).collect() };
    for &s in &AES {
        for &a in &AEADS {
            for &co in &chunks {
                if !ctx.mine() {
                    continue;
                }
                describe_case(&format!("seipd2 msg sym {s} aead {a} chunk {co}"));
                let cs = 1usize << (co as usize + 6);
                let ks = rfc::sym::key_size(s).unwrap();
                let mut targets = vec![8usize, cs - 1, cs, cs + 1, 2 * cs, 2 * cs + 1, 3 * cs - 1, 3 * cs];
                targets.retain(|t| *t >= 8);
                targets.dedup();
                for (ti, &t) in targets.iter().enumerate() {
                    let Some(n) = payload_for_inner(t) else { continue };
                    let mut rng = ctx.rng("seipd2.msg", ((s as u64) << 40) | ((a as u64) << 32) | ((co as u64) << 24) ^ t as u64);
                    let key = rbytes(&mut rng, ks);
                    let payload = rbytes(&mut rng, n);
                    let rp = json!({"family": "seipd2-msg", "sym": s, "aead": a, "chunk": co, "payload_len": n, "key": hexs(&key), "payload": hexs(&payload[..n.min(256)])});
                    let lc = len_class(t, cs);
                    for from_reader in [false, true] {
                        let dir = if from_reader { "lib(reader)->ref" } else { "lib->ref" };
                        cov(ctx, "seipd2", s, a, co, 0, 0, "-", &lc, dir);
                        let r = lib(ctx, "C12/seipd2/lib-to-ref", &rp, || {
                            let sk = RawSessionKey::from(key.clone());
                            if from_reader {
                                let mut b = MessageBuilder::from_reader("", &payload[..]).seipd_v2(rng.clone(), sym(s), aead(a), chunk(co));
                                b.set_session_key(sk)?;
                                b.to_vec(rng.clone())
                            } else {
                                let mut b = MessageBuilder::from_bytes("", payload.clone()).seipd_v2(rng.clone(), sym(s), aead(a), chunk(co));
                                b.set_session_key(sk)?;
                                b.to_vec(rng.clone())
                            }
                        });
                        let Some(r) = r else { continue };
                        let out = match r {
                            Ok(o) => o,
                            Err(e) => {
                                ctx.violation("C12/seipd2/lib-to-ref/build-error", format!("sym {s} aead {a} chunk {co} payload {n}: {e}"), rp.clone());
                                continue;
                            }
                        };
                        let verdict = (|| -> Result<(), (&'static str, String)> {
                            let pk = deframe(&out).map_err(|e| ("framing", e))?;
                            if pk.len() != 1 || pk[0].tag != 18 {
                                return Err(("framing", format!("tags {:?}", pk.iter().map(|p| p.tag).collect::<Vec<_>>())));
                            }
                            let inner = rfc::sym::seipd_v2_decrypt(&pk[0].body, &key).map_err(|e| (v2err_sym(&e), format!("{e:?}")))?;
                            let got = parse_literal(&inner).map_err(|e| ("inner-stream", e))?;
                            if got != payload {
                                return Err(("wrong-plaintext", format!("{} vs {} octets", got.len(), payload.len())));
                            }
                            judge_v2_body(&pk[0].body, s, a, co, &key, &inner)
                        })();
                        if let Err((sy, d)) = verdict {
                            ctx.violation(
                                format!("C12/seipd2/lib-to-ref/{sy}"),
                                format!("reference cannot read the library's SEIPDv2 message (sym {s}, aead {a}, chunk octet {co}, payload {n}, reader source {from_reader}): {d}"),
                                rp.clone(),
                            );
                        }
                    }
                    // reference -> library
                    let inner = ref_literal(&payload);
                    let salt: [u8; 32] = rng.gen();
                    let body = rfc::sym::seipd_v2_encrypt(s, a, co, &salt, &key, &inner).expect("ref seipd2");
                    let form = outer_form(ti + co as usize + a as usize, body.len(), 18);
                    let bytes = frame(18, &body, &form).expect("frame");
                    cov(ctx, "seipd2", s, a, co, 0, 0, form_name(&form), &lc, "ref->lib");
                    let r = lib(ctx, "C12/seipd2/ref-to-lib", &rp, || {
                        hooks::record(|| {
                            let sk = PlainSessionKey::V6 { key: RawSessionKey::from(key.clone()) };
                            lib_read_msg(&bytes, ring_sk(sk, DecryptionOptions::new()))
                        })
                    });
                    if let Some((r, ev)) = r {
                        note_hooks(ctx, &ev);
                        match r {
                            Ok(d) if d == payload => {}
                            Ok(d) => ctx.violation("C12/seipd2/ref-to-lib/wrong-plaintext", format!("sym {s} aead {a} chunk {co}: got {} octets", d.len()), rp.clone()),
                            Err(e) => ctx.violation(
                                "C12/seipd2/ref-to-lib/rejected",
                                format!("library rejects a reference-made SEIPDv2 message (sym {s}, aead {a}, chunk octet {co}, payload {n}, framing {}): {e}", form_name(&form)),
                                rp.clone(),
                            ),
                        }
                    }
                }
            }
        }
    }
}
// ---------------------------------------------------------------------------------------------
// (3) SKESK v4 / v6

/// S2K specifiers used for SKESK / key protection sweeps: kind index -> specifier
fn mk_s2k(rng: &mut ChaCha8Rng, kind: usize, hash: u8) -> RefS2k {
    match kind % 4 {
        0 => RefS2k::Salted { hash, salt: rng.gen() },
        1 => RefS2k::Iterated { hash, salt: rng.gen(), count: [0u8, 17, 96, 111, 31][rng.gen_range(0..5)] },
        2 => {
            let p = [1u8, 2, 4][rng.gen_range(0..3)];
            let m = 3 + (p as f32).log2().ceil() as u8 + rng.gen_range(0..3u8);
            RefS2k::Argon2 { salt: rng.gen(), t: rng.gen_range(1..=3), p, m }
        }
        _ => RefS2k::Simple { hash },
    }
}

fn fam_skesk(ctx: &mut Ctx) {
    let payload = b"C12 skesk payload \x00\x01\x02 with some length to span blocks".to_vec();
    // ---- v4: every cipher x S2K kind (library writes only salted kinds with strong hashes)
    for &alg in rfc::sym::ALL_CIPHERS.iter() {
        if !ctx.mine() {
            continue;
        }
        describe_case(&format!("skesk v4 alg {alg}"));
        let ks = rfc::sym::key_size(alg).unwrap();
        for kind in 0..3usize {
            for (hi, &h) in STRONG_HASHES.iter().enumerate() {
                if kind == 2 && hi > 0 {
                    continue;
                }
                let mut rng = ctx.rng("skesk4.l2r", ((alg as u64) << 16) | ((kind as u64) << 8) | h as u64);
                let r = mk_s2k(&mut rng, kind, h);
                let (k, hh, _) = s2k_kind(&r);
                let pw = { let n = rng.gen_range(0..40); rbytes(&mut rng, n) };
                let rp = json!({"family": "skesk4-lib", "alg": alg, "s2k": hexs(&r.encode()), "pw": hexs(&pw)});
                cov(ctx, "skesk4", alg, 0, 0, k, hh, "-", "-", "lib->ref");
                let res = lib(ctx, "C12/skesk4/lib-to-ref", &rp, || {
                    let mut b = MessageBuilder::from_bytes("", payload.clone()).seipd_v1(rng.clone(), sym(alg));
                    b.encrypt_with_password(lib_s2k(&r), &Password::from(&pw[..]))?;
                    let sk = b.session_key().as_ref().to_vec();
                    b.to_vec(rng.clone()).map(|o| (sk, o))
                });
                let Some(res) = res else { continue };
                let (sk, out) = match res {
                    Ok(x) => x,
                    Err(e) => {
                        ctx.violation("C12/skesk4/lib-to-ref/build-error", format!("alg {alg} s2k {r:?}: {e}"), rp.clone());
                        continue;
                    }
                };
                let verdict = (|| -> Result<(), (&'static str, String)> {
                    let pk = deframe(&out).map_err(|e| ("framing", e))?;
                    if pk.len() != 2 || pk[0].tag != 3 || pk[1].tag != 18 {
                        return Err(("framing", format!("tags {:?}", pk.iter().map(|p| p.tag).collect::<Vec<_>>())));
                    }
                    let (a2, k2) = rfc::sym::skesk_v4_decrypt(&pk[0].body, &pw).ok_or(("unparsable", hexs(&pk[0].body)))?;
                    if a2 != alg || k2 != sk {
                        return Err(("wrong-session-key", format!("reference recovers alg {a2} key {} but the builder used alg {alg} key {}", hexs(&k2), hexs(&sk))));
                    }
                    let want = rfc::sym::skesk_v4_encode(alg, &r, &pw, Some((alg, &sk))).ok_or(("unsupported", String::new()))?;
                    if want != pk[0].body {
                        return Err(("bytes-differ", format!("lib {} ref {}", hexs(&pk[0].body), hexs(&want))));
                    }
                    let inner = rfc::sym::seipd_v1_decrypt(a2, &k2, &pk[1].body[1..]).map_err(|e| ("seipd", format!("{e:?}")))?;
                    if parse_literal(&inner).map_err(|e| ("inner-stream", e))? != payload {
                        return Err(("wrong-plaintext", String::new()));
                    }
                    Ok(())
                })();
                if let Err((sy, d)) = verdict {
                    ctx.violation(
                        format!("C12/skesk4/lib-to-ref/{sy}"),
                        format!("password-encrypted SEIPDv1 message from the library not readable with the password under the RFC (alg {alg}, s2k {r:?}): {d}"),
                        rp.clone(),
                    );
                }
            }
        }
        // reference -> library: all four S2K kinds, weak hashes included (legal to read in v4),
        // with and without an encrypted session key
        for kind in 0..4usize {
            for (hi, &h) in HASHES.iter().enumerate() {
                if kind == 2 && hi > 0 {
                    continue;
                }
                for with_esk in [true, false] {
                    let mut rng = ctx.rng("skesk4.r2l", ((alg as u64) << 24) | ((kind as u64) << 16) | ((h as u64) << 8) | with_esk as u64);
                    let r = mk_s2k(&mut rng, kind, h);
                    let (k, hh, _) = s2k_kind(&r);
                    let pw = { let n = rng.gen_range(0..40); rbytes(&mut rng, n) };
                    // message cipher may differ from the SKESK cipher when a session key is carried
                    let malg = if with_esk { rfc::sym::ALL_CIPHERS[rng.gen_range(0..11)] } else { alg };
                    let sk = if with_esk { rbytes(&mut rng, rfc::sym::key_size(malg).unwrap()) } else { r.derive(&pw, ks).expect("derive") };
                    let body3 = rfc::sym::skesk_v4_encode(alg, &r, &pw, with_esk.then_some((malg, &sk[..]))).expect("ref skesk4");
                    let mbs = rfc::sym::block_size(malg).unwrap();
                    let prefix = rbytes(&mut rng, mbs);
                    let mut body18 = vec![1u8];
                    body18.extend(rfc::sym::seipd_v1_encrypt(malg, &sk, &prefix, &ref_literal(&payload)).expect("ref seipd1"));
                    let mut bytes = frame(3, &body3, &LenForm::NewMin).unwrap();
                    bytes.extend(frame(18, &body18, &LenForm::NewMin).unwrap());
                    let rp = json!({"family": "skesk4-ref", "alg": alg, "msg_alg": malg, "s2k": hexs(&r.encode()), "pw": hexs(&pw), "message": hexs(&bytes)});
                    cov(ctx, "skesk4", alg, 0, 0, k, hh, if with_esk { "esk" } else { "no-esk" }, "-", "ref->lib");
                    let res = lib(ctx, "C12/skesk4/ref-to-lib", &rp, || {
                        let pwd = Password::from(&pw[..]);
                        let ring = TheRing { message_password: vec![&pwd], ..Default::default() };
                        lib_read_msg(&bytes, ring)
                    });
                    match res {
                        Some(Ok(d)) if d == payload => {}
                        Some(Ok(_)) => ctx.violation("C12/skesk4/ref-to-lib/wrong-plaintext", format!("alg {alg} s2k {r:?}"), rp),
                        Some(Err(e)) => ctx.violation(
                            format!("C12/skesk4/ref-to-lib/rejected/{}", if with_esk { "esk" } else { "no-esk" }),
                            format!("library cannot read a reference-made SKESKv4+SEIPDv1 message with the password (skesk alg {alg}, message alg {malg}, s2k {r:?}): {e}"),
                            rp,
                        ),
                        None => {}
                    }
                }
            }
        }
    }
    // ---- v6
    for &s in &AES {
        for &a in &AEADS {
            if !ctx.mine() {
                continue;
            }
            describe_case(&format!("skesk v6 sym {s} aead {a}"));
            let ks = rfc::sym::key_size(s).unwrap();
            let ns = rfc::sym::aead_nonce_len(a).unwrap();
            for kind in 0..3usize {
                for (hi, &h) in STRONG_HASHES.iter().enumerate() {
                    if kind == 2 && hi > 0 {
                        continue;
                    }
                    let mut rng = ctx.rng("skesk6", ((s as u64) << 24) | ((a as u64) << 16) | ((kind as u64) << 8) | h as u64);
                    let r = mk_s2k(&mut rng, kind, h);
                    let (k, hh, _) = s2k_kind(&r);
                    let pw = { let n = rng.gen_range(0..40); rbytes(&mut rng, n) };
                    let co = [0u8, 2, 6][rng.gen_range(0..3)];
                    let rp = json!({"family": "skesk6", "sym": s, "aead": a, "s2k": hexs(&r.encode()), "pw": hexs(&pw)});
                    // library -> reference
                    cov(ctx, "skesk6", s, a, co, k, hh, "-", "-", "lib->ref");
                    let res = lib(ctx, "C12/skesk6/lib-to-ref", &rp, || {
                        let mut b = MessageBuilder::from_bytes("", payload.clone()).seipd_v2(rng.clone(), sym(s), aead(a), chunk(co));
                        b.encrypt_with_password(rng.clone(), lib_s2k(&r), &Password::from(&pw[..]))?;
                        let sk = b.session_key().as_ref().to_vec();
                        b.to_vec(rng.clone()).map(|o| (sk, o))
                    });
                    if let Some(res) = res {
                        match res {
                            Err(e) => ctx.violation("C12/skesk6/lib-to-ref/build-error", format!("sym {s} aead {a} s2k {r:?}: {e}"), rp.clone()),
                            Ok((sk, out)) => {
                                let verdict = (|| -> Result<(), (&'static str, String)> {
                                    let pk = deframe(&out).map_err(|e| ("framing", e))?;
                                    if pk.len() != 2 || pk[0].tag != 3 || pk[1].tag != 18 {
                                        return Err(("framing", format!("tags {:?}", pk.iter().map(|p| p.tag).collect::<Vec<_>>())));
                                    }
                                    let b3 = &pk[0].body;
                                    let k2 = rfc::sym::skesk_v6_decrypt(b3, &pw).ok_or(("unparsable", hexs(b3)))?.map_err(|_| {
                                        ("auth", "AEAD tag does not verify under HKDF(S2K(pw), info = C3 06 sym aead) with AD = info".to_string())
                                    })?;
                                    if k2 != sk {
                                        return Err(("wrong-session-key", format!("{} vs {}", hexs(&k2), hexs(&sk))));
                                    }
                                    let s2k_len = b3[4] as usize;
                                    let iv = &b3[5 + s2k_len..5 + s2k_len + ns];
                                    let want = rfc::sym::skesk_v6_encode(s, a, &r, &pw, iv, &sk).ok_or(("unsupported", String::new()))?;
                                    if &want != b3 {
                                        return Err(("bytes-differ", format!("lib {} ref {}", hexs(b3), hexs(&want))));
                                    }
                                    let inner = rfc::sym::seipd_v2_decrypt(&pk[1].body, &k2).map_err(|e| ("seipd", format!("{e:?}")))?;
                                    if parse_literal(&inner).map_err(|e| ("inner-stream", e))? != payload {
                                        return Err(("wrong-plaintext", String::new()));
                                    }
                                    Ok(())
                                })();
                                if let Err((sy, d)) = verdict {
                                    ctx.violation(
                                        format!("C12/skesk6/lib-to-ref/{sy}"),
                                        format!("password-encrypted SEIPDv2 message from the library not readable with the password under the RFC (sym {s}, aead {a}, s2k {r:?}): {d}"),
                                        rp.clone(),
                                    );
                                }
                            }
                        }
                    }
                    // reference -> library
                    let sk = rbytes(&mut rng, ks);
                    let iv = rbytes(&mut rng, ns);
                    let body3 = rfc::sym::skesk_v6_encode(s, a, &r, &pw, &iv, &sk).expect("ref skesk6");
                    let salt: [u8; 32] = rng.gen();
                    let body18 = rfc::sym::seipd_v2_encrypt(s, a, co, &salt, &sk, &ref_literal(&payload)).expect("ref seipd2");
                    let mut bytes = frame(3, &body3, &LenForm::NewMin).unwrap();
                    bytes.extend(frame(18, &body18, &LenForm::NewMin).unwrap());
                    let rp = json!({"family": "skesk6-ref", "sym": s, "aead": a, "s2k": hexs(&r.encode()), "pw": hexs(&pw), "message": hexs(&bytes)});
                    cov(ctx, "skesk6", s, a, co, k, hh, "-", "-", "ref->lib");
                    let res = lib(ctx, "C12/skesk6/ref-to-lib", &rp, || {
                        let pwd = Password::from(&pw[..]);
                        let ring = TheRing { message_password: vec![&pwd], ..Default::default() };
                        lib_read_msg(&bytes, ring)
                    });
                    match res {
                        Some(Ok(d)) if d == payload => {}
                        Some(Ok(_)) => ctx.violation("C12/skesk6/ref-to-lib/wrong-plaintext", format!("sym {s} aead {a} s2k {r:?}"), rp),
                        Some(Err(e)) => ctx.violation(
                            "C12/skesk6/ref-to-lib/rejected",
                            format!("library cannot read a reference-made SKESKv6+SEIPDv2 message with the password (sym {s}, aead {a}, s2k {r:?}): {e}"),
                            rp,
                        ),
                        None => {}
                    }
                    if s == 7 && a == 2 && kind == 1 {
                        ctx.sample(json!({"family": "skesk6", "sym": s, "aead": a, "s2k": hexs(&r.encode()), "password": hexs(&pw), "reference_message": hexs(&bytes)}));
                    }
                }
            }
        }
    }
}
// ---------------------------------------------------------------------------------------------
// (5) secret key protection (S2K usage 253 / 254 / 255 / legacy)

trait SecPkt: Clone + Serialize {
    const TAG: u8;
    fn lock(&mut self, pw: &Password, p: S2kParams) -> pgp::errors::Result<()>;
    fn unlock_inplace(&mut self, pw: &Password) -> pgp::errors::Result<()>;
    fn parse(body: &[u8]) -> pgp::errors::Result<Self>;
    fn from_packet(p: pgp::packet::Packet) -> Option<Self>;
    /// parse through the packet parser from a legacy (old format) framing: the object then carries an
    /// old-format packet header
    fn parse_old_format(body: &[u8]) -> Result<Self, String> {
        let form = if body.len() < 256 { LenForm::Old1 } else { LenForm::Old2 };
        let wire = frame(Self::TAG, body, &form).ok_or("cannot frame")?;
        let mut it = pgp::packet::PacketParser::new(&wire[..]);
        let p = it.next().ok_or("no packet")?.map_err(|e| format!("parse (old format): {e}"))?;
        Self::from_packet(p).ok_or_else(|| "other packet type".to_string())
    }
}
impl SecPkt for pgp::packet::SecretKey {
    const TAG: u8 = 5;
    fn lock(&mut self, pw: &Password, p: S2kParams) -> pgp::errors::Result<()> {
        self.set_password_with_s2k(pw, p)
    }
    fn unlock_inplace(&mut self, pw: &Password) -> pgp::errors::Result<()> {
        self.remove_password(pw)
    }
    fn parse(body: &[u8]) -> pgp::errors::Result<Self> {
        Self::try_from_reader(PacketHeader::new_fixed(Tag::SecretKey, body.len() as u32), body)
    }
    fn from_packet(p: pgp::packet::Packet) -> Option<Self> {
        match p {
            pgp::packet::Packet::SecretKey(k) => Some(k),
            _ => None,
        }
    }
}
impl SecPkt for pgp::packet::SecretSubkey {
    const TAG: u8 = 7;
    fn lock(&mut self, pw: &Password, p: S2kParams) -> pgp::errors::Result<()> {
        self.set_password_with_s2k(pw, p)
    }
    fn unlock_inplace(&mut self, pw: &Password) -> pgp::errors::Result<()> {
        self.remove_password(pw)
    }
    fn parse(body: &[u8]) -> pgp::errors::Result<Self> {
        Self::try_from_reader(PacketHeader::new_fixed(Tag::SecretSubkey, body.len() as u32), body)
    }
    fn from_packet(p: pgp::packet::Packet) -> Option<Self> {
        match p {
            pgp::packet::Packet::SecretSubkey(k) => Some(k),
            _ => None,
        }
    }
}

fn lib_prot(p: &RefProtection) -> S2kParams {
    match p {
        RefProtection::None => S2kParams::Unprotected,
        RefProtection::LegacyCipher { cipher, iv } => S2kParams::LegacyCfb { sym_alg: sym(*cipher), iv: iv.clone().into() },
        RefProtection::MalleableCfb { cipher, s2k, iv } => S2kParams::MalleableCfb { sym_alg: sym(*cipher), s2k: lib_s2k(s2k), iv: iv.clone().into() },
        RefProtection::Cfb { cipher, s2k, iv } => S2kParams::Cfb { sym_alg: sym(*cipher), s2k: lib_s2k(s2k), iv: iv.clone().into() },
        RefProtection::Aead { cipher, aead: a, s2k, nonce } => S2kParams::Aead {
            sym_alg: sym(*cipher),
            aead_mode: aead(*a),
            s2k: lib_s2k(s2k),
            nonce: nonce.clone().into(),
        },
    }
}

fn prot_desc(p: &RefProtection) -> (&'static str, u8, u8, u8, u8) {
    // (name, cipher, aead, s2k kind, hash)
    match p {
        RefProtection::None => ("none", 0, 0, 0, 0),
        RefProtection::LegacyCipher { cipher, .. } => ("legacy", *cipher, 0, 0, 1),
        RefProtection::MalleableCfb { cipher, s2k, .. } => ("mcfb", *cipher, 0, s2k_kind(s2k).0, s2k_kind(s2k).1),
        RefProtection::Cfb { cipher, s2k, .. } => ("cfb", *cipher, 0, s2k_kind(s2k).0, s2k_kind(s2k).1),
        RefProtection::Aead { cipher, aead, s2k, .. } => ("aead", *cipher, *aead, s2k_kind(s2k).0, s2k_kind(s2k).1),
    }
}

fn keyprot_packet<P: SecPkt>(ctx: &mut Ctx, pkt: &P, keyname: &str, seed: u64) {
    let tag = P::TAG;
    let plain = match pkt.to_bytes() {
        Ok(b) => b,
        Err(e) => {
            ctx.inconclusive(format!("cannot serialise zoo key: {e}"));
            return;
        }
    };
    let Some(rs) = RefSecret::parse(&plain) else {
        ctx.inconclusive(format!("reference cannot parse unprotected secret key packet of {keyname}"));
        return;
    };
    if rs.protection != RefProtection::None {
        ctx.inconclusive("zoo key not unprotected");
        return;
    }
    let Some(Ok(material)) = rs.unlock(tag, b"") else {
        ctx.violation(
            "C12/keyprot/plain/checksum",
            format!("unprotected secret key packet of {keyname} (tag {tag}) has a wrong 16-bit checksum or layout"),
            json!({"family": "keyprot", "key": keyname, "packet": hexs(&plain)}),
        );
        return;
    };
    let v6 = rs.public.version == 6;
    let vname = if v6 { "v6" } else { "v4" };
    let alg = rs.public.alg;

    // configurations: (protection, library can write it, direction list)
    let mut rng = ctx.rng("keyprot", seed);
    let mut configs: Vec<RefProtection> = vec![];
    for &c in rfc::sym::ALL_CIPHERS.iter() {
        let bs = rfc::sym::block_size(c).unwrap();
        for kind in [0usize, 1] {
            let h = STRONG_HASHES[rng.gen_range(0..STRONG_HASHES.len())];
            configs.push(RefProtection::Cfb { cipher: c, s2k: mk_s2k(&mut rng, kind, h), iv: rbytes(&mut rng, bs) });
        }
        if !v6 {
            // weak-hash and simple specifiers and usage 255 / legacy usage: only ever read
            let h = HASHES[rng.gen_range(0..3)];
            let kind = [0usize, 1, 3][rng.gen_range(0..3)];
            configs.push(RefProtection::Cfb { cipher: c, s2k: mk_s2k(&mut rng, kind, h), iv: rbytes(&mut rng, bs) });
            let h = HASHES[rng.gen_range(0..HASHES.len())];
            let kind = [0usize, 1, 3][rng.gen_range(0..3)];
            configs.push(RefProtection::MalleableCfb { cipher: c, s2k: mk_s2k(&mut rng, kind, h), iv: rbytes(&mut rng, bs) });
            if rfc::sym::key_size(c) == Some(16) {
                configs.push(RefProtection::LegacyCipher { cipher: c, iv: rbytes(&mut rng, bs) });
            }
        }
    }
    for &c in &AES {
        for &a in &AEADS {
            let ns = rfc::sym::aead_nonce_len(a).unwrap();
            for kind in [0usize, 1, 2] {
                let h = STRONG_HASHES[rng.gen_range(0..STRONG_HASHES.len())];
                configs.push(RefProtection::Aead { cipher: c, aead: a, s2k: mk_s2k(&mut rng, kind, h), nonce: rbytes(&mut rng, ns) });
            }
        }
    }

    for prot in configs {
        let (pname, c, a, kind, h) = prot_desc(&prot);
        let pw = { let n = rng.gen_range(0..24); rbytes(&mut rng, n) };
        let pwd = Password::from(&pw[..]);
        let s2k_weak_or_simple = match &prot {
            RefProtection::Cfb { s2k, .. } | RefProtection::Aead { s2k, .. } => matches!(s2k_kind(s2k), (0, _, _) | (_, 1..=3, _)),
            _ => true,
        };
        let lib_writes = matches!(prot, RefProtection::Cfb { .. } | RefProtection::Aead { .. }) && !s2k_weak_or_simple;
        let lenc = format!("{vname}-tag{tag}-pk{alg}");
        let rp = json!({"family": "keyprot", "key": keyname, "tag": tag, "protection": format!("{prot:?}"), "pw": hexs(&pw), "plain_packet": hexs(&plain)});

        // documented policy of the library (reader, and writer since the lock/unlock alignment
        // fix): usage 253 only with iterated / Argon2 specifiers
        let policy_refusal = matches!(&prot, RefProtection::Aead { s2k: RefS2k::Salted { .. }, .. });

        // ---- library locks, reference unlocks
        if lib_writes {
            cov(ctx, &format!("keyprot-{pname}"), c, a, 0, kind, h, "-", &lenc, "lib->ref");
            let mut p2 = pkt.clone();
            let r = lib(ctx, "C12/keyprot/lib-to-ref", &rp, || p2.lock(&pwd, lib_prot(&prot)).and_then(|_| p2.to_bytes()));
            match r {
                Some(Ok(locked)) => {
                    let verdict = (|| -> Result<(), (&'static str, String)> {
                        let ls = RefSecret::parse(&locked).ok_or(("unparsable", hexs(&locked)))?;
                        if ls.protection != prot || ls.public != rs.public {
                            return Err(("fields-differ", format!("protection fields on the wire {:?}, requested {:?}", ls.protection, prot)));
                        }
                        let m = ls
                            .unlock(tag, &pw)
                            .ok_or(("unsupported", String::new()))?
                            .map_err(|_| ("unlock-failed", "integrity check (SHA-1 / AEAD tag) fails under the RFC construction".to_string()))?;
                        if m != material {
                            return Err(("material-differs", String::new()));
                        }
                        let want = RefSecret::lock(&rs.public, tag, prot.clone(), &pw, &material).ok_or(("unsupported", String::new()))?.encode();
                        if want != locked {
                            return Err(("bytes-differ", format!("lib {} ref {}", hexs(&locked), hexs(&want))));
                        }
                        Ok(())
                    })();
                    if let Err((sy, d)) = verdict {
                        ctx.violation(
                            format!("C12/keyprot/{pname}/lib-to-ref/{sy}"),
                            format!("{keyname} tag {tag} locked by the library with {prot:?} does not unlock under RFC 9580 3.7.2.1/5.5.3: {d}"),
                            rp.clone(),
                        );
                    }
                }
                Some(Err(e)) => {
                    if policy_refusal {
                        ctx.tally("keyprot.aead_salted_lock_refused_by_policy", 1);
                    } else {
                        ctx.violation(format!("C12/keyprot/{pname}/lib-to-ref/lock-error"), format!("{keyname} tag {tag} {prot:?}: {e}"), rp.clone())
                    }
                }
                None => {}
            }
        }

        // ---- the same two directions with the key packet in legacy (old format) framing: the packet type
        // octet that enters the AEAD key derivation and associated data is 0xC0|type whatever the framing
        if matches!(prot, RefProtection::Aead { .. }) || seed % 4 == 0 {
            if let Some(want) = RefSecret::lock(&rs.public, tag, prot.clone(), &pw, &material).map(|l| l.encode()) {
                if lib_writes && !policy_refusal {
                    cov(ctx, &format!("keyprot-{pname}"), c, a, 0, kind, h, "old-format", &lenc, "lib->ref");
                    let r = lib(ctx, "C12/keyprot/lib-to-ref", &rp, || {
                        let mut p2 = P::parse_old_format(&plain)?;
                        p2.lock(&pwd, lib_prot(&prot)).map_err(|e| format!("lock: {e}"))?;
                        p2.to_bytes().map_err(|e| format!("serialise: {e}"))
                    });
                    match r {
                        Some(Ok(b)) if b == want => {}
                        Some(Ok(b)) => ctx.violation(
                            format!("C12/keyprot/{pname}/lib-to-ref/bytes-differ/old-format-header"),
                            format!("{keyname} tag {tag} read from old-format framing and locked with {prot:?}: protected material differs from the RFC 9580 construction (lib {} ref {})", hexs(&b), hexs(&want)),
                            rp.clone(),
                        ),
                        Some(Err(e)) => ctx.violation(format!("C12/keyprot/{pname}/lib-to-ref/lock-error/old-format-header"), format!("{keyname} tag {tag} {prot:?}: {e}"), rp.clone()),
                        None => {}
                    }
                }
                if !policy_refusal {
                    cov(ctx, &format!("keyprot-{pname}"), c, a, 0, kind, h, "old-format", &lenc, "ref->lib");
                    let r = lib(ctx, "C12/keyprot/ref-to-lib", &rp, || {
                        let mut p = P::parse_old_format(&want)?;
                        p.unlock_inplace(&pwd).map_err(|e| format!("unlock: {e}"))?;
                        p.to_bytes().map_err(|e| format!("serialise: {e}"))
                    });
                    match r {
                        Some(Ok(b)) if b == plain => {}
                        Some(Ok(_)) => ctx.violation(format!("C12/keyprot/{pname}/ref-to-lib/material-differs/old-format-header"), format!("{keyname} tag {tag} {prot:?}"), rp.clone()),
                        Some(Err(e)) => ctx.violation(
                            format!("C12/keyprot/{pname}/ref-to-lib/rejected/old-format-header"),
                            format!("library cannot unlock {keyname} tag {tag} locked per RFC with {prot:?} when the packet arrives in old-format framing: {e}"),
                            rp.clone(),
                        ),
                        None => {}
                    }
                }
            }
        }

        // ---- reference locks, library unlocks
        let Some(locked) = RefSecret::lock(&rs.public, tag, prot.clone(), &pw, &material) else {
            ctx.inconclusive("reference cannot lock with this configuration");
            continue;
        };
        let locked = locked.encode();
        let rp = json!({"family": "keyprot-ref", "key": keyname, "tag": tag, "protection": format!("{prot:?}"), "pw": hexs(&pw), "locked_packet": hexs(&locked)});
        cov(ctx, &format!("keyprot-{pname}"), c, a, 0, kind, h, "-", &lenc, "ref->lib");
        let r = lib(ctx, "C12/keyprot/ref-to-lib", &rp, || {
            let mut p = P::parse(&locked).map_err(|e| format!("parse: {e}"))?;
            p.unlock_inplace(&pwd).map_err(|e| format!("unlock: {e}"))?;
            p.to_bytes().map_err(|e| format!("serialise: {e}"))
        });
        match r {
            Some(Ok(b)) if b == plain => {
                if policy_refusal {
                    ctx.tally("keyprot.aead_salted_accepted", 1);
                }
            }
            Some(Ok(b)) => ctx.violation(
                format!("C12/keyprot/{pname}/ref-to-lib/material-differs"),
                format!("{keyname} tag {tag} {prot:?}: unlocked packet differs from the original ({} vs {} octets)", b.len(), plain.len()),
                rp,
            ),
            Some(Err(e)) => {
                if policy_refusal {
                    ctx.tally("keyprot.aead_salted_refused_by_policy", 1);
                } else {
                    ctx.violation(
                        format!("C12/keyprot/{pname}/ref-to-lib/rejected"),
                        format!("library cannot unlock {keyname} tag {tag} locked per RFC with {prot:?}: {e}"),
                        rp,
                    );
                }
            }
            None => {}
        }
    }
}

fn fam_keyprot(ctx: &mut Ctx) {
    use zoo::{Alg, Spec};
    let mut specs = vec![
        Spec::simple(false, Alg::Ed25519Legacy, Some(Alg::EcdhCv25519)),
        Spec::simple(true, Alg::Ed25519, Some(Alg::X25519)),
        Spec::simple(false, Alg::EcdsaP256, Some(Alg::EcdhP256)),
        Spec::simple(true, Alg::Ed448, Some(Alg::X448)),
        Spec::simple(false, Alg::Rsa2048, Some(Alg::Rsa2048)),
        Spec::simple(true, Alg::EcdsaP384, Some(Alg::EcdhP384)),
    ];
    if !ctx.quick() {
        specs.extend([
            Spec::simple(true, Alg::EcdsaP521, Some(Alg::EcdhP521)),
            Spec::simple(false, Alg::Dsa2048, None),
            Spec::simple(true, Alg::Rsa2048, Some(Alg::Rsa2048)),
            Spec::simple(false, Alg::EcdsaK256, Some(Alg::X448)),
        ]);
    }
    let rounds = ctx.qt(1u64, 4u64);
    for (si, spec) in specs.iter().enumerate() {
        for round in 0..rounds {
            for part in 0..2 {
                if !ctx.mine() {
                    continue;
                }
                describe_case(&format!("keyprot {} part {part} round {round}", spec.name()));
                let key = zoo::key(spec, 0);
                let seed = (si as u64) << 16 | round << 8 | part;
                if part == 0 {
                    keyprot_packet(ctx, &key.primary_key, &spec.name(), seed);
                } else if let Some(sub) = key.secret_subkeys.first() {
                    keyprot_packet(ctx, &sub.key, &spec.name(), seed);
                }
            }
        }
    }
}
// ---------------------------------------------------------------------------------------------
// (6) AES key wrap, ECDH KDF parameter block / KDF / unwrap+unpad at the low-level public API

const CURVES: [(&str, &[u8]); 4] = [
    ("cv25519", rfc::key::OID_CV25519),
    ("p256", rfc::key::OID_P256),
    ("p384", rfc::key::OID_P384),
    ("p521", rfc::key::OID_P521),
];

fn lib_curve(name: &str) -> pgp::crypto::ecc_curve::ECCCurve {
    use pgp::crypto::ecc_curve::ECCCurve;
    match name {
        "cv25519" => ECCCurve::Curve25519Legacy,
        "p256" => ECCCurve::P256,
        "p384" => ECCCurve::P384,
        _ => ECCCurve::P521,
    }
}

/// padding of `m` to `total` octets (total multiple of 8, 1 <= total - len <= 255)
fn pad_to(m: &[u8], total: usize) -> Vec<u8> {
    let pad = total - m.len();
    let mut o = m.to_vec();
    o.extend(std::iter::repeat(pad as u8).take(pad));
    o
}

fn fam_kw_kdf(ctx: &mut Ctx) {
    // ---- RFC 3394 key wrap
    if ctx.mine() {
        describe_case("aes key wrap");
        for ks in [16usize, 24, 32] {
            for n in [16usize, 24, 32, 40, 48, 56, 64, 128, 240] {
                let mut rng = ctx.rng("aeskw", (ks * 1000 + n) as u64);
                let kek = rbytes(&mut rng, ks);
                let data = rbytes(&mut rng, n);
                let rp = json!({"family": "aeskw", "kek": hexs(&kek), "data": hexs(&data)});
                let want = rfc::sym::aes_kw_wrap(&kek, &data).expect("ref wrap");
                cov(ctx, "aeskw", (ks / 8 + 5) as u8, 0, 0, 0, 0, "-", &n.to_string(), "both");
                match lib(ctx, "C12/aeskw", &rp, || pgp::crypto::aes_kw::wrap(&kek, &data)) {
                    Some(Ok(w)) if w == want => {}
                    Some(other) => ctx.violation("C12/aeskw/wrap-differs", format!("kek {} bits, {} octets: {:?}", ks * 8, n, other.map(|w| hexs(&w)).map_err(|e| e.to_string())), rp.clone()),
                    None => {}
                }
                match lib(ctx, "C12/aeskw", &rp, || pgp::crypto::aes_kw::unwrap(&kek, &want).map(|z| z.to_vec())) {
                    Some(Ok(d)) if d == data => {}
                    Some(other) => ctx.violation("C12/aeskw/unwrap-differs", format!("kek {} bits, {} octets: {:?}", ks * 8, n, other.map(|w| hexs(&w)).map_err(|e| e.to_string())), rp.clone()),
                    None => {}
                }
                let mut bad = want.clone();
                let pos = rng.gen_range(0..bad.len());
                bad[pos] ^= 1 << rng.gen_range(0..8);
                if let Some(Ok(_)) = lib(ctx, "C12/aeskw", &rp, || pgp::crypto::aes_kw::unwrap(&kek, &bad).map(|z| z.to_vec())) {
                    ctx.violation("C12/aeskw/integrity-not-checked", format!("unwrap accepts a modified wrapping (octet {pos})"), rp.clone());
                }
            }
        }
    }
    // ---- curve OIDs
    if ctx.mine() {
        for (name, oid) in CURVES {
            let got = lib_curve(name).oid();
            ctx.eval();
            if got != oid {
                ctx.violation("C12/ecdh/oid-differs", format!("{name}: {} vs {}", hexs(&got), hexs(oid)), json!({"curve": name}));
            }
        }
    }
    // ---- KDF parameter block, KDF and unwrap/unpad for every curve x hash x KEK cipher
    for (ci, (name, oid)) in CURVES.iter().enumerate() {
        if !ctx.mine() {
            continue;
        }
        describe_case(&format!("ecdh kdf {name}"));
        for &h in &HASHES {
            for &kek in &AES {
                let ks = rfc::sym::key_size(kek).unwrap();
                if rfc::hash_len(h).unwrap() < ks {
                    continue;
                }
                for fplen in [20usize, 32] {
                    let mut rng = ctx.rng("ecdh.kdf", ((ci as u64) << 24) | ((h as u64) << 16) | ((kek as u64) << 8) | fplen as u64);
                    let fp = rbytes(&mut rng, fplen);
                    let slen = [32usize, 32, 48, 66][ci];
                    let mut shared = rbytes(&mut rng, slen);
                    if rng.gen_bool(0.3) {
                        shared[0] = 0; // leading zero octets of the shared point must be kept
                    }
                    let k = rfc::key::EcdhPub { oid: oid.to_vec(), point: vec![], kdf_hash: h, kek_alg: kek };
                    let rp = json!({"family": "ecdh-kdf", "curve": name, "hash": h, "kek": kek, "fp": hexs(&fp), "shared": hexs(&shared)});
                    cov(ctx, "ecdh-kdf", kek, 0, 0, 0, h, name, &format!("fp{fplen}"), "both");
                    let want_param = rfc::key::ecdh_kdf_param(&k, &fp);
                    let got_param = lib(ctx, "C12/ecdh", &rp, || pgp::crypto::ecdh::build_ecdh_param(oid, sym(kek), HashAlgorithm::from(h), &fp));
                    if let Some(p) = &got_param {
                        if *p != want_param {
                            ctx.violation(
                                "C12/ecdh/param-differs",
                                format!("KDF parameter block differs from RFC 9580 11.5 ({name}, hash {h}, kek {kek}): lib {} ref {}", hexs(p), hexs(&want_param)),
                                rp.clone(),
                            );
                        }
                    }
                    let want_kek = rfc::key::ecdh_kek(&k, &fp, &shared).expect("ref kek");
                    match lib(ctx, "C12/ecdh", &rp, || pgp::crypto::ecdh::kdf(HashAlgorithm::from(h), &shared, ks, &want_param)) {
                        Some(Ok(z)) if z == want_kek => {}
                        Some(other) => ctx.violation("C12/ecdh/kdf-differs", format!("{name} hash {h} kek {kek}: {:?} vs {}", other.map(|z| hexs(&z)).map_err(|e| e.to_string()), hexs(&want_kek)), rp.clone()),
                        None => {}
                    }
                    // unwrap + unpad of reference-wrapped session keys, short and obfuscating padding
                    for sklen in [16usize, 24, 32] {
                        let mut plain = vec![[7u8, 8, 9][sklen / 8 - 2]];
                        plain.extend(rbytes(&mut rng, sklen));
                        plain.extend(rfc::sum16(&plain[1..]).to_be_bytes());
                        for (pi, padded) in [rfc::key::pkcs5_pad(&plain), pad_to(&plain, 40), pad_to(&plain[1..], 40)].into_iter().enumerate() {
                            let unp = padded[..padded.len() - *padded.last().unwrap() as usize].to_vec();
                            let wrapped = rfc::sym::aes_kw_wrap(&want_kek, &padded).expect("ref wrap");
                            cov(ctx, "ecdh-unwrap", kek, 0, 0, 0, h, name, &format!("sk{sklen}pad{pi}"), "ref->lib");
                            let r = lib(ctx, "C12/ecdh", &rp, || {
                                pgp::crypto::ecdh::derive_session_key(&shared, &wrapped, wrapped.len(), lib_curve(name), HashAlgorithm::from(h), sym(kek), &fp).map(|z| z.to_vec())
                            });
                            match r {
                                Some(Ok(d)) if d == unp => {}
                                Some(other) => ctx.violation(
                                    format!("C12/ecdh/derive_session_key/{}", if pi == 0 { "short-padding" } else { "long-padding" }),
                                    format!("derive_session_key does not recover an RFC-wrapped session key ({name}, hash {h}, kek {kek}, key {sklen}, padding to {} octets): {:?}", padded.len(), other.map(|z| hexs(&z)).map_err(|e| e.to_string())),
                                    rp.clone(),
                                ),
                                None => {}
                            }
                        }
                    }
                }
            }
        }
    }
}
// ---------------------------------------------------------------------------------------------
// reference PKESK codec (RFC 9580 5.1) and key pair helpers — written here from the RFC

#[derive(Debug, Clone)]
struct RefPkesk {
    version: u8,
    key_id: [u8; 8],
    fp_version: u8,
    fp: Vec<u8>,
    alg: u8,
    fields: Vec<u8>,
}

fn pkesk_parse(b: &[u8]) -> Option<RefPkesk> {
    match *b.first()? {
        3 => Some(RefPkesk {
            version: 3,
            key_id: b.get(1..9)?.try_into().ok()?,
            fp_version: 0,
            fp: vec![],
            alg: *b.get(9)?,
            fields: b.get(10..)?.to_vec(),
        }),
        6 => {
            let n = *b.get(1)? as usize;
            let (fp_version, fp) = if n == 0 { (0, vec![]) } else { (*b.get(2)?, b.get(3..2 + n)?.to_vec()) };
            Some(RefPkesk { version: 6, key_id: [0; 8], fp_version, fp, alg: *b.get(2 + n)?, fields: b.get(3 + n..)?.to_vec() })
        }
        _ => None,
    }
}

fn pkesk_encode(p: &RefPkesk) -> Vec<u8> {
    let mut o = vec![p.version];
    if p.version == 3 {
        o.extend(p.key_id);
    } else {
        o.push(1 + p.fp.len() as u8);
        o.push(p.fp_version);
        o.extend(&p.fp);
    }
    o.push(p.alg);
    o.extend(&p.fields);
    o
}

/// X25519 / X448 algorithm specific fields: ephemeral || count || [cipher octet (v3)] || wrapped
fn xfields_encode(eph: &[u8], v3_alg: Option<u8>, wrapped: &[u8]) -> Vec<u8> {
    let mut o = eph.to_vec();
    o.push((wrapped.len() + v3_alg.is_some() as usize) as u8);
    if let Some(a) = v3_alg {
        o.push(a);
    }
    o.extend(wrapped);
    o
}

fn xfields_parse(f: &[u8], elen: usize, v3: bool) -> Option<(Vec<u8>, Option<u8>, Vec<u8>)> {
    let eph = f.get(..elen)?.to_vec();
    let n = *f.get(elen)? as usize;
    let rest = f.get(elen + 1..)?;
    if rest.len() != n {
        return None;
    }
    if v3 {
        Some((eph, Some(*rest.first()?), rest[1..].to_vec()))
    } else {
        Some((eph, None, rest.to_vec()))
    }
}

/// (secret scalar in wire form, public point in wire form) for an ECDH curve from random octets
fn ecdh_keypair(name: &str, rng: &mut ChaCha8Rng) -> (Vec<u8>, Vec<u8>) {
    use p256::elliptic_curve::sec1::ToEncodedPoint;
    macro_rules! nist {
        ($c:ident, $n:expr) => {{
            loop {
                let mut b = rbytes(rng, $n);
                if $n == 66 {
                    b[0] &= 1;
                }
                if rng.gen_bool(0.25) {
                    b[if $n == 66 { 1 } else { 0 }] = 0; // short MPI
                    if $n == 66 {
                        b[0] = 0;
                    }
                }
                if let Ok(sk) = $c::SecretKey::from_slice(&b) {
                    let p = sk.public_key().to_encoded_point(false).as_bytes().to_vec();
                    break (b, p);
                }
            }
        }};
    }
    match name {
        "cv25519" => {
            let mut native: [u8; 32] = rng.gen();
            native[0] &= 248;
            native[31] &= 127;
            native[31] |= 64;
            let sk = x25519_dalek::StaticSecret::from(native);
            let pk = x25519_dalek::PublicKey::from(&sk);
            let mut wire = native.to_vec();
            wire.reverse();
            let mut p = vec![0x40];
            p.extend(pk.as_bytes());
            (wire, p)
        }
        "p256" => nist!(p256, 32),
        "p384" => nist!(p384, 48),
        _ => nist!(p521, 66),
    }
}

fn ecdh_material(k: &rfc::key::EcdhPub) -> Vec<u8> {
    let mut m = vec![k.oid.len() as u8];
    m.extend(&k.oid);
    m.extend(rfc::mpi(&k.point));
    m.extend([3, 1, k.kdf_hash, k.kek_alg]);
    m
}

fn ecdh_fields_from(values: &PkeskBytes) -> Option<Vec<u8>> {
    if let PkeskBytes::Ecdh { public_point, encrypted_session_key } = values {
        let mut f = rfc::mpi(public_point.as_ref());
        f.push(encrypted_session_key.len() as u8);
        f.extend_from_slice(encrypted_session_key);
        Some(f)
    } else {
        None
    }
}

fn ecdh_values_from(fields: &[u8]) -> Option<PkeskBytes> {
    let (eph, p) = rfc::read_mpi(fields, 0)?;
    let l = *fields.get(p)? as usize;
    let w = fields.get(p + 1..p + 1 + l)?;
    Some(PkeskBytes::Ecdh { public_point: Mpi::from_slice(eph), encrypted_session_key: w.to_vec().into() })
}

fn check_plain_sk(got: &PlainSessionKey, v6: bool, alg: u8, key: &[u8]) -> bool {
    match got {
        PlainSessionKey::V3_4 { sym_alg, key: k } => !v6 && u8::from(*sym_alg) == alg && k.as_ref() == key,
        PlainSessionKey::V6 { key: k } => v6 && k.as_ref() == key,
        _ => false,
    }
}

// ---------------------------------------------------------------------------------------------
// (6) ECDH with every KDF hash x KEK cipher announced by the key: reference-encoded secret
// subkeys parsed by the library, EncryptionKey::encrypt / DecryptionKey::decrypt

fn fam_ecdh_params(ctx: &mut Ctx) {
    for (ci, (name, oid)) in CURVES.iter().enumerate() {
        for v6 in [false, true] {
            if v6 && *name == "cv25519" {
                continue; // Curve25519Legacy is illegal in v6 keys
            }
            if !ctx.mine() {
                continue;
            }
            describe_case(&format!("ecdh params {name} v6={v6}"));
            let (dh, dk) = match *name {
                "p384" => (9u8, 8u8),
                "p521" => (10, 9),
                _ => (8, 7),
            };
            for &h in &HASHES {
                for &kek in &AES {
                    let ks = rfc::sym::key_size(kek).unwrap();
                    if rfc::hash_len(h).unwrap() < ks {
                        continue;
                    }
                    let default_params = h == dh && kek == dk;
                    let weak = h <= 3;
                    let mut rng = ctx.rng("ecdh.params", ((ci as u64) << 32) | ((v6 as u64) << 24) | ((h as u64) << 8) | kek as u64);
                    let (secret, point) = ecdh_keypair(name, &mut rng);
                    let k = rfc::key::EcdhPub { oid: oid.to_vec(), point, kdf_hash: h, kek_alg: kek };
                    let public = RefPub { version: if v6 { 6 } else { 4 }, created: 1_700_000_000, v3_expiry_days: 0, alg: 18, material: ecdh_material(&k) };
                    let fp = public.fingerprint();
                    let body = RefSecret::lock(&public, 7, RefProtection::None, b"", &rfc::mpi(&secret)).expect("ref secret").encode();
                    let rp = json!({"family": "ecdh-params", "curve": name, "v6": v6, "hash": h, "kek": kek, "secret_subkey_packet": hexs(&body)});
                    let sub = match lib(ctx, "C12/ecdh/key", &rp, || <pgp::packet::SecretSubkey as SecPkt>::parse(&body)) {
                        Some(Ok(s)) => s,
                        Some(Err(e)) => {
                            if default_params {
                                ctx.violation("C12/ecdh/key/default-params-rejected", format!("{name} v6={v6}: {e}"), rp.clone());
                            } else {
                                ctx.tally("ecdh.params.key_rejected", 1);
                            }
                            continue;
                        }
                        None => continue,
                    };
                    let cls = if default_params { "default" } else if weak { "weak-hash" } else { "other" };
                    for esk_v6 in [false, true] {
                        let malg = AES[rng.gen_range(0..3)];
                        let sk = rbytes(&mut rng, rfc::sym::key_size(malg).unwrap());
                        let framing = if esk_v6 { rfc::sym::session_key_v6(&sk) } else { rfc::sym::session_key_v3(malg, &sk) };
                        let typ = if esk_v6 { EskType::V6 } else { EskType::V3_4 };
                        let lenc = format!("{name}-{}-{}-{cls}", if v6 { "k6" } else { "k4" }, if esk_v6 { "esk6" } else { "esk3" });
                        // library encrypts, reference unwraps
                        cov(ctx, "ecdh", kek, 0, 0, 0, h, "-", &lenc, "lib->ref");
                        match lib(ctx, "C12/ecdh/lib-to-ref", &rp, || sub.public_key().encrypt(rng.clone(), &framing, typ)) {
                            Some(Ok(values)) => {
                                let got = ecdh_fields_from(&values).and_then(|f| rfc::key::ecdh_unwrap(&k, &fp, &secret, &f));
                                if got.as_deref() != Some(&framing[..]) {
                                    ctx.violation(
                                        format!("C12/ecdh/lib-to-ref/{}", if got.is_none() { "unwrap-failed" } else { "framing-differs" }),
                                        format!("ECDH PKESK fields made by the library do not unwrap under RFC 9580 11.5 ({name}, key v{}, KDF hash {h}, KEK {kek}): values {values:?}", public.version),
                                        rp.clone(),
                                    );
                                }
                                if weak {
                                    ctx.tally("ecdh.params.weak_hash_encrypt_accepted", 1);
                                }
                            }
                            Some(Err(e)) => {
                                if default_params {
                                    ctx.violation("C12/ecdh/lib-to-ref/encrypt-error", format!("{name} v6={v6} default parameters: {e}"), rp.clone());
                                } else {
                                    // weak KDF hashes (MUST NOT) and non-default parameters on v6 keys (MUST NOT)
                                    ctx.tally("ecdh.params.encrypt_refused", 1);
                                }
                            }
                            None => {}
                        }
                        // reference wraps (short and obfuscating padding), library decrypts
                        for long_pad in [false, true] {
                            let seed: [u8; 32] = rng.gen();
                            let (eph, shared) = rfc::key::ecdh_shared_sender(&k.oid, &k.point, &seed).expect("ref ecdh");
                            let kekk = rfc::key::ecdh_kek(&k, &fp, &shared).expect("ref kek");
                            let padded = if long_pad { pad_to(&framing, 40) } else { rfc::key::pkcs5_pad(&framing) };
                            let wrapped = rfc::sym::aes_kw_wrap(&kekk, &padded).expect("ref wrap");
                            let mut fields = rfc::mpi(&eph);
                            fields.push(wrapped.len() as u8);
                            fields.extend(&wrapped);
                            let values = ecdh_values_from(&fields).expect("fields");
                            let rp2 = json!({"family": "ecdh-params-ref", "curve": name, "v6": v6, "hash": h, "kek": kek, "secret_subkey_packet": hexs(&body), "fields": hexs(&fields), "framing": hexs(&framing)});
                            cov(ctx, "ecdh", kek, 0, 0, 0, h, if long_pad { "pad40" } else { "pad8" }, &lenc, "ref->lib");
                            match lib(ctx, "C12/ecdh/ref-to-lib", &rp2, || sub.decrypt(&Password::empty(), &values, typ)) {
                                Some(Ok(Ok(got))) if check_plain_sk(&got, esk_v6, malg, &sk) => {}
                                Some(Ok(Ok(got))) => ctx.violation("C12/ecdh/ref-to-lib/wrong-key", format!("{name} hash {h} kek {kek}: {got:?}"), rp2),
                                Some(Ok(Err(e))) | Some(Err(e)) => {
                                    if weak && !default_params {
                                        ctx.tally("ecdh.params.weak_hash_decrypt_refused", 1);
                                    } else {
                                        ctx.violation(
                                            format!("C12/ecdh/ref-to-lib/rejected/{}", if long_pad { "long-padding" } else { "short-padding" }),
                                            format!("library cannot decrypt an RFC 9580 11.5 ECDH session key ({name}, key v{}, KDF hash {h}, KEK {kek}): {e}", public.version),
                                            rp2,
                                        );
                                    }
                                }
                                None => {}
                            }
                        }
                    }
                }
            }
        }
    }
}
// ---------------------------------------------------------------------------------------------
// (6)(7) whole messages to zoo keys: ECDH (4 curves), X25519, X448; PKESK v3 + SEIPDv1 and
// PKESK v6 + SEIPDv2, both directions, with the recording encryptor watching the framing

/// reference: recover the session key framing from a PKESK for the given recipient subkey
fn ref_pkesk_unwrap(p: &RefPkesk, public: &RefPub, material: &[u8]) -> Result<Vec<u8>, String> {
    let fp = public.fingerprint();
    match public.alg {
        18 => {
            let k = rfc::key::parse_ecdh_material(&public.material).ok_or("ecdh public material")?;
            let (d, _) = rfc::read_mpi(material, 0).ok_or("secret mpi")?;
            rfc::key::ecdh_unwrap(&k, &fp, d, &p.fields).ok_or_else(|| "ECDH unwrap (KDF / key wrap / padding) failed".to_string())
        }
        25 => {
            let (eph, alg, w) = xfields_parse(&p.fields, 32, p.version == 3).ok_or("x25519 fields layout")?;
            let key = rfc::key::x25519_unwrap(material.try_into().map_err(|_| "secret len")?, eph[..].try_into().unwrap(), &w)
                .ok_or("X25519 unwrap (HKDF / key wrap) failed")?;
            Ok(alg.into_iter().chain(key).collect())
        }
        26 => {
            let (eph, alg, w) = xfields_parse(&p.fields, 56, p.version == 3).ok_or("x448 fields layout")?;
            let key = rfc::key::x448_unwrap(material.try_into().map_err(|_| "secret len")?, eph[..].try_into().unwrap(), &w)
                .ok_or("X448 unwrap (HKDF / key wrap) failed")?;
            Ok(alg.into_iter().chain(key).collect())
        }
        a => Err(format!("algorithm {a} not handled")),
    }
}

/// reference: PKESK algorithm specific fields for the recipient
fn ref_pkesk_wrap(public: &RefPub, v3_alg: Option<u8>, sk: &[u8], rng: &mut ChaCha8Rng, long_pad: bool) -> Option<Vec<u8>> {
    let fp = public.fingerprint();
    match public.alg {
        18 => {
            let k = rfc::key::parse_ecdh_material(&public.material)?;
            let framing = match v3_alg {
                Some(a) => rfc::sym::session_key_v3(a, sk),
                None => rfc::sym::session_key_v6(sk),
            };
            let seed: [u8; 32] = rng.gen();
            if !long_pad {
                return rfc::key::ecdh_wrap(&k, &fp, &seed, &framing);
            }
            let (eph, shared) = rfc::key::ecdh_shared_sender(&k.oid, &k.point, &seed)?;
            let kek = rfc::key::ecdh_kek(&k, &fp, &shared)?;
            let wrapped = rfc::sym::aes_kw_wrap(&kek, &pad_to(&framing, 40))?;
            let mut f = rfc::mpi(&eph);
            f.push(wrapped.len() as u8);
            f.extend(wrapped);
            Some(f)
        }
        25 => {
            let seed: [u8; 32] = rng.gen();
            let (eph, w) = rfc::key::x25519_wrap(public.material[..].try_into().ok()?, &seed, sk)?;
            Some(xfields_encode(&eph, v3_alg, &w))
        }
        26 => {
            let mut seed = [0u8; 56];
            rng.fill_bytes(&mut seed);
            let (eph, w) = rfc::key::x448_wrap(public.material[..].try_into().ok()?, &seed, sk)?;
            Some(xfields_encode(&eph, v3_alg, &w))
        }
        _ => None,
    }
}

fn fam_pkesk_e2e(ctx: &mut Ctx) {
    use zoo::{Alg, Spec};
    let specs = [
        Spec::simple(false, Alg::Ed25519Legacy, Some(Alg::EcdhCv25519)),
        Spec::simple(false, Alg::Ed25519Legacy, Some(Alg::EcdhP256)),
        Spec::simple(false, Alg::Ed25519Legacy, Some(Alg::EcdhP384)),
        Spec::simple(false, Alg::Ed25519Legacy, Some(Alg::EcdhP521)),
        Spec::simple(false, Alg::Ed25519Legacy, Some(Alg::X25519)),
        Spec::simple(false, Alg::Ed25519Legacy, Some(Alg::X448)),
        Spec::simple(true, Alg::Ed25519, Some(Alg::EcdhP256)),
        Spec::simple(true, Alg::Ed25519, Some(Alg::EcdhP384)),
        Spec::simple(true, Alg::Ed25519, Some(Alg::EcdhP521)),
        Spec::simple(true, Alg::Ed25519, Some(Alg::X25519)),
        Spec::simple(true, Alg::Ed25519, Some(Alg::X448)),
    ];
    let nkeys = ctx.qt(1u64, 4u64);
    let payload = b"C12 public-key encrypted payload".to_vec();
    for (si, spec) in specs.iter().enumerate() {
        for ki in 0..nkeys {
            if !ctx.mine() {
                continue;
            }
            describe_case(&format!("pkesk e2e {} key {ki}", spec.name()));
            let key = zoo::key(spec, ki);
            let Some(sub) = key.secret_subkeys.first() else {
                ctx.inconclusive("zoo key without subkey");
                continue;
            };
            let body = sub.key.to_bytes().expect("subkey bytes");
            let Some(rs) = RefSecret::parse(&body) else {
                ctx.inconclusive("reference cannot parse zoo subkey");
                continue;
            };
            let Some(Ok(material)) = rs.unlock(7, b"") else {
                ctx.inconclusive("reference cannot read zoo subkey material");
                continue;
            };
            let public = rs.public.clone();
            let pkalg = public.alg;
            let cons = match pkalg {
                18 => "ecdh-msg",
                25 => "x25519-msg",
                _ => "x448-msg",
            };
            let (kdf_h, kek) = rfc::key::parse_ecdh_material(&public.material).map(|k| (k.kdf_hash, k.kek_alg)).unwrap_or((0, 0));
            let kname = format!("{}-k{}", spec.enc_sub.as_ref().map(|a| format!("{a:?}")).unwrap_or_default(), public.version);
            let ciphers: Vec<u8> = if ctx.quick() { vec![7, 8, 9, 3, 13] } else { rfc::sym::ALL_CIPHERS.to_vec() };

            // ---------------- PKESK v3 + SEIPDv1
            for &malg in &ciphers {
                let mut rng = ctx.rng("pkesk.v3", ((si as u64) << 24) | (ki << 16) | malg as u64);
                let rp = json!({"family": "pkesk-v3", "key": spec.name(), "key_index": ki, "msg_alg": malg});
                cov(ctx, cons, malg, 0, 0, 0, kdf_h, "esk3", &kname, "lib->ref");
                let rec = RecEncryptor::new(sub.key.public_key());
                let res = lib(ctx, &format!("C12/{cons}/lib-to-ref"), &rp, || {
                    let mut b = MessageBuilder::from_bytes("", payload.clone()).seipd_v1(rng.clone(), sym(malg));
                    b.encrypt_to_key(rng.clone(), &rec)?;
                    let sk = b.session_key().as_ref().to_vec();
                    b.to_vec(rng.clone()).map(|o| (sk, o))
                });
                if let Some(res) = res {
                    match res {
                        Err(e) => ctx.violation(format!("C12/{cons}/lib-to-ref/build-error"), format!("{} msg alg {malg}: {e}", spec.name()), rp.clone()),
                        Ok((sk, out)) => {
                            let seen = rec.seen.borrow().clone();
                            let verdict = (|| -> Result<(), (&'static str, String)> {
                                // framing handed to the public-key primitive
                                if pkalg == 18 {
                                    let want = rfc::sym::session_key_v3(malg, &sk);
                                    if seen.len() != 1 || seen[0].0 != want || seen[0].1 {
                                        return Err(("framing-handed-to-encrypt", format!("{:?} vs alg||key||sum16 {}", seen.iter().map(|s| hexs(&s.0)).collect::<Vec<_>>(), hexs(&want))));
                                    }
                                }
                                let pk = deframe(&out).map_err(|e| ("framing", e))?;
                                if pk.len() != 2 || pk[0].tag != 1 || pk[1].tag != 18 {
                                    return Err(("framing", format!("tags {:?}", pk.iter().map(|p| p.tag).collect::<Vec<_>>())));
                                }
                                let p = pkesk_parse(&pk[0].body).ok_or(("pkesk-layout", hexs(&pk[0].body)))?;
                                if p.version != 3 || p.alg != pkalg || p.key_id != public.key_id() {
                                    return Err(("pkesk-layout", format!("version {} alg {} key id {}", p.version, p.alg, hexs(&p.key_id))));
                                }
                                let fr = ref_pkesk_unwrap(&p, &public, &material).map_err(|e| ("unwrap-failed", e))?;
                                let want = if pkalg == 18 { rfc::sym::session_key_v3(malg, &sk) } else { [&[malg][..], &sk[..]].concat() };
                                if fr != want {
                                    return Err(("framing-differs", format!("recovered {} expected {}", hexs(&fr), hexs(&want))));
                                }
                                let inner = rfc::sym::seipd_v1_decrypt(malg, &sk, &pk[1].body[1..]).map_err(|e| ("seipd", format!("{e:?}")))?;
                                if parse_literal(&inner).map_err(|e| ("inner-stream", e))? != payload {
                                    return Err(("wrong-plaintext", String::new()));
                                }
                                Ok(())
                            })();
                            if let Err((sy, d)) = verdict {
                                ctx.violation(
                                    format!("C12/{cons}/lib-to-ref/{sy}"),
                                    format!("PKESKv3 + SEIPDv1 message made by the library for {} (subkey alg {pkalg}, KDF hash {kdf_h}, KEK {kek}) is not readable under the RFC with the recipient's secret: {d}", spec.name()),
                                    rp.clone(),
                                );
                            }
                        }
                    }
                }
                // reference -> library
                for long_pad in [false, true] {
                    if long_pad && pkalg != 18 {
                        continue;
                    }
                    let sk = rbytes(&mut rng, rfc::sym::key_size(malg).unwrap());
                    let Some(fields) = ref_pkesk_wrap(&public, Some(malg), &sk, &mut rng, long_pad) else {
                        ctx.inconclusive("reference cannot wrap for this key");
                        continue;
                    };
                    let b1 = pkesk_encode(&RefPkesk { version: 3, key_id: public.key_id(), fp_version: 0, fp: vec![], alg: pkalg, fields });
                    let prefix = rbytes(&mut rng, rfc::sym::block_size(malg).unwrap());
                    let mut b18 = vec![1u8];
                    b18.extend(rfc::sym::seipd_v1_encrypt(malg, &sk, &prefix, &ref_literal(&payload)).expect("ref seipd1"));
                    let mut bytes = frame(1, &b1, &LenForm::NewMin).unwrap();
                    bytes.extend(frame(18, &b18, &LenForm::NewMin).unwrap());
                    let rp = json!({"family": "pkesk-v3-ref", "key": spec.name(), "key_index": ki, "msg_alg": malg, "message": hexs(&bytes)});
                    cov(ctx, cons, malg, 0, 0, 0, kdf_h, if long_pad { "esk3-pad40" } else { "esk3" }, &kname, "ref->lib");
                    let res = lib(ctx, &format!("C12/{cons}/ref-to-lib"), &rp, || {
                        let pw = Password::empty();
                        let ring = TheRing { secret_keys: vec![&key], key_passwords: vec![&pw], ..Default::default() };
                        lib_read_msg(&bytes, ring)
                    });
                    match res {
                        Some(Ok(d)) if d == payload => {}
                        Some(Ok(_)) => ctx.violation(format!("C12/{cons}/ref-to-lib/wrong-plaintext"), spec.name(), rp),
                        Some(Err(e)) => ctx.violation(
                            format!("C12/{cons}/ref-to-lib/rejected/{}", if long_pad { "long-padding" } else { "v3" }),
                            format!("library cannot read a reference-made PKESKv3 + SEIPDv1 message to {} (subkey alg {pkalg}): {e}", spec.name()),
                            rp,
                        ),
                        None => {}
                    }
                }
            }

            // ---------------- PKESK v6 + SEIPDv2
            for &s in &AES {
                for &a in &AEADS {
                    if ctx.quick() && (s + a + si as u8) % 3 != 0 {
                        continue;
                    }
                    let mut rng = ctx.rng("pkesk.v6", ((si as u64) << 24) | (ki << 16) | ((s as u64) << 8) | a as u64);
                    let co = [0u8, 3, 6][rng.gen_range(0..3)];
                    let rp = json!({"family": "pkesk-v6", "key": spec.name(), "key_index": ki, "sym": s, "aead": a});
                    cov(ctx, cons, s, a, co, 0, kdf_h, "esk6", &kname, "lib->ref");
                    let rec = RecEncryptor::new(sub.key.public_key());
                    let res = lib(ctx, &format!("C12/{cons}/lib-to-ref"), &rp, || {
                        let mut b = MessageBuilder::from_bytes("", payload.clone()).seipd_v2(rng.clone(), sym(s), aead(a), chunk(co));
                        b.encrypt_to_key(rng.clone(), &rec)?;
                        let sk = b.session_key().as_ref().to_vec();
                        b.to_vec(rng.clone()).map(|o| (sk, o))
                    });
                    if let Some(res) = res {
                        match res {
                            Err(e) => ctx.violation(format!("C12/{cons}/lib-to-ref/build-error"), format!("{} v6 esk sym {s}: {e}", spec.name()), rp.clone()),
                            Ok((sk, out)) => {
                                let seen = rec.seen.borrow().clone();
                                let verdict = (|| -> Result<(), (&'static str, String)> {
                                    if pkalg == 18 {
                                        let want = rfc::sym::session_key_v6(&sk);
                                        if seen.len() != 1 || seen[0].0 != want || !seen[0].1 {
                                            return Err(("framing-handed-to-encrypt", format!("{:?} vs key||sum16 {}", seen.iter().map(|s| hexs(&s.0)).collect::<Vec<_>>(), hexs(&want))));
                                        }
                                    }
                                    let pk = deframe(&out).map_err(|e| ("framing", e))?;
                                    if pk.len() != 2 || pk[0].tag != 1 || pk[1].tag != 18 {
                                        return Err(("framing", format!("tags {:?}", pk.iter().map(|p| p.tag).collect::<Vec<_>>())));
                                    }
                                    let p = pkesk_parse(&pk[0].body).ok_or(("pkesk-layout", hexs(&pk[0].body)))?;
                                    if p.version != 6 || p.alg != pkalg || p.fp_version != public.version || p.fp != public.fingerprint() {
                                        return Err(("pkesk-layout", format!("version {} alg {} key version {} fingerprint {}", p.version, p.alg, p.fp_version, hexs(&p.fp))));
                                    }
                                    let fr = ref_pkesk_unwrap(&p, &public, &material).map_err(|e| ("unwrap-failed", e))?;
                                    let want = if pkalg == 18 { rfc::sym::session_key_v6(&sk) } else { sk.clone() };
                                    if fr != want {
                                        return Err(("framing-differs", format!("recovered {} expected {}", hexs(&fr), hexs(&want))));
                                    }
                                    let inner = rfc::sym::seipd_v2_decrypt(&pk[1].body, &sk).map_err(|e| ("seipd", format!("{e:?}")))?;
                                    if parse_literal(&inner).map_err(|e| ("inner-stream", e))? != payload {
                                        return Err(("wrong-plaintext", String::new()));
                                    }
                                    Ok(())
                                })();
                                if let Err((sy, d)) = verdict {
                                    ctx.violation(
                                        format!("C12/{cons}/lib-to-ref/{sy}"),
                                        format!("PKESKv6 + SEIPDv2 message made by the library for {} (subkey alg {pkalg}) is not readable under the RFC with the recipient's secret: {d}", spec.name()),
                                        rp.clone(),
                                    );
                                }
                            }
                        }
                    }
                    // reference -> library
                    let sk = rbytes(&mut rng, rfc::sym::key_size(s).unwrap());
                    let Some(fields) = ref_pkesk_wrap(&public, None, &sk, &mut rng, false) else {
                        ctx.inconclusive("reference cannot wrap for this key");
                        continue;
                    };
                    let b1 = pkesk_encode(&RefPkesk { version: 6, key_id: [0; 8], fp_version: public.version, fp: public.fingerprint(), alg: pkalg, fields });
                    let salt: [u8; 32] = rng.gen();
                    let b18 = rfc::sym::seipd_v2_encrypt(s, a, co, &salt, &sk, &ref_literal(&payload)).expect("ref seipd2");
                    let mut bytes = frame(1, &b1, &LenForm::NewMin).unwrap();
                    bytes.extend(frame(18, &b18, &LenForm::NewMin).unwrap());
                    let rp = json!({"family": "pkesk-v6-ref", "key": spec.name(), "key_index": ki, "sym": s, "aead": a, "message": hexs(&bytes)});
                    cov(ctx, cons, s, a, co, 0, kdf_h, "esk6", &kname, "ref->lib");
                    let res = lib(ctx, &format!("C12/{cons}/ref-to-lib"), &rp, || {
                        let pw = Password::empty();
                        let ring = TheRing { secret_keys: vec![&key], key_passwords: vec![&pw], ..Default::default() };
                        lib_read_msg(&bytes, ring)
                    });
                    match res {
                        Some(Ok(d)) if d == payload => {}
                        Some(Ok(_)) => ctx.violation(format!("C12/{cons}/ref-to-lib/wrong-plaintext"), spec.name(), rp),
                        Some(Err(e)) => ctx.violation(
                            format!("C12/{cons}/ref-to-lib/rejected/v6"),
                            format!("library cannot read a reference-made PKESKv6 + SEIPDv2 message to {} (subkey alg {pkalg}): {e}", spec.name()),
                            rp,
                        ),
                        None => {}
                    }
                    if si == 9 && s == 9 && a == 2 {
                        ctx.sample(json!({"family": "pkesk-v6", "key": spec.name(), "sym": s, "aead": a, "reference_message": hexs(&bytes)}));
                    }
                }
            }
        }
    }
}

// =============================================================================================
// (8) THE ACCEPTING SIDE — reference-made near misses.
//
// For every construction checked above in the emit / round-trip direction, a sender that holds the
// right keys builds a stream that deviates from RFC 9580 in exactly ONE element of the construction
// (one padding octet, the key wrap IV, one octet of the HKDF info, the associated data of the final
// tag, the memory exponent of an Argon2 specifier, ...). The independent reference refuses each of
// them (checked first; a deviation that coincides with a valid stream is judged by what the
// reference reads out of it). The library must refuse them too: "the byte streams the library
// accepts are exactly those obtained by composing the primitives as the RFC specifies".
// =============================================================================================

/// Outcome of handing a near miss to the library. `accepted` describes what came back on success.
fn must_refuse(ctx: &mut Ctx, set: &str, item: &str, accepted: Option<String>, sig: String, detail: String, replay: &Value) {
    ctx.seen(set, item);
    ctx.tally(&format!("{set}.executions"), 1);
    if let Some(got) = accepted {
        ctx.violation(sig, format!("{detail}; the library returned {got}"), replay.clone());
    }
}

fn ceil_log2(p: u8) -> u8 {
    let mut e = 0u8;
    while (1u32 << e) < p as u32 {
        e += 1;
    }
    e
}

/// RFC 9580 3.7.1.4: t >= 1, p >= 1, encoded memory 3+ceil(log2 p) ..= 31
fn argon2_legal(t: u8, p: u8, m: u8) -> bool {
    t >= 1 && p >= 1 && m >= 3 + ceil_log2(p) && m <= 31
}

fn argon2_class(t: u8, p: u8, m: u8) -> &'static str {
    if p == 0 {
        "p-zero"
    } else if t == 0 {
        "t-zero"
    } else if m > 31 {
        "m-above-31"
    } else if m < 3 + ceil_log2(p) {
        "m-below-minimum"
    } else {
        "legal"
    }
}

/// What a sender that ignores the RFC's parameter range would plausibly compute: every parameter
/// Argon2 itself cannot work with is raised to the smallest value Argon2 accepts.
fn argon2_sloppy(salt: &[u8; 16], t: u8, p: u8, m: u8, pw: &[u8], ks: usize) -> Option<Vec<u8>> {
    let p2 = p.max(1) as u32;
    let t2 = t.max(1) as u32;
    let mem = if m > 31 { 8 * p2 } else { (1u32 << m).max(8 * p2) };
    if mem > 1 << 12 {
        return None; // keep it cheap
    }
    let params = argon2::Params::new(mem, t2, p2, Some(ks)).ok()?;
    let a = argon2::Argon2::new(argon2::Algorithm::Argon2id, argon2::Version::V0x13, params);
    let mut out = vec![0u8; ks];
    a.hash_password_into(pw, salt, &mut out).ok()?;
    Some(out)
}

/// Argon2 parameter triples outside the RFC's range (all of them), cheap to refuse.
fn argon2_illegal_grid() -> Vec<(u8, u8, u8)> {
    let mut v = vec![];
    for p in [1u8, 2, 3, 4, 5, 7, 8, 9, 15, 16, 17, 31, 32] {
        for m in 0..3 + ceil_log2(p) {
            v.push((1 + (p + m) % 3, p, m));
        }
    }
    for t in [1u8, 3] {
        for m in [0u8, 3, 8] {
            v.push((t, 0, m));
        }
    }
    for p in [1u8, 4] {
        for m in [3 + ceil_log2(p), 6] {
            v.push((0, p, m));
        }
    }
    v.push((0, 0, 0));
    for m in [32u8, 33, 64, 255] {
        v.push((1, 1, m));
    }
    v
}

fn lib_skesk_parse(body: &[u8]) -> pgp::errors::Result<pgp::packet::SymKeyEncryptedSessionKey> {
    pgp::packet::SymKeyEncryptedSessionKey::try_from_reader(PacketHeader::new_fixed(Tag::SymKeyEncryptedSessionKey, body.len() as u32), body)
}

fn lib_skesk_open(body: &[u8], pw: &[u8]) -> Result<PlainSessionKey, String> {
    let p = lib_skesk_parse(body).map_err(|e| format!("parse: {e}"))?;
    pgp::composed::decrypt_session_key_with_password(&p, &Password::from(pw)).map_err(|e| format!("decrypt: {e}"))
}

fn sk_desc(k: &PlainSessionKey) -> String {
    match k {
        PlainSessionKey::V3_4 { sym_alg, key } => format!("session key (v3/4) alg {} key {}", u8::from(*sym_alg), hexs(key.as_ref())),
        PlainSessionKey::V6 { key } => format!("session key (v6) {}", hexs(key.as_ref())),
        other => format!("{other:?}"),
    }
}

/// SKESK v4 body from a given key-encryption key
fn skesk_v4_with_key(sym_: u8, s2k: &[u8], kek: &[u8], session: Option<&[u8]>) -> Option<Vec<u8>> {
    let mut o = vec![4u8, sym_];
    o.extend_from_slice(s2k);
    if let Some(pt) = session {
        let mut pt = pt.to_vec();
        rfc::sym::cfb_encrypt(sym_, kek, &vec![0u8; rfc::sym::block_size(sym_)?], &mut pt)?;
        o.extend(pt);
    }
    Some(o)
}

/// SKESK v6 body (RFC 9580 5.3.2) from given S2K output `ikm`, with one element of the construction
/// changed according to `dev` ("" = the RFC's construction).
fn skesk_v6_dev(s: u8, a: u8, s2k: &[u8], ikm: &[u8], iv: &[u8], sk: &[u8], dev: &str) -> Option<Vec<u8>> {
    let ks = rfc::sym::key_size(s)?;
    let info = [0xC3u8, 6, s, a];
    let hinfo: Vec<u8> = match dev {
        "hkdf-info-empty" => vec![],
        "hkdf-info-version-5" => vec![0xC3, 5, s, a],
        "hkdf-info-without-aead-octet" => vec![0xC3, 6, s],
        "hkdf-info-plain-tag-octet" => vec![3, 6, s, a],
        "hkdf-info-of-seipd" => vec![0xD2, 2, s, a],
        _ => info.to_vec(),
    };
    let kek = match dev {
        "kek-is-s2k-output" => ikm[..ks].to_vec(),
        "hkdf-sha512" => {
            let hk = hkdf::Hkdf::<sha2::Sha512>::new(None, ikm);
            let mut o = vec![0u8; ks];
            hk.expand(&hinfo, &mut o).ok()?;
            o
        }
        "hkdf-salt-is-s2k-specifier" => rfc::sym::hkdf_sha256(Some(s2k), ikm, &hinfo, ks),
        "hkdf-salt-32-zero-octets-and-info-empty" => rfc::sym::hkdf_sha256(Some(&[0u8; 32]), ikm, &[], ks),
        _ => rfc::sym::hkdf_sha256(None, ikm, &hinfo, ks),
    };
    let ad: Vec<u8> = match dev {
        "ad-empty" => vec![],
        "ad-without-version" => vec![0xC3, s, a],
        "ad-version-5" => vec![0xC3, 5, s, a],
        "ad-plain-tag-octet" => vec![3, 6, s, a],
        "ad-with-octet-count" => [&info[..], &(sk.len() as u64).to_be_bytes()].concat(),
        "ad-with-s2k-specifier" => [&info[..], s2k].concat(),
        "ad-cipher-and-aead-swapped" => vec![0xC3, 6, a, s],
        _ => info.to_vec(),
    };
    let mut ct = rfc::sym::aead_seal(s, a, &kek, iv, &ad, sk)?;
    match dev {
        "tag-truncated-by-one-octet" => {
            ct.pop();
        }
        "tag-missing" => ct.truncate(sk.len()),
        "tag-first-octet-flipped" => ct[sk.len()] ^= 0x01,
        "tag-last-octet-flipped" => *ct.last_mut()? ^= 0x80,
        _ => {}
    }
    let mut o = vec![6u8, (3 + s2k.len() + iv.len()) as u8, s, a, s2k.len() as u8];
    o.extend_from_slice(s2k);
    o.extend_from_slice(iv);
    o.extend(ct);
    Some(o)
}

const SKESK6_DEVS: [&str; 22] = [
    "hkdf-info-empty",
    "hkdf-info-version-5",
    "hkdf-info-without-aead-octet",
    "hkdf-info-plain-tag-octet",
    "hkdf-info-of-seipd",
    "kek-is-s2k-output",
    "hkdf-sha512",
    "hkdf-salt-is-s2k-specifier",
    "hkdf-salt-32-zero-octets-and-info-empty",
    "ad-empty",
    "ad-without-version",
    "ad-version-5",
    "ad-plain-tag-octet",
    "ad-with-octet-count",
    "ad-with-s2k-specifier",
    "ad-cipher-and-aead-swapped",
    "tag-truncated-by-one-octet",
    "tag-missing",
    "tag-first-octet-flipped",
    "tag-last-octet-flipped",
    "session-key-under-other-password",
    "iv-last-octet-flipped",
];

// ---------------------------------------------------------------------------------------------
// (8.1) S2K parameter sets outside the RFC's range: derive_key, SKESK v4/v6 decryption and
// encryption; unknown hash ids and specifier types

fn fam_accept_s2k(ctx: &mut Ctx) {
    let grid = argon2_illegal_grid();
    // ---- derive_key on every illegal triple, and the legal boundary next to it against the reference
    for (gi, group) in grid.chunks(8).enumerate() {
        if !ctx.mine() {
            continue;
        }
        describe_case(&format!("s2k argon2 outside the range, group {gi}"));
        for (k, &(t, p, m)) in group.iter().enumerate() {
            let mut rng = ctx.rng("accept.s2k.argon", (gi * 8 + k) as u64);
            let salt: [u8; 16] = rng.gen();
            let cls = argon2_class(t, p, m);
            for ks in [16usize, 32] {
                let pw = { let n = [0usize, 8, 30][rng.gen_range(0..3)]; rbytes(&mut rng, n) };
                let r = RefS2k::Argon2 { salt, t, p, m };
                let rp = json!({"family": "s2k-outside-range", "s2k": hexs(&r.encode()), "pw": hexs(&pw), "key_size": ks});
                // (the reference's Argon2 arm computes 1 << m: keep it away from m >= 32)
                if argon2_legal(t, p, m) || (m <= 31 && r.derive(&pw, ks).is_some()) {
                    ctx.inconclusive("argon2 triple meant to be illegal is derivable by the reference");
                    continue;
                }
                cov(ctx, "s2k-range", 0, 0, 0, 4, 0, cls, &format!("t{t}p{p}m{m}ks{ks}"), "refuse");
                let l = lib_s2k(&r);
                let got = lib(ctx, "C12/s2k", &rp, || l.derive_key(&pw, ks).map(|k| k.as_ref().to_vec()));
                let Some(got) = got else { continue };
                must_refuse(
                    ctx,
                    "near-miss.s2k",
                    &format!("argon2-{cls}"),
                    got.ok().map(|k| format!("the key {}", hexs(&k))),
                    format!("C12/s2k/derives-outside-rfc-range/argon2-{cls}"),
                    format!("StringToKey::derive_key produced a key for an Argon2 specifier RFC 9580 3.7.1.4 does not define (t={t}, p={p}, encoded m={m}; required t>=1, p>=1, 3+ceil(log2 p) <= m <= 31)"),
                    &rp,
                );
            }
        }
    }
    // the legal boundary m = 3+ceil(log2 p) for every p the illegal grid uses (library must agree with Argon2)
    for (pi, p) in [1u8, 2, 3, 4, 5, 7, 8, 9, 15, 16, 17, 31, 32].into_iter().enumerate() {
        if !ctx.mine() {
            continue;
        }
        describe_case(&format!("s2k argon2 smallest legal memory p {p}"));
        let mut rng = ctx.rng("accept.s2k.boundary", pi as u64);
        let m = 3 + ceil_log2(p);
        let r = RefS2k::Argon2 { salt: rng.gen(), t: 1, p, m };
        let pw = rbytes(&mut rng, 9);
        s2k_check(ctx, &r, &pw, [16usize, 24, 32][pi % 3], &format!("t1p{p}m{m}-min"));
        ctx.seen("s2k.argon2.legal-boundary", format!("p{p}m{m}"));
    }
    // ---- unknown hash ids in salted / iterated specifiers, unknown specifier types
    if ctx.mine() {
        describe_case("s2k unknown hash / type");
        let mut rng = ctx.rng("accept.s2k.unknown", 0);
        for h in [0u8, 4, 5, 6, 7, 13, 15, 16, 100, 110, 255] {
            for kind in ["salted", "iterated"] {
                let salt: [u8; 8] = rng.gen();
                let l = if kind == "salted" {
                    StringToKey::Salted { hash_alg: HashAlgorithm::from(h), salt }
                } else {
                    StringToKey::IteratedAndSalted { hash_alg: HashAlgorithm::from(h), salt, count: 0 }
                };
                let rp = json!({"family": "s2k-unknown-hash", "hash": h, "kind": kind});
                let got = lib(ctx, "C12/s2k", &rp, || l.derive_key(b"pw", 16).map(|k| k.as_ref().to_vec()));
                let Some(got) = got else { continue };
                must_refuse(
                    ctx,
                    "near-miss.s2k",
                    &format!("unknown-hash-{kind}"),
                    got.ok().map(|k| format!("the key {}", hexs(&k))),
                    format!("C12/s2k/unknown-hash-derives/{kind}"),
                    format!("derive_key with undefined hash id {h} in a {kind} specifier"),
                    &rp,
                );
            }
        }
        for typ in (2u8..=2).chain(5..=255) {
            let mut b = vec![typ, 8];
            b.extend(rbytes(&mut rng, 24));
            let rp = json!({"family": "s2k-unknown-type", "specifier": hexs(&b)});
            let got = lib(ctx, "C12/s2k", &rp, || StringToKey::try_from_reader(&b[..]).ok().and_then(|s| s.derive_key(b"pw", 16).ok().map(|k| k.as_ref().to_vec())));
            let Some(got) = got else { continue };
            must_refuse(
                ctx,
                "near-miss.s2k",
                "unknown-type",
                got.map(|k| format!("the key {}", hexs(&k))),
                "C12/s2k/unknown-type-derives".to_string(),
                format!("a specifier of undefined S2K type {typ} was parsed and derive_key produced a key from it"),
                &rp,
            );
        }
    }
    // ---- SKESK v4 / v6 whose Argon2 specifier is outside the range: made by a sender that raises the
    // parameters to what Argon2 can work with; the library must neither open nor emit such packets
    let payload = b"C12 s2k range payload".to_vec();
    let sub: Vec<(u8, u8, u8)> = grid.iter().copied().filter(|&(_, p, _)| p <= 16).collect();
    for (gi, group) in sub.chunks(6).enumerate() {
        if !ctx.mine() {
            continue;
        }
        describe_case(&format!("skesk with argon2 outside the range, group {gi}"));
        for (k, &(t, p, m)) in group.iter().enumerate() {
            let idx = (gi * 6 + k) as u64;
            let mut rng = ctx.rng("accept.s2k.skesk", idx);
            let salt: [u8; 16] = rng.gen();
            let cls = argon2_class(t, p, m);
            let r = RefS2k::Argon2 { salt, t, p, m };
            let s2kb = r.encode();
            let pw = { let n = rng.gen_range(1..20); rbytes(&mut rng, n) };
            let s = AES[(idx % 3) as usize];
            let a = AEADS[((idx / 3) % 3) as usize];
            let ks = rfc::sym::key_size(s).unwrap();
            let Some(kek) = argon2_sloppy(&salt, t, p, m, &pw, ks) else {
                ctx.inconclusive("no sloppy Argon2 derivation for this triple");
                continue;
            };
            let sk = rbytes(&mut rng, ks);
            let iv = rbytes(&mut rng, rfc::sym::aead_nonce_len(a).unwrap());
            // v4 with an encrypted session key, v4 without, v6
            let mut esk = vec![s];
            esk.extend(&sk);
            let b4 = skesk_v4_with_key(s, &s2kb, &kek, Some(&esk)).expect("skesk4");
            let b4n = skesk_v4_with_key(s, &s2kb, &kek, None).expect("skesk4");
            let b6 = skesk_v6_dev(s, a, &s2kb, &kek, &iv, &sk, "").expect("skesk6");
            let prefix = rbytes(&mut rng, 16);
            let mut m18v1 = vec![1u8];
            m18v1.extend(rfc::sym::seipd_v1_encrypt(s, &sk, &prefix, &ref_literal(&payload)).expect("ref seipd1"));
            let mut m18v1n = vec![1u8];
            m18v1n.extend(rfc::sym::seipd_v1_encrypt(s, &kek, &prefix, &ref_literal(&payload)).expect("ref seipd1"));
            let salt32: [u8; 32] = rng.gen();
            let m18v2 = rfc::sym::seipd_v2_encrypt(s, a, 0, &salt32, &sk, &ref_literal(&payload)).expect("ref seipd2");
            for (ver, body3, body18) in [("skesk4", &b4, &m18v1), ("skesk4-no-esk", &b4n, &m18v1n), ("skesk6", &b6, &m18v2)] {
                let rp = json!({"family": "skesk-s2k-outside-range", "version": ver, "s2k": hexs(&s2kb), "pw": hexs(&pw), "skesk_body": hexs(body3)});
                cov(ctx, "skesk-s2k-range", s, if ver == "skesk6" { a } else { 0 }, 0, 4, 0, cls, ver, "refuse");
                // packet level
                if let Some(r) = lib(ctx, "C12/skesk/s2k-range", &rp, || lib_skesk_open(body3, &pw)) {
                    must_refuse(
                        ctx,
                        "near-miss.skesk-s2k-range",
                        &format!("{ver}/argon2-{cls}"),
                        r.ok().map(|k| sk_desc(&k)),
                        format!("C12/{}/accepts-s2k-outside-rfc-range/argon2-{cls}", &ver[..6]),
                        format!("a {ver} packet whose Argon2 specifier is outside RFC 9580 3.7.1.4 (t={t}, p={p}, encoded m={m}) was opened with the password"),
                        &rp,
                    );
                }
                // message level
                let mut bytes = frame(3, body3, &LenForm::NewMin).unwrap();
                bytes.extend(frame(18, body18, &LenForm::NewMin).unwrap());
                if let Some(r) = lib(ctx, "C12/skesk/s2k-range", &rp, || {
                    let pwd = Password::from(&pw[..]);
                    lib_read_msg(&bytes, TheRing { message_password: vec![&pwd], ..Default::default() })
                }) {
                    must_refuse(
                        ctx,
                        "near-miss.skesk-s2k-range",
                        &format!("{ver}-message/argon2-{cls}"),
                        r.ok().map(|d| format!("{} octets of plaintext", d.len())),
                        format!("C12/{}/accepts-s2k-outside-rfc-range/argon2-{cls}", &ver[..6]),
                        format!("a password-encrypted message whose {ver} packet has an Argon2 specifier outside RFC 9580 3.7.1.4 (t={t}, p={p}, encoded m={m}) was decrypted"),
                        &rp,
                    );
                }
            }
            // emitting side: the library must not write a packet nobody can open under the RFC
            let rp = json!({"family": "skesk-emit-s2k-outside-range", "s2k": hexs(&s2kb), "pw": hexs(&pw)});
            let pwd = Password::from(&pw[..]);
            let rsk = RawSessionKey::from(sk.clone());
            if let Some(r) = lib(ctx, "C12/skesk/s2k-range", &rp, || {
                pgp::packet::SymKeyEncryptedSessionKey::encrypt_v4(&pwd, &rsk, lib_s2k(&r), sym(s)).and_then(|p| p.to_bytes())
            }) {
                must_refuse(
                    ctx,
                    "near-miss.skesk-s2k-range",
                    &format!("skesk4-emit/argon2-{cls}"),
                    r.ok().map(|b| format!("the packet body {}", hexs(&b))),
                    format!("C12/skesk4/emits-s2k-outside-rfc-range/argon2-{cls}"),
                    format!("encrypt_v4 wrote a packet with an Argon2 specifier outside RFC 9580 3.7.1.4 (t={t}, p={p}, encoded m={m}): no key is defined for it"),
                    &rp,
                );
            }
            if let Some(r) = lib(ctx, "C12/skesk/s2k-range", &rp, || {
                pgp::packet::SymKeyEncryptedSessionKey::encrypt_v6(rng.clone(), &pwd, &rsk, lib_s2k(&r), sym(s), aead(a)).and_then(|p| p.to_bytes())
            }) {
                must_refuse(
                    ctx,
                    "near-miss.skesk-s2k-range",
                    &format!("skesk6-emit/argon2-{cls}"),
                    r.ok().map(|b| format!("the packet body {}", hexs(&b))),
                    format!("C12/skesk6/emits-s2k-outside-rfc-range/argon2-{cls}"),
                    format!("encrypt_v6 wrote a packet with an Argon2 specifier outside RFC 9580 3.7.1.4 (t={t}, p={p}, encoded m={m}): no key is defined for it"),
                    &rp,
                );
            }
        }
    }
}

// ---------------------------------------------------------------------------------------------
// (8.2) SKESK v6 with one element of the construction wrong; SKESK v4 whose decrypted session key
// framing is not "algorithm octet || key of that algorithm's size"

fn fam_accept_skesk(ctx: &mut Ctx) {
    let payload = b"C12 skesk near miss payload".to_vec();
    for &s in &AES {
        for &a in &AEADS {
            if !ctx.mine() {
                continue;
            }
            describe_case(&format!("skesk v6 near misses sym {s} aead {a}"));
            let ks = rfc::sym::key_size(s).unwrap();
            let ns = rfc::sym::aead_nonce_len(a).unwrap();
            for (di, dev) in SKESK6_DEVS.iter().enumerate() {
                let mut rng = ctx.rng("accept.skesk6", ((s as u64) << 24) | ((a as u64) << 16) | di as u64);
                let h = STRONG_HASHES[rng.gen_range(0..STRONG_HASHES.len())];
                let r = mk_s2k(&mut rng, [1usize, 1, 2, 0][di % 4], h);
                let (k, hh, _) = s2k_kind(&r);
                let pw = { let n = rng.gen_range(1..30); rbytes(&mut rng, n) };
                let Some(mut ikm) = r.derive(&pw, ks) else {
                    ctx.inconclusive("reference cannot derive");
                    continue;
                };
                if *dev == "session-key-under-other-password" {
                    let mut pw2 = pw.clone();
                    *pw2.last_mut().unwrap() ^= 1;
                    ikm = r.derive(&pw2, ks).expect("derive");
                }
                let sk = rbytes(&mut rng, ks);
                let iv = rbytes(&mut rng, ns);
                let Some(mut body3) = skesk_v6_dev(s, a, &r.encode(), &ikm, &iv, &sk, dev) else {
                    ctx.inconclusive("reference cannot build this SKESK v6 near miss");
                    continue;
                };
                if *dev == "iv-last-octet-flipped" {
                    let p = 5 + r.encode().len() + ns - 1;
                    body3[p] ^= 0x10;
                }
                // the control: the same builder without deviation is the reference's own packet
                if di == 0 && skesk_v6_dev(s, a, &r.encode(), &ikm, &iv, &sk, "") != rfc::sym::skesk_v6_encode(s, a, &r, &pw, &iv, &sk) {
                    ctx.inconclusive("near-miss builder does not reproduce the reference SKESK v6");
                    continue;
                }
                if !matches!(rfc::sym::skesk_v6_decrypt(&body3, &pw), None | Some(Err(()))) {
                    ctx.tally("near-miss.skesk6.coincides-with-valid", 1);
                    continue;
                }
                let rp = json!({"family": "skesk6-near-miss", "deviation": dev, "sym": s, "aead": a, "s2k": hexs(&r.encode()), "pw": hexs(&pw), "skesk_body": hexs(&body3)});
                cov(ctx, "skesk6-near", s, a, 0, k, hh, dev, "-", "refuse");
                if let Some(res) = lib(ctx, "C12/skesk6/near-miss", &rp, || lib_skesk_open(&body3, &pw)) {
                    must_refuse(
                        ctx,
                        "near-miss.skesk6",
                        dev,
                        res.ok().map(|k| sk_desc(&k)),
                        format!("C12/skesk6/accepts-non-rfc-packet/{dev}"),
                        format!("an SKESK v6 packet that deviates from RFC 9580 5.3.2 in one element ({dev}; sym {s}, aead {a}) was opened with the password"),
                        &rp,
                    );
                }
                let salt: [u8; 32] = rng.gen();
                let body18 = rfc::sym::seipd_v2_encrypt(s, a, 0, &salt, &sk, &ref_literal(&payload)).expect("ref seipd2");
                let mut bytes = frame(3, &body3, &LenForm::NewMin).unwrap();
                bytes.extend(frame(18, &body18, &LenForm::NewMin).unwrap());
                if let Some(res) = lib(ctx, "C12/skesk6/near-miss", &rp, || {
                    let pwd = Password::from(&pw[..]);
                    lib_read_msg(&bytes, TheRing { message_password: vec![&pwd], ..Default::default() })
                }) {
                    must_refuse(
                        ctx,
                        "near-miss.skesk6-message",
                        dev,
                        res.ok().map(|d| format!("{} octets of plaintext", d.len())),
                        format!("C12/skesk6/accepts-non-rfc-packet/{dev}"),
                        format!("a message whose SKESK v6 packet deviates from RFC 9580 5.3.2 in one element ({dev}; sym {s}, aead {a}) was decrypted with the password"),
                        &rp,
                    );
                }
            }
        }
    }
    // ---- v4: CFB has no integrity; what can and must be refused is a decrypted framing that is not
    // "algorithm octet || key of exactly that algorithm's size"
    for &alg in rfc::sym::ALL_CIPHERS.iter() {
        if !ctx.mine() {
            continue;
        }
        describe_case(&format!("skesk v4 framing near misses alg {alg}"));
        let ks = rfc::sym::key_size(alg).unwrap();
        for (di, dev) in ["algorithm-octet-00", "algorithm-octet-unknown", "algorithm-octet-other-key-size", "key-one-octet-short", "key-one-octet-long", "key-missing"].iter().enumerate() {
            let mut rng = ctx.rng("accept.skesk4", ((alg as u64) << 8) | di as u64);
            let h = STRONG_HASHES[rng.gen_range(0..STRONG_HASHES.len())];
            let r = mk_s2k(&mut rng, di % 2, h);
            let pw = { let n = rng.gen_range(1..30); rbytes(&mut rng, n) };
            let malg = rfc::sym::ALL_CIPHERS[rng.gen_range(0..11)];
            let mks = rfc::sym::key_size(malg).unwrap();
            let (oct, klen) = match *dev {
                "algorithm-octet-00" => (0u8, mks),
                "algorithm-octet-unknown" => ([5u8, 6, 14, 99, 110, 255][rng.gen_range(0..6)], mks),
                "algorithm-octet-other-key-size" => (*rfc::sym::ALL_CIPHERS.iter().find(|c| rfc::sym::key_size(**c) != Some(mks)).unwrap(), mks),
                "key-one-octet-short" => (malg, mks - 1),
                "key-one-octet-long" => (malg, mks + 1),
                _ => (malg, 0),
            };
            let mut pt = vec![oct];
            pt.extend(rbytes(&mut rng, klen));
            let kek = r.derive(&pw, ks).expect("derive");
            let body3 = skesk_v4_with_key(alg, &r.encode(), &kek, Some(&pt)).expect("skesk4");
            // reference reading: algorithm known and key of its size
            if rfc::sym::key_size(oct) == Some(klen) && oct != 0 {
                ctx.inconclusive("skesk v4 framing near miss is a valid framing");
                continue;
            }
            let rp = json!({"family": "skesk4-near-miss", "deviation": dev, "alg": alg, "s2k": hexs(&r.encode()), "pw": hexs(&pw), "skesk_body": hexs(&body3)});
            cov(ctx, "skesk4-near", alg, 0, 0, s2k_kind(&r).0, s2k_kind(&r).1, dev, "-", "refuse");
            if let Some(res) = lib(ctx, "C12/skesk4/near-miss", &rp, || lib_skesk_open(&body3, &pw)) {
                must_refuse(
                    ctx,
                    "near-miss.skesk4",
                    dev,
                    res.ok().map(|k| sk_desc(&k)),
                    format!("C12/skesk4/accepts-non-rfc-packet/{dev}"),
                    format!("an SKESK v4 packet whose encrypted session key is not 'algorithm octet || key of that size' ({dev}: octet {oct}, {klen} key octets) was opened"),
                    &rp,
                );
            }
        }
    }
}

// ---------------------------------------------------------------------------------------------
// (8.3) AES key wrap (RFC 3394) with another initial value, a modified or re-sized wrapping

/// RFC 3394 2.2.1 with a caller-chosen initial value (the RFC's is A6A6A6A6A6A6A6A6)
fn kw_wrap_iv(kek: &[u8], data: &[u8], iv: [u8; 8]) -> Option<Vec<u8>> {
    if data.len() % 8 != 0 || data.len() < 16 {
        return None;
    }
    let alg = match kek.len() {
        16 => 7,
        24 => 8,
        32 => 9,
        _ => return None,
    };
    let enc = rfc::sym::block_encryptor(alg, kek)?;
    let n = data.len() / 8;
    let mut a = iv;
    let mut r: Vec<[u8; 8]> = data.chunks(8).map(|c| c.try_into().unwrap()).collect();
    for j in 0..6 {
        for (i, ri) in r.iter_mut().enumerate() {
            let mut b = [0u8; 16];
            b[..8].copy_from_slice(&a);
            b[8..].copy_from_slice(ri);
            enc(&mut b);
            a.copy_from_slice(&b[..8]);
            for (k, tb) in ((n * j + i + 1) as u64).to_be_bytes().iter().enumerate() {
                a[k] ^= tb;
            }
            ri.copy_from_slice(&b[8..]);
        }
    }
    let mut out = a.to_vec();
    for x in r {
        out.extend(x);
    }
    Some(out)
}

/// initial values that are not RFC 3394's
fn kw_wrong_ivs(data_len: usize) -> Vec<(&'static str, [u8; 8])> {
    let mut alt = [0xA6, 0x59, 0x59, 0xA6, 0, 0, 0, 0];
    alt[4..].copy_from_slice(&(data_len as u32).to_be_bytes());
    vec![
        ("kw-iv-zero", [0; 8]),
        ("kw-iv-first-octet-a5", [0xA5, 0xA6, 0xA6, 0xA6, 0xA6, 0xA6, 0xA6, 0xA6]),
        ("kw-iv-last-octet-a7", [0xA6, 0xA6, 0xA6, 0xA6, 0xA6, 0xA6, 0xA6, 0xA7]),
        ("kw-iv-complement", [0x59; 8]),
        ("kw-iv-rfc5649", alt),
    ]
}

fn fam_accept_kw(ctx: &mut Ctx) {
    for ks in [16usize, 24, 32] {
        if !ctx.mine() {
            continue;
        }
        describe_case(&format!("aes key wrap near misses kek {ks}"));
        for n in [16usize, 24, 32, 40, 48, 64] {
            let mut rng = ctx.rng("accept.aeskw", (ks * 1000 + n) as u64);
            let kek = rbytes(&mut rng, ks);
            let data = rbytes(&mut rng, n);
            let good = rfc::sym::aes_kw_wrap(&kek, &data).expect("ref wrap");
            if kw_wrap_iv(&kek, &data, [0xA6; 8]).as_ref() != Some(&good) {
                ctx.inconclusive("key wrap with explicit IV does not reproduce the reference wrap");
                continue;
            }
            let mut cases: Vec<(String, Vec<u8>)> = vec![];
            for (name, iv) in kw_wrong_ivs(n) {
                cases.push((name.to_string(), kw_wrap_iv(&kek, &data, iv).expect("wrap")));
            }
            for pos in 0..good.len() {
                let mut b = good.clone();
                b[pos] ^= 1 << rng.gen_range(0..8);
                let cls = if pos < 8 { "wrapping-octet-flipped-in-first-block" } else if pos >= good.len() - 8 { "wrapping-octet-flipped-in-last-block" } else { "wrapping-octet-flipped-inside" };
                cases.push((cls.to_string(), b));
            }
            cases.push(("wrapping-last-block-dropped".into(), good[..good.len() - 8].to_vec()));
            cases.push(("wrapping-first-block-dropped".into(), good[8..].to_vec()));
            cases.push(("wrapping-zero-block-appended".into(), [&good[..], &[0u8; 8]].concat()));
            cases.push(("wrapping-last-octet-dropped".into(), good[..good.len() - 1].to_vec()));
            cases.push(("wrapping-blocks-swapped".into(), {
                let mut b = good.clone();
                let (x, y) = b.split_at_mut(16);
                x[8..16].swap_with_slice(&mut y[..8]);
                b
            }));
            // wrapped under the wrong key size of the same key material is a different key: not a near miss
            for (cls, w) in cases {
                if rfc::sym::aes_kw_unwrap(&kek, &w).is_some() {
                    ctx.tally("near-miss.aeskw.coincides-with-valid", 1);
                    continue;
                }
                let rp = json!({"family": "aeskw-near-miss", "deviation": cls, "kek": hexs(&kek), "data": hexs(&data), "wrapped": hexs(&w)});
                cov(ctx, "aeskw-near", (ks / 8 + 5) as u8, 0, 0, 0, 0, &cls, &n.to_string(), "refuse");
                if let Some(r) = lib(ctx, "C12/aeskw", &rp, || pgp::crypto::aes_kw::unwrap(&kek, &w).map(|z| z.to_vec())) {
                    must_refuse(
                        ctx,
                        "near-miss.aeskw",
                        &cls,
                        r.ok().map(|d| format!("the data {}", hexs(&d))),
                        format!("C12/aeskw/accepts-non-rfc3394/{cls}"),
                        format!("aes_kw::unwrap accepted a wrapping that is not the RFC 3394 wrapping of any data under this key ({cls}; kek {} bits, {n} data octets)", ks * 8),
                        &rp,
                    );
                }
            }
        }
    }
}

// ---------------------------------------------------------------------------------------------
// (8.4) ECDH (RFC 9580 11.5): the padded plaintext, the session key framing inside it, the key wrap
// IV and the KDF input, each with one element wrong

/// RFC 9580 11.5 / RFC 8018 padding as a receiver reads it: N octets of value N, N >= 1, something left
fn ref_unpad_rfc(m: &[u8]) -> Option<Vec<u8>> {
    let n = *m.last()? as usize;
    if m.len() % 8 != 0 || n == 0 || n >= m.len() {
        return None;
    }
    if !m[m.len() - n..].iter().all(|b| *b as usize == n) {
        return None;
    }
    Some(m[..m.len() - n].to_vec())
}

/// RFC 9580 5.1: v3 "algorithm octet || key || sum16(key)" with a key of the algorithm's size; v6 "key || sum16(key)".
/// Returns (algorithm or 0, key).
fn ref_open_framing(f: &[u8], v6: bool) -> Option<(u8, Vec<u8>)> {
    if v6 {
        if f.len() < 3 {
            return None;
        }
        let (k, c) = f.split_at(f.len() - 2);
        (rfc::sum16(k).to_be_bytes() == [c[0], c[1]]).then(|| (0, k.to_vec()))
    } else {
        let alg = *f.first()?;
        let ks = rfc::sym::key_size(alg)?;
        if f.len() != ks + 3 {
            return None;
        }
        let k = &f[1..1 + ks];
        (rfc::sum16(k).to_be_bytes() == [f[ks + 1], f[ks + 2]]).then(|| (alg, k.to_vec()))
    }
}

fn repad(f: &[u8], long: bool) -> Vec<u8> {
    if long && f.len() < 40 {
        pad_to(f, 40)
    } else {
        rfc::key::pkcs5_pad(f)
    }
}

/// (signature class, coverage item, padded plaintext handed to the key wrap)
fn ecdh_plain_devs(framing: &[u8], v6: bool, long: bool, rng: &mut ChaCha8Rng) -> Vec<(String, String, Vec<u8>)> {
    let padk = if long { "pad40" } else { "pad8" };
    let base = repad(framing, long);
    let len = base.len();
    let n = *base.last().unwrap() as usize;
    let start = len - n;
    let mut v: Vec<(String, String, Vec<u8>)> = vec![];
    // ---- padding: every single position foreign
    for i in 0..n.saturating_sub(1) {
        let mut p = base.clone();
        p[start + i] ^= rng.gen_range(1..=255u8);
        v.push(("padding-octet-foreign".into(), format!("{padk}:padding-octet-foreign@{i}of{n}"), p));
        if i == 0 || i + 2 == n {
            // the smallest possible difference too
            let mut p = base.clone();
            p[start + i] ^= 1;
            v.push(("padding-octet-foreign".into(), format!("{padk}:padding-octet-off-by-one-bit@{}", if i == 0 { "first" } else { "last-but-one" }), p));
        }
    }
    // ---- the length octet (last octet)
    for (name, val) in [("zero", 0usize), ("minus-1", n - 1), ("plus-1", n + 1), ("plus-8", n + 8), ("ff", 255)] {
        if val == n || val > 255 || (name == "minus-1" && val == 0) {
            continue;
        }
        let mut p = base.clone();
        p[len - 1] = val as u8;
        v.push((format!("padding-length-octet-{name}"), format!("{padk}:padding-length-octet-{name}"), p));
    }
    // ---- all padding octets of another value
    for (name, val) in [("all-zero", 0usize), ("value-minus-1", n - 1), ("value-plus-1", n + 1), ("value-8", 8)] {
        if val == n || (name == "value-minus-1" && val == 0) {
            continue;
        }
        let mut p = base.clone();
        p[start..].fill(val as u8);
        v.push((format!("padding-{name}"), format!("{padk}:padding-{name}"), p));
    }
    // ---- other padding schemes
    {
        let mut p = base.clone();
        for b in &mut p[start..len - 1] {
            *b = 0;
        }
        if n >= 2 {
            v.push(("padding-ansi-x923".into(), format!("{padk}:padding-ansi-x923"), p));
        }
        let mut p = base.clone();
        let mut differs = false;
        for b in &mut p[start..len - 1] {
            let x: u8 = rng.gen();
            differs |= x as usize != n;
            *b = x;
        }
        if differs {
            v.push(("padding-iso10126".into(), format!("{padk}:padding-iso10126"), p));
        }
        let mut p = framing.to_vec();
        p.push(0x80);
        while p.len() % 8 != 0 {
            p.push(0);
        }
        v.push(("padding-iso7816".into(), format!("{padk}:padding-iso7816"), p));
        let mut p = vec![n as u8; n];
        p.extend_from_slice(framing);
        v.push(("padding-in-front".into(), format!("{padk}:padding-in-front"), p));
    }
    // ---- wrong count
    if !long {
        let mut p = framing.to_vec();
        p.extend(std::iter::repeat(n as u8).take(n + 8));
        v.push(("padding-one-block-too-many".into(), format!("{padk}:padding-one-block-too-many"), p));
    } else if n > 8 {
        let mut p = framing.to_vec();
        p.extend(std::iter::repeat(n as u8).take(n - 8));
        v.push(("padding-one-block-too-few".into(), format!("{padk}:padding-one-block-too-few"), p));
    }
    // ---- the framing inside a correct padding
    let (alg, key, ck) = if v6 {
        (None, &framing[..framing.len() - 2], u16::from_be_bytes([framing[framing.len() - 2], framing[framing.len() - 1]]))
    } else {
        (Some(framing[0]), &framing[1..framing.len() - 2], u16::from_be_bytes([framing[framing.len() - 2], framing[framing.len() - 1]]))
    };
    let build = |alg: Option<u8>, key: &[u8], ck: Option<u16>| -> Vec<u8> {
        let mut f: Vec<u8> = alg.into_iter().collect();
        f.extend_from_slice(key);
        if let Some(c) = ck {
            f.extend(c.to_be_bytes());
        }
        repad(&f, long)
    };
    let mut fr: Vec<(&str, Vec<u8>)> = vec![
        ("checksum-plus-1", build(alg, key, Some(ck.wrapping_add(1)))),
        ("checksum-minus-1", build(alg, key, Some(ck.wrapping_sub(1)))),
        ("checksum-octets-swapped", build(alg, key, Some(ck.swap_bytes()))),
        ("checksum-zero", build(alg, key, Some(0))),
        ("checksum-complement", build(alg, key, Some(!ck))),
        ("checksum-plus-256", build(alg, key, Some(ck.wrapping_add(256)))),
        ("checksum-missing", build(alg, key, None)),
        ("checksum-xor-of-octets", build(alg, key, Some(key.iter().fold(0u8, |a, b| a ^ b) as u16))),
    ];
    if let Some(a) = alg {
        let all: Vec<u8> = [&[a][..], key].concat();
        fr.push(("checksum-includes-algorithm-octet", build(alg, key, Some(rfc::sum16(&all)))));
        fr.push(("algorithm-octet-00", build(Some(0), key, Some(ck))));
        fr.push(("algorithm-octet-unknown", build(Some([5u8, 6, 14, 99, 110, 255][rng.gen_range(0..6)]), key, Some(ck))));
        let other = *rfc::sym::ALL_CIPHERS.iter().find(|c| rfc::sym::key_size(**c) != Some(key.len())).unwrap();
        fr.push(("algorithm-octet-other-key-size", build(Some(other), key, Some(ck))));
        fr.push(("algorithm-octet-missing", build(None, key, Some(ck))));
        fr.push(("key-one-octet-short", build(alg, &key[..key.len() - 1], Some(rfc::sum16(&key[..key.len() - 1])))));
        let longer: Vec<u8> = [key, &[0x5A][..]].concat();
        fr.push(("key-one-octet-long", build(alg, &longer, Some(rfc::sum16(&longer)))));
    } else {
        fr.push(("algorithm-octet-present", build(Some(9), key, Some(ck))));
        fr.push(("checksum-octet-count-instead", build(None, key, Some(key.len() as u16))));
    }
    for (name, p) in fr {
        if p != base {
            v.push((format!("framing-{name}"), format!("{padk}:framing-{name}"), p));
        }
    }
    // ---- no padding at all (possible only when the framing is a multiple of 8 octets long)
    if v6 && !long {
        let mut k2 = vec![0u8; 8 * rng.gen_range(2..=4usize) - 2];
        rng.fill_bytes(&mut k2);
        let mut f = k2.clone();
        f.extend(rfc::sum16(&k2).to_be_bytes());
        v.push(("padding-absent".into(), format!("{padk}:padding-absent"), f));
        // ... ending in a zero octet, which a receiver could take for "zero octets of padding"
        let low = (rfc::sum16(&k2) & 0xFF) as u8;
        let fix = k2.iter().position(|b| *b >= low).unwrap_or(0);
        if k2[fix] >= low {
            k2[fix] -= low;
            let mut f = k2.clone();
            f.extend(rfc::sum16(&k2).to_be_bytes());
            v.push(("padding-absent".into(), format!("{padk}:padding-absent-last-octet-00"), f));
        }
    }
    // one defect class, whatever the way the zero got there: the last octet (the padding length) is zero
    for c in v.iter_mut() {
        if c.2.last() == Some(&0) {
            c.0 = "padding-length-octet-zero".into();
        }
    }
    v
}

const ECDH_KDF_DEVS: [&str; 16] = [
    "kdf-counter-2",
    "kdf-counter-0",
    "kdf-counter-little-endian",
    "kdf-without-counter",
    "kdf-counter-after-shared-secret",
    "kdf-param-before-shared-secret",
    "kdf-oid-without-length-octet",
    "kdf-public-key-algorithm-octet-19",
    "kdf-params-reserved-octet-00",
    "kdf-params-without-length-octet",
    "kdf-without-anonymous-sender",
    "kdf-anonymous-sender-without-trailing-spaces",
    "kdf-without-fingerprint",
    "kdf-fingerprint-of-another-key",
    "kdf-fingerprint-last-octet-other",
    "kdf-key-from-digest-tail",
];

/// RFC 9580 11.5 key-encryption key with one element of the KDF input changed
fn ecdh_kek_dev(k: &rfc::key::EcdhPub, fp: &[u8], shared: &[u8], dev: &str, other_fp: &[u8]) -> Option<Vec<u8>> {
    let ks = rfc::sym::key_size(k.kek_alg)?;
    let mut param = vec![];
    if dev != "kdf-oid-without-length-octet" {
        param.push(k.oid.len() as u8);
    }
    param.extend(&k.oid);
    param.push(if dev == "kdf-public-key-algorithm-octet-19" { 19 } else { 18 });
    match dev {
        "kdf-params-reserved-octet-00" => param.extend([3, 0, k.kdf_hash, k.kek_alg]),
        "kdf-params-without-length-octet" => param.extend([1, k.kdf_hash, k.kek_alg]),
        _ => param.extend([3, 1, k.kdf_hash, k.kek_alg]),
    }
    match dev {
        "kdf-without-anonymous-sender" => {}
        "kdf-anonymous-sender-without-trailing-spaces" => param.extend(b"Anonymous Sender"),
        _ => param.extend(b"Anonymous Sender    "),
    }
    match dev {
        "kdf-without-fingerprint" => {}
        "kdf-fingerprint-of-another-key" => param.extend(other_fp),
        "kdf-fingerprint-last-octet-other" => {
            param.extend(fp);
            *param.last_mut()? ^= 0x01;
        }
        _ => param.extend(fp),
    }
    let h = match dev {
        "kdf-counter-2" => rfc::hash(k.kdf_hash, &[&[0, 0, 0, 2], shared, &param])?,
        "kdf-counter-0" => rfc::hash(k.kdf_hash, &[&[0, 0, 0, 0], shared, &param])?,
        "kdf-counter-little-endian" => rfc::hash(k.kdf_hash, &[&[1, 0, 0, 0], shared, &param])?,
        "kdf-without-counter" => rfc::hash(k.kdf_hash, &[shared, &param])?,
        "kdf-counter-after-shared-secret" => rfc::hash(k.kdf_hash, &[shared, &[0, 0, 0, 1], &param])?,
        "kdf-param-before-shared-secret" => rfc::hash(k.kdf_hash, &[&[0, 0, 0, 1], &param, shared])?,
        _ => rfc::hash(k.kdf_hash, &[&[0, 0, 0, 1], shared, &param])?,
    };
    if h.len() < ks {
        return None;
    }
    if dev == "kdf-key-from-digest-tail" {
        if h.len() == ks {
            return None;
        }
        return Some(h[h.len() - ks..].to_vec());
    }
    Some(h[..ks].to_vec())
}

fn fam_accept_ecdh(ctx: &mut Ctx) {
    // all (KDF hash, KEK cipher) pairs with a strong hash that is long enough
    let mut pairs: Vec<(u8, u8)> = vec![];
    for &h in &STRONG_HASHES {
        for &kek in &AES {
            if rfc::hash_len(h).unwrap() >= rfc::sym::key_size(kek).unwrap() {
                pairs.push((h, kek));
            }
        }
    }
    for (ci, (name, oid)) in CURVES.iter().enumerate() {
        for v6 in [false, true] {
            if v6 && *name == "cv25519" {
                continue;
            }
            for pset in 0..2usize {
                if !ctx.mine() {
                    continue;
                }
                describe_case(&format!("ecdh near misses {name} v6={v6} parameter set {pset}"));
                let mut rng = ctx.rng("accept.ecdh", ((ci as u64) << 16) | ((v6 as u64) << 8) | pset as u64);
                let (h, kek) = if pset == 0 {
                    match *name {
                        "p384" => (9u8, 8u8),
                        "p521" => (10, 9),
                        _ => (8, 7),
                    }
                } else {
                    pairs[rng.gen_range(0..pairs.len())]
                };
                let (secret, point) = ecdh_keypair(name, &mut rng);
                let k = rfc::key::EcdhPub { oid: oid.to_vec(), point, kdf_hash: h, kek_alg: kek };
                let public = RefPub { version: if v6 { 6 } else { 4 }, created: 1_700_000_000, v3_expiry_days: 0, alg: 18, material: ecdh_material(&k) };
                let fp = public.fingerprint();
                let other_fp = rbytes(&mut rng, fp.len());
                let body = RefSecret::lock(&public, 7, RefProtection::None, b"", &rfc::mpi(&secret)).expect("ref secret").encode();
                let rp0 = json!({"family": "ecdh-near-miss", "curve": name, "v6": v6, "hash": h, "kek": kek, "secret_subkey_packet": hexs(&body)});
                let sub = match lib(ctx, "C12/ecdh/key", &rp0, || <pgp::packet::SecretSubkey as SecPkt>::parse(&body)) {
                    Some(Ok(s)) => s,
                    Some(Err(e)) => {
                        ctx.inconclusive(format!("library does not parse the ECDH subkey used for near misses: {e}"));
                        continue;
                    }
                    None => continue,
                };
                for esk_v6 in [false, true] {
                    let typ = if esk_v6 { EskType::V6 } else { EskType::V3_4 };
                    for (mi, &malg) in AES.iter().enumerate() {
                        let sk = rbytes(&mut rng, rfc::sym::key_size(malg).unwrap());
                        let framing = if esk_v6 { rfc::sym::session_key_v6(&sk) } else { rfc::sym::session_key_v3(malg, &sk) };
                        let seed: [u8; 32] = rng.gen();
                        let (eph, shared) = rfc::key::ecdh_shared_sender(&k.oid, &k.point, &seed).expect("ref ecdh");
                        let kekk = rfc::key::ecdh_kek(&k, &fp, &shared).expect("ref kek");
                        let ctxname = format!("{name}-{}-{}", if v6 { "k6" } else { "k4" }, if esk_v6 { "esk6" } else { "esk3" });
                        // (deviation class, coverage item, wrapped, what the reference reads from it at the padding layer,
                        // and at the framing layer)
                        // plain_layer: the deviation is in the plaintext handed to a correct key wrap
                        let mut cases: Vec<(String, String, Vec<u8>, bool, Option<Vec<u8>>, Option<(u8, Vec<u8>)>)> = vec![];
                        for long in [false, true] {
                            // rotate: every cipher gets both paddings over the two PKESK versions and parameter sets
                            if (mi + long as usize + esk_v6 as usize + pset) % 2 == 1 && malg != 7 {
                                continue;
                            }
                            for (cls, item, padded) in ecdh_plain_devs(&framing, esk_v6, long, &mut rng) {
                                let Some(w) = rfc::sym::aes_kw_wrap(&kekk, &padded) else { continue };
                                let unp = ref_unpad_rfc(&padded).filter(|_| padded.len() <= 40);
                                let open = unp.as_ref().and_then(|u| ref_open_framing(u, esk_v6));
                                if padded.len() > 40 && ref_unpad_rfc(&padded).is_some() {
                                    // a correct padding to more than 40 octets: neither demanded nor forbidden
                                    ctx.tally("near-miss.ecdh.padding-beyond-40-not-judged", 1);
                                    continue;
                                }
                                cases.push((cls, item, w, true, unp, open));
                            }
                            let padk = if long { "pad40" } else { "pad8" };
                            let padded = repad(&framing, long);
                            for (nm, iv) in kw_wrong_ivs(padded.len()) {
                                cases.push((nm.to_string(), format!("{padk}:{nm}"), kw_wrap_iv(&kekk, &padded, iv).expect("wrap"), false, None, None));
                            }
                            if !long {
                                for dev in ECDH_KDF_DEVS {
                                    let Some(kd) = ecdh_kek_dev(&k, &fp, &shared, dev, &other_fp) else { continue };
                                    if kd == kekk {
                                        continue;
                                    }
                                    cases.push((dev.to_string(), format!("{padk}:{dev}"), rfc::sym::aes_kw_wrap(&kd, &padded).expect("wrap"), false, None, None));
                                }
                                let good = rfc::sym::aes_kw_wrap(&kekk, &padded).expect("wrap");
                                for (nm, pos) in [("first", 0usize), ("middle", good.len() / 2), ("last", good.len() - 1)] {
                                    let mut b = good.clone();
                                    b[pos] ^= 1 << rng.gen_range(0..8);
                                    cases.push(("wrapping-octet-flipped".into(), format!("{padk}:wrapping-octet-flipped-{nm}"), b, false, None, None));
                                }
                            }
                        }
                        for (cls, item, wrapped, plain_layer, unp, open) in cases {
                            // key wrap / KDF deviations must fail the reference unwrap, plaintext deviations must pass it
                            let kw_ok = rfc::sym::aes_kw_unwrap(&kekk, &wrapped).is_some();
                            if kw_ok != plain_layer {
                                if plain_layer {
                                    ctx.inconclusive("reference cannot unwrap its own ECDH near miss");
                                } else {
                                    ctx.tally("near-miss.ecdh.coincides-with-valid-wrapping", 1);
                                }
                                continue;
                            }
                            let mut fields = rfc::mpi(&eph);
                            fields.push(wrapped.len() as u8);
                            fields.extend(&wrapped);
                            let rp = json!({"family": "ecdh-near-miss", "deviation": item, "curve": name, "v6": v6, "hash": h, "kek": kek, "esk_v6": esk_v6,
                                "secret_subkey_packet": hexs(&body), "fields": hexs(&fields), "shared": hexs(&shared), "fingerprint": hexs(&fp)});
                            cov(ctx, "ecdh-near", kek, 0, 0, 0, h, &item, &ctxname, "refuse");
                            ctx.seen("near-miss.ecdh.classes", cls.as_str());
                            if item == "pad8:padding-octet-foreign@0of5" && *name == "p256" && !v6 {
                                ctx.sample(json!({"family": "ecdh-near-miss", "deviation": item, "curve": name, "kdf_hash": h, "kek": kek, "shared_secret": hexs(&shared), "fingerprint": hexs(&fp), "wrapped_session_key": hexs(&wrapped), "expected": "refused"}));
                            }
                            // ---- low level: unwrap + unpad
                            let r = lib(ctx, "C12/ecdh/near-miss", &rp, || {
                                pgp::crypto::ecdh::derive_session_key(&shared, &wrapped, wrapped.len(), lib_curve(name), HashAlgorithm::from(h), sym(kek), &fp).map(|z| z.to_vec())
                            });
                            if let Some(r) = r {
                                match (&unp, r) {
                                    (None, got) => must_refuse(
                                        ctx,
                                        "near-miss.ecdh-unwrap",
                                        &item,
                                        got.ok().map(|d| format!("the plaintext {}", hexs(&d))),
                                        format!("C12/ecdh/derive_session_key/accepts-non-rfc-wrapping/{cls}"),
                                        format!("derive_session_key accepted a wrapped session key that is not 'AES key wrap of the PKCS5-padded plaintext' of RFC 9580 11.5 ({item}; {name}, KDF hash {h}, KEK {kek})"),
                                        &rp,
                                    ),
                                    (Some(u), Ok(d)) if *u == d => ctx.tally("near-miss.ecdh.coincides-with-valid-padding", 1),
                                    (Some(u), other) => ctx.violation(
                                        "C12/ecdh/derive_session_key/valid-padding-misread",
                                        format!("{item}: the plaintext carries a correct padding and unpads to {} but the library returned {:?}", hexs(u), other.map(|d| hexs(&d)).map_err(|e| e.to_string())),
                                        rp.clone(),
                                    ),
                                }
                            }
                            // ---- the recipient key's decrypt
                            let Some(values) = ecdh_values_from(&fields) else { continue };
                            let r = lib(ctx, "C12/ecdh/near-miss", &rp, || sub.decrypt(&Password::empty(), &values, typ));
                            let Some(r) = r else { continue };
                            let got: Result<PlainSessionKey, String> = match r {
                                Ok(Ok(k)) => Ok(k),
                                Ok(Err(e)) | Err(e) => Err(e.to_string()),
                            };
                            match (&open, got) {
                                (None, got) => must_refuse(
                                    ctx,
                                    "near-miss.ecdh",
                                    &item,
                                    got.ok().map(|k| sk_desc(&k)),
                                    format!("C12/ecdh/accepts-non-rfc-pkesk/{cls}"),
                                    format!("an ECDH encrypted session key that deviates from RFC 9580 11.5 / 5.1 in one element ({item}; {name}, key v{}, PKESK v{}, KDF hash {h}, KEK {kek}) was decrypted", public.version, if esk_v6 { 6 } else { 3 }),
                                    &rp,
                                ),
                                (Some((a, key)), Ok(k)) if check_plain_sk(&k, esk_v6, *a, key) => ctx.tally("near-miss.ecdh.coincides-with-valid-framing", 1),
                                (Some((a, key)), other) => ctx.violation(
                                    "C12/ecdh/valid-framing-misread",
                                    format!("{item}: the plaintext is a correct framing of algorithm {a} key {} but the library returned {:?}", hexs(key), other.map(|k| sk_desc(&k))),
                                    rp.clone(),
                                ),
                            }
                        }
                    }
                }
            }
        }
    }
}

// ---------------------------------------------------------------------------------------------
// (8.5) X25519 / X448 (RFC 9580 5.1.6, 5.1.7): HKDF input / info / hash, KEK size, key wrap IV

const X_DEVS: [&str; 21] = [
    "kw-iv-zero",
    "kw-iv-first-octet-a5",
    "kw-iv-last-octet-a7",
    "kw-iv-complement",
    "kw-iv-rfc5649",
    "hkdf-info-of-the-other-curve",
    "hkdf-info-empty",
    "hkdf-info-with-trailing-nul",
    "hkdf-ikm-recipient-key-first",
    "hkdf-ikm-shared-secret-first",
    "hkdf-ikm-shared-secret-only",
    "hkdf-ikm-without-recipient-key",
    "hkdf-ikm-without-ephemeral-key",
    "hkdf-hash-of-the-other-curve",
    "hkdf-salt-is-ephemeral-key",
    "kek-size-of-the-other-curve",
    "kek-is-shared-secret-prefix",
    "wrapping-octet-flipped-first",
    "wrapping-octet-flipped-middle",
    "wrapping-octet-flipped-last",
    "wrapping-last-block-dropped",
];

fn hkdf_any(sha512: bool, salt: Option<&[u8]>, ikm: &[u8], info: &[u8], len: usize) -> Vec<u8> {
    let mut out = vec![0u8; len];
    if sha512 {
        hkdf::Hkdf::<sha2::Sha512>::new(salt, ikm).expand(info, &mut out).expect("hkdf length");
    } else {
        hkdf::Hkdf::<sha2::Sha256>::new(salt, ikm).expand(info, &mut out).expect("hkdf length");
    }
    out
}

/// (ephemeral public key, wrapped session key) for an X25519 (25) / X448 (26) recipient with one
/// element changed ("" = RFC 9580 5.1.6 / 5.1.7)
fn x_wrap_dev(alg: u8, rpub: &[u8], seed: &[u8; 56], sk: &[u8], dev: &str) -> Option<(Vec<u8>, Vec<u8>)> {
    let (eph, shared): (Vec<u8>, Vec<u8>) = if alg == 25 {
        let s32: [u8; 32] = seed[..32].try_into().ok()?;
        let secret = x25519_dalek::StaticSecret::from(s32);
        let public = x25519_dalek::PublicKey::from(&secret);
        let r32: [u8; 32] = rpub.try_into().ok()?;
        let sh = secret.diffie_hellman(&x25519_dalek::PublicKey::from(r32));
        (public.as_bytes().to_vec(), sh.as_bytes().to_vec())
    } else {
        let secret = cx448::x448::Secret::from(*seed);
        let public = cx448::x448::PublicKey::from(&secret);
        let r56: [u8; 56] = rpub.try_into().ok()?;
        let rp = cx448::x448::PublicKey::from_bytes(&r56)?;
        let sh = secret.as_diffie_hellman(&rp)?;
        (public.as_bytes().to_vec(), sh.as_bytes().to_vec())
    };
    let ikm: Vec<u8> = match dev {
        "hkdf-ikm-recipient-key-first" => [rpub, &eph[..], &shared[..]].concat(),
        "hkdf-ikm-shared-secret-first" => [&shared[..], &eph[..], rpub].concat(),
        "hkdf-ikm-shared-secret-only" => shared.clone(),
        "hkdf-ikm-without-recipient-key" => [&eph[..], &shared[..]].concat(),
        "hkdf-ikm-without-ephemeral-key" => [rpub, &shared[..]].concat(),
        _ => [&eph[..], rpub, &shared[..]].concat(),
    };
    let (own, other): (&[u8], &[u8]) = if alg == 25 { (b"OpenPGP X25519", b"OpenPGP X448") } else { (b"OpenPGP X448", b"OpenPGP X25519") };
    let info: Vec<u8> = match dev {
        "hkdf-info-of-the-other-curve" => other.to_vec(),
        "hkdf-info-empty" => vec![],
        "hkdf-info-with-trailing-nul" => [own, &[0u8][..]].concat(),
        _ => own.to_vec(),
    };
    let sha512 = (alg == 26) != (dev == "hkdf-hash-of-the-other-curve");
    let klen = if (alg == 26) != (dev == "kek-size-of-the-other-curve") { 32 } else { 16 };
    let salt = (dev == "hkdf-salt-is-ephemeral-key").then_some(&eph[..]);
    let kek = if dev == "kek-is-shared-secret-prefix" { shared[..klen].to_vec() } else { hkdf_any(sha512, salt, &ikm, &info, klen) };
    let mut w = match kw_wrong_ivs(sk.len()).into_iter().find(|(n, _)| *n == dev) {
        Some((_, iv)) => kw_wrap_iv(&kek, sk, iv)?,
        None => rfc::sym::aes_kw_wrap(&kek, sk)?,
    };
    let l = w.len();
    match dev {
        "wrapping-octet-flipped-first" => w[0] ^= 0x40,
        "wrapping-octet-flipped-middle" => w[l / 2] ^= 0x02,
        "wrapping-octet-flipped-last" => w[l - 1] ^= 0x01,
        "wrapping-last-block-dropped" => w.truncate(l - 8),
        _ => {}
    }
    Some((eph, w))
}

fn lib_pkesk_values(body: &[u8]) -> Result<PkeskBytes, String> {
    let p = pgp::packet::PublicKeyEncryptedSessionKey::try_from_reader(PacketHeader::new_fixed(Tag::PublicKeyEncryptedSessionKey, body.len() as u32), body)
        .map_err(|e| format!("parse: {e}"))?;
    p.values().map(|v| v.clone()).map_err(|e| format!("values: {e}"))
}

fn fam_accept_x(ctx: &mut Ctx) {
    use zoo::{Alg, Spec};
    let specs = [
        Spec::simple(false, Alg::Ed25519Legacy, Some(Alg::X25519)),
        Spec::simple(true, Alg::Ed25519, Some(Alg::X25519)),
        Spec::simple(false, Alg::Ed25519Legacy, Some(Alg::X448)),
        Spec::simple(true, Alg::Ed25519, Some(Alg::X448)),
    ];
    let payload = b"C12 x25519/x448 near miss payload".to_vec();
    for (si, spec) in specs.iter().enumerate() {
        for esk_v6 in [false, true] {
            if !ctx.mine() {
                continue;
            }
            describe_case(&format!("x25519/x448 near misses {} esk_v6={esk_v6}", spec.name()));
            let key = zoo::key(spec, 0);
            let Some(sub) = key.secret_subkeys.first() else {
                ctx.inconclusive("zoo key without subkey");
                continue;
            };
            let body = sub.key.to_bytes().expect("subkey bytes");
            let Some(rs) = RefSecret::parse(&body) else {
                ctx.inconclusive("reference cannot parse zoo subkey");
                continue;
            };
            let Some(Ok(material)) = rs.unlock(7, b"") else {
                ctx.inconclusive("reference cannot read zoo subkey material");
                continue;
            };
            let public = rs.public.clone();
            let pkalg = public.alg;
            let cname = if pkalg == 25 { "x25519" } else { "x448" };
            let typ = if esk_v6 { EskType::V6 } else { EskType::V3_4 };
            for (di, dev) in [""].iter().chain(X_DEVS.iter()).enumerate() {
                let mut rng = ctx.rng("accept.x", ((si as u64) << 16) | ((esk_v6 as u64) << 8) | di as u64);
                let s = AES[rng.gen_range(0..3)];
                let a = AEADS[rng.gen_range(0..3)];
                let sk = rbytes(&mut rng, rfc::sym::key_size(s).unwrap());
                let mut seed = [0u8; 56];
                rng.fill_bytes(&mut seed);
                let Some((eph, wrapped)) = x_wrap_dev(pkalg, &public.material, &seed, &sk, dev) else {
                    ctx.inconclusive("reference cannot build this X25519/X448 near miss");
                    continue;
                };
                let fields = xfields_encode(&eph, (!esk_v6).then_some(s), &wrapped);
                let pk = if esk_v6 {
                    RefPkesk { version: 6, key_id: [0; 8], fp_version: public.version, fp: public.fingerprint(), alg: pkalg, fields }
                } else {
                    RefPkesk { version: 3, key_id: public.key_id(), fp_version: 0, fp: vec![], alg: pkalg, fields }
                };
                let b1 = pkesk_encode(&pk);
                // what the reference recipient reads
                let ref_reads = ref_pkesk_unwrap(&pk, &public, &material);
                let b18 = if esk_v6 {
                    let salt: [u8; 32] = rng.gen();
                    rfc::sym::seipd_v2_encrypt(s, a, 0, &salt, &sk, &ref_literal(&payload)).expect("ref seipd2")
                } else {
                    let prefix = rbytes(&mut rng, 16);
                    let mut b = vec![1u8];
                    b.extend(rfc::sym::seipd_v1_encrypt(s, &sk, &prefix, &ref_literal(&payload)).expect("ref seipd1"));
                    b
                };
                let mut bytes = frame(1, &b1, &LenForm::NewMin).unwrap();
                bytes.extend(frame(18, &b18, &LenForm::NewMin).unwrap());
                let rp = json!({"family": "x-near-miss", "deviation": dev, "key": spec.name(), "esk_v6": esk_v6, "pkesk_body": hexs(&b1), "message": hexs(&bytes)});
                let pk_res = lib(ctx, "C12/x/near-miss", &rp, || {
                    let values = lib_pkesk_values(&b1)?;
                    match sub.key.decrypt(&Password::empty(), &values, typ) {
                        Ok(Ok(k)) => Ok(k),
                        Ok(Err(e)) | Err(e) => Err(format!("decrypt: {e}")),
                    }
                });
                let msg_res = lib(ctx, "C12/x/near-miss", &rp, || {
                    let pw = Password::empty();
                    lib_read_msg(&bytes, TheRing { secret_keys: vec![&key], key_passwords: vec![&pw], ..Default::default() })
                });
                if dev.is_empty() {
                    // control: the builder without deviation is a message the reference and the library read
                    let want = if esk_v6 { sk.clone() } else { [&[s][..], &sk[..]].concat() };
                    if ref_reads.as_deref() != Ok(&want[..]) {
                        ctx.inconclusive("near-miss builder does not reproduce an RFC X25519/X448 PKESK");
                        break;
                    }
                    cov(ctx, &format!("{cname}-near"), s, 0, 0, 0, 0, "control", if esk_v6 { "esk6" } else { "esk3" }, "accept");
                    match pk_res {
                        Some(Ok(k)) if check_plain_sk(&k, esk_v6, s, &sk) => {}
                        Some(other) => ctx.violation(format!("C12/{cname}-msg/ref-to-lib/rejected/pkesk-level"), format!("{}: {:?}", spec.name(), other.map(|k| sk_desc(&k))), rp.clone()),
                        None => {}
                    }
                    match msg_res {
                        Some(Ok(d)) if d == payload => {}
                        Some(other) => ctx.violation(format!("C12/{cname}-msg/ref-to-lib/rejected/control"), format!("{}: {:?}", spec.name(), other.map(|d| d.len())), rp.clone()),
                        None => {}
                    }
                    continue;
                }
                if ref_reads.is_ok() {
                    ctx.tally("near-miss.x.coincides-with-valid", 1);
                    continue;
                }
                cov(ctx, &format!("{cname}-near"), s, 0, 0, 0, 0, dev, if esk_v6 { "esk6" } else { "esk3" }, "refuse");
                if let Some(r) = pk_res {
                    must_refuse(
                        ctx,
                        &format!("near-miss.{cname}"),
                        dev,
                        r.ok().map(|k| sk_desc(&k)),
                        format!("C12/{cname}/accepts-non-rfc-pkesk/{dev}"),
                        format!("a PKESK v{} for {} whose key wrap deviates from RFC 9580 5.1.{} in one element ({dev}) was decrypted", if esk_v6 { 6 } else { 3 }, spec.name(), if pkalg == 25 { 6 } else { 7 }),
                        &rp,
                    );
                }
                if let Some(r) = msg_res {
                    must_refuse(
                        ctx,
                        &format!("near-miss.{cname}-message"),
                        dev,
                        r.ok().map(|d| format!("{} octets of plaintext", d.len())),
                        format!("C12/{cname}/accepts-non-rfc-pkesk/{dev}"),
                        format!("a message whose PKESK v{} for {} deviates from RFC 9580 5.1.{} in one element ({dev}) was decrypted", if esk_v6 { 6 } else { 3 }, spec.name(), if pkalg == 25 { 6 } else { 7 }),
                        &rp,
                    );
                }
            }
        }
    }
}

// ---------------------------------------------------------------------------------------------
// (8.6) SEIPDv2 (RFC 9580 5.13.2): key / IV derivation, per-chunk nonce and associated data, the
// final tag's nonce and associated data, chunking — one element wrong

const SEIPD2_DEVS: [&str; 32] = [
    "final-ad-without-octet-count",
    "final-ad-count-32-bit",
    "final-ad-count-little-endian",
    "final-ad-count-of-ciphertext-octets",
    "final-ad-count-plus-1",
    "final-ad-count-of-chunks",
    "final-ad-count-only",
    "final-nonce-index-of-last-chunk",
    "final-nonce-index-plus-1",
    "final-nonce-index-zero",
    "final-tag-missing",
    "final-tag-is-last-chunk-tag-again",
    "final-tag-over-nonempty-plaintext",
    "chunk-index-from-1",
    "chunk-index-little-endian",
    "chunk-index-always-0",
    "chunk-index-32-bit-left-aligned",
    "chunks-swapped",
    "chunk-ad-with-chunk-index",
    "chunk-ad-empty",
    "chunk-ad-tag-octet-d4",
    "chunk-ad-plain-tag-octet",
    "chunk-ad-version-1",
    "chunk-ad-without-chunk-size-octet",
    "hkdf-info-empty",
    "hkdf-info-without-chunk-size-octet",
    "hkdf-salt-unused",
    "hkdf-salt-as-info",
    "hkdf-iv-before-key",
    "hkdf-sha512",
    "session-key-used-directly",
    "first-chunk-one-octet-short",
];

/// SEIPDv2 packet body with one element of RFC 9580 5.13.2 changed ("" = the RFC's construction).
/// None: the deviation does not apply to this input (e.g. needs two chunks).
fn seipd_v2_dev(s: u8, a: u8, co: u8, salt: &[u8; 32], sk: &[u8], data: &[u8], dev: &str) -> Option<Vec<u8>> {
    let ks = rfc::sym::key_size(s)?;
    let ns = rfc::sym::aead_nonce_len(a)?;
    let info = [0xD2u8, 2, s, a, co];
    let cs = 1usize << (co as usize + 6);
    let need = ks + ns - 8;
    let okm: Vec<u8> = match dev {
        "hkdf-info-empty" => rfc::sym::hkdf_sha256(Some(salt), sk, &[], need),
        "hkdf-info-without-chunk-size-octet" => rfc::sym::hkdf_sha256(Some(salt), sk, &info[..4], need),
        "hkdf-salt-unused" => rfc::sym::hkdf_sha256(None, sk, &info, need),
        "hkdf-salt-as-info" => rfc::sym::hkdf_sha256(None, sk, &[&info[..], &salt[..]].concat(), need),
        "hkdf-sha512" => hkdf_any(true, Some(salt), sk, &info, need),
        "session-key-used-directly" => [sk, &salt[..ns - 8]].concat(),
        _ => rfc::sym::hkdf_sha256(Some(salt), sk, &info, need),
    };
    let (key, iv) = if dev == "hkdf-iv-before-key" { (okm[ns - 8..].to_vec(), okm[..ns - 8].to_vec()) } else { (okm[..ks].to_vec(), okm[ks..].to_vec()) };
    let mut pieces: Vec<&[u8]> = data.chunks(cs).collect();
    if dev == "first-chunk-one-octet-short" {
        if data.len() <= cs {
            return None;
        }
        pieces = vec![&data[..cs - 1]];
        pieces.extend(data[cs - 1..].chunks(cs));
    }
    let nonce_for = |idx: u64, final_: bool| -> Vec<u8> {
        let mut n = iv.clone();
        let i8: [u8; 8] = match dev {
            "chunk-index-from-1" if !final_ => (idx + 1).to_be_bytes(),
            "chunk-index-little-endian" => idx.to_le_bytes(),
            "chunk-index-always-0" if !final_ => [0; 8],
            "chunk-index-32-bit-left-aligned" => {
                let mut b = [0u8; 8];
                b[..4].copy_from_slice(&(idx as u32).to_be_bytes());
                b
            }
            _ => idx.to_be_bytes(),
        };
        n.extend(i8);
        n
    };
    let mut sealed: Vec<Vec<u8>> = vec![];
    for (idx, c) in pieces.iter().enumerate() {
        let ad: Vec<u8> = match dev {
            "chunk-ad-with-chunk-index" => [&info[..], &(idx as u64).to_be_bytes()].concat(),
            "chunk-ad-empty" => vec![],
            "chunk-ad-tag-octet-d4" => vec![0xD4, 2, s, a, co],
            "chunk-ad-plain-tag-octet" => vec![18, 2, s, a, co],
            "chunk-ad-version-1" => vec![0xD2, 1, s, a, co],
            "chunk-ad-without-chunk-size-octet" => info[..4].to_vec(),
            _ => info.to_vec(),
        };
        sealed.push(rfc::sym::aead_seal(s, a, &key, &nonce_for(idx as u64, false), &ad, c)?);
    }
    let nchunks = sealed.len() as u64;
    // (a deviation that cannot show with this number of chunks reproduces the RFC's body: the caller
    // notices that the reference accepts it and does not count it)
    if dev == "chunks-swapped" {
        if sealed.len() < 2 || sealed[0].len() != sealed[1].len() {
            return None;
        }
        sealed.swap(0, 1);
    }
    let total = data.len() as u64;
    let ct_total: u64 = sealed.iter().map(|c| c.len() as u64).sum();
    let fad: Vec<u8> = match dev {
        "final-ad-without-octet-count" => info.to_vec(),
        "final-ad-count-32-bit" => [&info[..], &(total as u32).to_be_bytes()].concat(),
        "final-ad-count-little-endian" => [&info[..], &total.to_le_bytes()].concat(),
        "final-ad-count-of-ciphertext-octets" => [&info[..], &ct_total.to_be_bytes()].concat(),
        "final-ad-count-plus-1" => [&info[..], &(total + 1).to_be_bytes()].concat(),
        "final-ad-count-of-chunks" => [&info[..], &nchunks.to_be_bytes()].concat(),
        "final-ad-count-only" => total.to_be_bytes().to_vec(),
        _ => [&info[..], &total.to_be_bytes()].concat(),
    };
    let fidx = match dev {
        "final-nonce-index-of-last-chunk" => nchunks.checked_sub(1)?,
        "final-nonce-index-plus-1" => nchunks + 1,
        "final-nonce-index-zero" => 0,
        _ => nchunks,
    };
    let ftag: Vec<u8> = match dev {
        "final-tag-missing" => vec![],
        "final-tag-is-last-chunk-tag-again" => {
            let l = sealed.last()?;
            l[l.len() - 16..].to_vec()
        }
        "final-tag-over-nonempty-plaintext" => {
            let t = rfc::sym::aead_seal(s, a, &key, &nonce_for(fidx, true), &fad, &[0u8])?;
            t[1..].to_vec()
        }
        _ => rfc::sym::aead_seal(s, a, &key, &nonce_for(fidx, true), &fad, &[])?,
    };
    let mut out = vec![2u8, s, a, co];
    out.extend_from_slice(salt);
    for c in sealed {
        out.extend(c);
    }
    out.extend(ftag);
    Some(out)
}

fn fam_accept_seipd2(ctx: &mut Ctx) {
    let chunks: Vec<u8> = if ctx.quick() { vec![0, 1, 4] } else { vec![0, 1, 2, 4, 6, 8] };
    for &s in &AES {
        for &a in &AEADS {
            for &co in &chunks {
                if !ctx.mine() {
                    continue;
                }
                describe_case(&format!("seipd2 near misses sym {s} aead {a} chunk {co}"));
                let cs = 1usize << (co as usize + 6);
                let ks = rfc::sym::key_size(s).unwrap();
                // lengths of the literal packet inside: empty stream is not a message, so the raw API gets
                // the 0-chunk case and the message API starts at one short chunk
                for (li, &n) in [0usize, 9, cs, cs + 1, 2 * cs, 3 * cs + 5].iter().enumerate() {
                    let mut rng = ctx.rng("accept.seipd2", ((s as u64) << 40) | ((a as u64) << 32) | ((co as u64) << 24) | li as u64);
                    let key = rbytes(&mut rng, ks);
                    let salt: [u8; 32] = rng.gen();
                    // raw plaintext for the packet API; a literal packet of exactly n octets for the message API
                    let raw = rbytes(&mut rng, n);
                    let lit = payload_for_inner(n).map(|pl| { let p = rbytes(&mut rng, pl); (ref_literal(&p), p) });
                    if seipd_v2_dev(s, a, co, &salt, &key, &raw, "") != rfc::sym::seipd_v2_encrypt(s, a, co, &salt, &key, &raw) {
                        ctx.inconclusive("near-miss builder does not reproduce the reference SEIPDv2 body");
                        continue;
                    }
                    let lc = len_class(n, cs);
                    for dev in SEIPD2_DEVS {
                        // ---- packet API
                        if let Some(body) = seipd_v2_dev(s, a, co, &salt, &key, &raw, dev) {
                            if rfc::sym::seipd_v2_decrypt(&body, &key).is_ok() {
                                ctx.tally("near-miss.seipd2.coincides-with-valid", 1);
                            } else {
                                let rp = json!({"family": "seipd2-near-miss", "deviation": dev, "sym": s, "aead": a, "chunk": co, "len": n, "key": hexs(&key), "body": hexs(&body[..body.len().min(2048)])});
                                cov(ctx, "seipd2-near-raw", s, a, co, 0, 0, dev, &lc, "refuse");
                                let r = lib(ctx, "C12/seipd2/near-miss", &rp, || {
                                    SymEncryptedProtectedData::try_from_reader(PacketHeader::new_fixed(Tag::SymEncryptedProtectedData, body.len() as u32), &body[..])
                                        .and_then(|p| p.decrypt(&key, None, Seipdv1ReadMode::default()))
                                });
                                if let Some(r) = r {
                                    must_refuse(
                                        ctx,
                                        "near-miss.seipd2-raw",
                                        dev,
                                        r.ok().map(|d| format!("{} octets of plaintext", d.len())),
                                        format!("C12/seipd2/raw/accepts-non-rfc-stream/{dev}"),
                                        format!("SymEncryptedProtectedData::decrypt read to a clean end a SEIPDv2 body that deviates from RFC 9580 5.13.2 in one element ({dev}; sym {s}, aead {a}, chunk octet {co}, {n} plaintext octets)"),
                                        &rp,
                                    );
                                }
                            }
                        }
                        // ---- message API
                        let Some((inner, payload)) = &lit else { continue };
                        let Some(body) = seipd_v2_dev(s, a, co, &salt, &key, inner, dev) else { continue };
                        if rfc::sym::seipd_v2_decrypt(&body, &key).is_ok() {
                            continue;
                        }
                        let form = outer_form(li + co as usize + a as usize, body.len(), 18);
                        let bytes = frame(18, &body, &form).expect("frame");
                        let rp = json!({"family": "seipd2-near-miss-msg", "deviation": dev, "sym": s, "aead": a, "chunk": co, "payload_len": payload.len(), "key": hexs(&key), "message": hexs(&bytes[..bytes.len().min(2048)])});
                        cov(ctx, "seipd2-near-msg", s, a, co, 0, 0, dev, &lc, "refuse");
                        let r = lib(ctx, "C12/seipd2/near-miss", &rp, || {
                            let sk = PlainSessionKey::V6 { key: RawSessionKey::from(key.clone()) };
                            lib_read_msg(&bytes, ring_sk(sk, DecryptionOptions::new()))
                        });
                        if let Some(r) = r {
                            must_refuse(
                                ctx,
                                "near-miss.seipd2-message",
                                dev,
                                r.ok().map(|d| format!("{} octets of plaintext ({})", d.len(), if d == *payload { "the payload" } else { "not the payload" })),
                                format!("C12/seipd2/accepts-non-rfc-stream/{dev}"),
                                format!("a SEIPDv2 message that deviates from RFC 9580 5.13.2 in one element ({dev}; sym {s}, aead {a}, chunk octet {co}, framing {}) was read to a clean end", form_name(&form)),
                                &rp,
                            );
                        }
                    }
                }
            }
        }
    }
}

// ---------------------------------------------------------------------------------------------
// (8.7) secret key protection: usage 253 (AEAD) key derivation / associated data, usage 254 SHA-1
// check, usage 255 checksum — one element wrong; Argon2 specifiers outside the range

const KEYPROT_AEAD_DEVS: [&str; 16] = [
    "ad-without-packet-type-octet",
    "ad-without-public-key",
    "ad-other-packet-type",
    "ad-old-format-packet-type-octet",
    "ad-plain-tag-octet",
    "ad-empty",
    "ad-with-s2k-fields",
    "hkdf-info-other-packet-type",
    "hkdf-info-other-key-version",
    "hkdf-info-empty",
    "hkdf-info-without-aead-octet",
    "hkdf-info-old-format-packet-type-octet",
    "kek-is-s2k-output",
    "hkdf-sha512",
    "tag-last-octet-flipped",
    "tag-missing",
];

const KEYPROT_CFB_DEVS: [&str; 7] = [
    "sha1-over-ciphertext",
    "sha1-last-octet-flipped",
    "sha1-missing",
    "sha1-of-material-and-public-key",
    "sum16-instead-of-sha1",
    "sha256-truncated-instead-of-sha1",
    "sha1-in-front",
];

const KEYPROT_MCFB_DEVS: [&str; 4] = ["checksum-plus-1", "checksum-octets-swapped", "checksum-missing", "sha1-instead-of-checksum"];

/// Locks `material` with one element of RFC 9580 3.7.2.1 / 5.5.3 changed; `key` is the S2K output.
fn keyprot_dev(public: &RefPub, tag: u8, prot: &RefProtection, key: &[u8], material: &[u8], dev: &str) -> Option<Vec<u8>> {
    let data: Vec<u8> = match prot {
        RefProtection::Aead { cipher, aead: a, s2k, nonce } => {
            let ks = rfc::sym::key_size(*cipher)?;
            let ty = 0xC0 | tag;
            let other_ty = 0xC0 | (if tag == 5 { 7 } else { 5 });
            let old_ty = 0x80 | (tag << 2) | 1;
            let info: Vec<u8> = match dev {
                "hkdf-info-other-packet-type" => vec![other_ty, public.version, *cipher, *a],
                "hkdf-info-other-key-version" => vec![ty, if public.version == 6 { 4 } else { 6 }, *cipher, *a],
                "hkdf-info-empty" => vec![],
                "hkdf-info-without-aead-octet" => vec![ty, public.version, *cipher],
                "hkdf-info-old-format-packet-type-octet" => vec![old_ty, public.version, *cipher, *a],
                _ => vec![ty, public.version, *cipher, *a],
            };
            let kek = match dev {
                "kek-is-s2k-output" => key[..ks].to_vec(),
                "hkdf-sha512" => hkdf_any(true, None, key, &info, ks),
                _ => rfc::sym::hkdf_sha256(None, key, &info, ks),
            };
            let pk = public.encode();
            let ad: Vec<u8> = match dev {
                "ad-without-packet-type-octet" => pk,
                "ad-without-public-key" => vec![ty],
                "ad-other-packet-type" => [&[other_ty][..], &pk].concat(),
                "ad-old-format-packet-type-octet" => [&[old_ty][..], &pk].concat(),
                "ad-plain-tag-octet" => [&[tag][..], &pk].concat(),
                "ad-empty" => vec![],
                "ad-with-s2k-fields" => [&[ty][..], &pk, &[253, *cipher, *a][..], &s2k.encode()].concat(),
                _ => [&[ty][..], &pk].concat(),
            };
            let mut ct = rfc::sym::aead_seal(*cipher, *a, &kek, nonce, &ad, material)?;
            match dev {
                "tag-last-octet-flipped" => *ct.last_mut()? ^= 0x01,
                "tag-missing" => ct.truncate(material.len()),
                _ => {}
            }
            ct
        }
        RefProtection::Cfb { cipher, iv, .. } => {
            let mut d = material.to_vec();
            let sha = rfc::hash(2, &[material])?;
            match dev {
                "sha1-over-ciphertext" => {
                    let mut c = material.to_vec();
                    rfc::sym::cfb_encrypt(*cipher, key, iv, &mut c)?;
                    d.extend(rfc::hash(2, &[&c])?);
                }
                "sha1-last-octet-flipped" => {
                    d.extend(&sha);
                    *d.last_mut()? ^= 0x01;
                }
                "sha1-missing" => {}
                "sha1-of-material-and-public-key" => d.extend(rfc::hash(2, &[&public.encode(), material])?),
                "sum16-instead-of-sha1" => d.extend(rfc::sum16(material).to_be_bytes()),
                "sha256-truncated-instead-of-sha1" => d.extend(&rfc::hash(8, &[material])?[..20]),
                "sha1-in-front" => {
                    d = sha.clone();
                    d.extend_from_slice(material);
                }
                _ => d.extend(&sha),
            }
            rfc::sym::cfb_encrypt(*cipher, key, iv, &mut d)?;
            d
        }
        RefProtection::MalleableCfb { cipher, iv, .. } => {
            let mut d = material.to_vec();
            let ck = rfc::sum16(material);
            match dev {
                "checksum-plus-1" => d.extend(ck.wrapping_add(1).to_be_bytes()),
                "checksum-octets-swapped" => d.extend(ck.swap_bytes().to_be_bytes()),
                "checksum-missing" => {}
                "sha1-instead-of-checksum" => d.extend(rfc::hash(2, &[material])?),
                _ => d.extend(ck.to_be_bytes()),
            }
            rfc::sym::cfb_encrypt(*cipher, key, iv, &mut d)?;
            d
        }
        _ => return None,
    };
    Some(RefSecret { public: public.clone(), protection: prot.clone(), data }.encode())
}

fn keyprot_near<P: SecPkt>(ctx: &mut Ctx, pkt: &P, keyname: &str, seed: u64) {
    let tag = P::TAG;
    let Ok(plain) = pkt.to_bytes() else {
        ctx.inconclusive("cannot serialise zoo key");
        return;
    };
    let Some(rs) = RefSecret::parse(&plain) else {
        ctx.inconclusive(format!("reference cannot parse unprotected secret key packet of {keyname}"));
        return;
    };
    let Some(Ok(material)) = rs.unlock(tag, b"") else {
        ctx.inconclusive("reference cannot read zoo key material");
        return;
    };
    let v6 = rs.public.version == 6;
    let vname = if v6 { "v6" } else { "v4" };
    let mut rng = ctx.rng("accept.keyprot", seed);
    // dev: what the builder changes; item: name in the coverage set; ref_reads_it: the reference's unlock is no
    // judge here (the deviation is a rule about the fields, not about the protected octets)
    let try_one = |ctx: &mut Ctx, prot: RefProtection, key: Vec<u8>, pw: Vec<u8>, dev: &str, item: &str, ref_reads_it: bool, set: &str, sig: String, what: String| {
        let (pname, c, a, kind, h) = prot_desc(&prot);
        let Some(locked) = keyprot_dev(&rs.public, tag, &prot, &key, &material, dev) else {
            ctx.inconclusive("reference cannot build this key protection near miss");
            return;
        };
        // the reference must refuse it (or not know how to read it)
        let ref_s2k_usable = !matches!(&prot, RefProtection::Aead { s2k: RefS2k::Argon2 { m, .. }, .. } | RefProtection::Cfb { s2k: RefS2k::Argon2 { m, .. }, .. } if *m > 31);
        if let Some(Some(Ok(m))) = RefSecret::parse(&locked).filter(|_| ref_s2k_usable).map(|l| l.unlock(tag, &pw)) {
            if m == material && !ref_reads_it {
                ctx.tally("near-miss.keyprot.coincides-with-valid", 1);
                return;
            }
        }
        let rp = json!({"family": "keyprot-near-miss", "deviation": item, "key": keyname, "tag": tag, "protection": format!("{prot:?}"), "pw": hexs(&pw), "locked_packet": hexs(&locked)});
        cov(ctx, &format!("keyprot-{pname}-near"), c, a, 0, kind, h, item, &format!("{vname}-tag{tag}"), "refuse");
        let pwd = Password::from(&pw[..]);
        let r = lib(ctx, "C12/keyprot/near-miss", &rp, || {
            let mut p = P::parse(&locked).map_err(|e| format!("parse: {e}"))?;
            p.unlock_inplace(&pwd).map_err(|e| format!("unlock: {e}"))?;
            p.to_bytes().map_err(|e| format!("serialise: {e}"))
        });
        if let Some(r) = r {
            must_refuse(ctx, set, item, r.ok().map(|b| format!("an unlocked packet of {} octets ({})", b.len(), if b == plain { "the original material" } else { "other material" })), sig, what, &rp);
        }
    };
    // ---- usage 253
    for (di, dev) in KEYPROT_AEAD_DEVS.iter().enumerate() {
        let c = AES[(di + seed as usize) % 3];
        let a = AEADS[(di / 3 + seed as usize) % 3];
        let h = STRONG_HASHES[rng.gen_range(0..STRONG_HASHES.len())];
        let s2k = mk_s2k(&mut rng, [1usize, 2][di % 2], h);
        let pw = { let n = rng.gen_range(1..24); rbytes(&mut rng, n) };
        let Some(key) = s2k.derive(&pw, rfc::sym::key_size(c).unwrap()) else { continue };
        let prot = RefProtection::Aead { cipher: c, aead: a, s2k, nonce: rbytes(&mut rng, rfc::sym::aead_nonce_len(a).unwrap()) };
        if di == 0 {
            // control: the builder without deviation is the reference's own locked packet
            if keyprot_dev(&rs.public, tag, &prot, &key, &material, "") != RefSecret::lock(&rs.public, tag, prot.clone(), &pw, &material).map(|l| l.encode()) {
                ctx.inconclusive("near-miss builder does not reproduce the reference AEAD key protection");
                return;
            }
        }
        try_one(
            ctx,
            prot,
            key,
            pw,
            dev,
            dev,
            false,
            "near-miss.keyprot-aead",
            format!("C12/keyprot/aead/accepts-non-rfc-protection/{dev}"),
            format!("{keyname} tag {tag}: a usage-253 protected key that deviates from RFC 9580 3.7.2.1 in one element ({dev}) was unlocked"),
        );
    }
    // ---- usage 254
    for (di, dev) in KEYPROT_CFB_DEVS.iter().enumerate() {
        let c = rfc::sym::ALL_CIPHERS[(di * 3 + seed as usize) % 11];
        let h = STRONG_HASHES[rng.gen_range(0..STRONG_HASHES.len())];
        let s2k = mk_s2k(&mut rng, di % 2, h);
        let pw = { let n = rng.gen_range(1..24); rbytes(&mut rng, n) };
        let Some(key) = s2k.derive(&pw, rfc::sym::key_size(c).unwrap()) else { continue };
        let prot = RefProtection::Cfb { cipher: c, s2k, iv: rbytes(&mut rng, rfc::sym::block_size(c).unwrap()) };
        if di == 0 && keyprot_dev(&rs.public, tag, &prot, &key, &material, "") != RefSecret::lock(&rs.public, tag, prot.clone(), &pw, &material).map(|l| l.encode()) {
            ctx.inconclusive("near-miss builder does not reproduce the reference CFB key protection");
            return;
        }
        try_one(
            ctx,
            prot,
            key,
            pw,
            dev,
            dev,
            false,
            "near-miss.keyprot-cfb",
            format!("C12/keyprot/cfb/accepts-non-rfc-protection/{dev}"),
            format!("{keyname} tag {tag}: a usage-254 protected key whose integrity part deviates from RFC 9580 3.7.2.1 ({dev}) was unlocked"),
        );
    }
    // ---- usage 255 (v4 only)
    if !v6 {
        for (di, dev) in KEYPROT_MCFB_DEVS.iter().enumerate() {
            let c = rfc::sym::ALL_CIPHERS[(di * 5 + seed as usize) % 11];
            let h = HASHES[rng.gen_range(0..HASHES.len())];
            let s2k = mk_s2k(&mut rng, [0usize, 1, 3][di % 3], h);
            let pw = { let n = rng.gen_range(1..24); rbytes(&mut rng, n) };
            let Some(key) = s2k.derive(&pw, rfc::sym::key_size(c).unwrap()) else { continue };
            let prot = RefProtection::MalleableCfb { cipher: c, s2k, iv: rbytes(&mut rng, rfc::sym::block_size(c).unwrap()) };
            try_one(
                ctx,
                prot,
                key,
                pw,
                dev,
                dev,
                false,
                "near-miss.keyprot-mcfb",
                format!("C12/keyprot/mcfb/accepts-non-rfc-protection/{dev}"),
                format!("{keyname} tag {tag}: a usage-255 protected key whose checksum deviates from RFC 9580 3.7.2.1 ({dev}) was unlocked"),
            );
        }
    }
    // ---- a (legal) Argon2 specifier with a usage other than 253: RFC 9580 3.7.2.1 "MUST reject as malformed"
    for usage in [254u8, 255] {
        if usage == 255 && v6 {
            continue;
        }
        let s2k = mk_s2k(&mut rng, 2, 8);
        let pw = { let n = rng.gen_range(1..24); rbytes(&mut rng, n) };
        let c = AES[(seed as usize + usage as usize) % 3];
        let Some(key) = s2k.derive(&pw, rfc::sym::key_size(c).unwrap()) else { continue };
        let iv = rbytes(&mut rng, 16);
        let (prot, set, pn) = if usage == 254 {
            (RefProtection::Cfb { cipher: c, s2k, iv }, "near-miss.keyprot-cfb", "cfb")
        } else {
            (RefProtection::MalleableCfb { cipher: c, s2k, iv }, "near-miss.keyprot-mcfb", "mcfb")
        };
        try_one(
            ctx,
            prot,
            key,
            pw,
            "",
            "argon2-specifier-without-aead",
            true,
            set,
            format!("C12/keyprot/{pn}/accepts-non-rfc-protection/argon2-specifier-without-aead"),
            format!("{keyname} tag {tag}: a usage-{usage} protected key with an Argon2 specifier (RFC 9580 3.7.2.1: only with usage 253, MUST reject) was unlocked"),
        );
    }
    // ---- Argon2 specifiers outside the range: protected by a sender that raises the parameters to what
    // Argon2 can work with (usage 253 and 254); the library must neither unlock nor write such packets
    let grid = argon2_illegal_grid();
    for k in 0..6usize {
        let (t, p, m) = grid[(seed as usize * 7 + k * 11) % grid.len()];
        if p > 16 {
            continue;
        }
        let cls = argon2_class(t, p, m);
        let salt: [u8; 16] = rng.gen();
        let s2k = RefS2k::Argon2 { salt, t, p, m };
        let pw = { let n = rng.gen_range(1..24); rbytes(&mut rng, n) };
        let c = AES[k % 3];
        let a = AEADS[(k / 3 + seed as usize) % 3];
        let Some(key) = argon2_sloppy(&salt, t, p, m, &pw, rfc::sym::key_size(c).unwrap()) else { continue };
        let prot = RefProtection::Aead { cipher: c, aead: a, s2k: s2k.clone(), nonce: rbytes(&mut rng, rfc::sym::aead_nonce_len(a).unwrap()) };
        let pname = prot_desc(&prot).0;
        try_one(
            ctx,
            prot.clone(),
            key,
            pw.clone(),
            "",
            &format!("unlock/{pname}/argon2-{cls}"),
            false,
            "near-miss.keyprot-s2k-range",
            format!("C12/keyprot/{pname}/accepts-s2k-outside-rfc-range/argon2-{cls}"),
            format!("{keyname} tag {tag}: a protected key whose Argon2 specifier is outside RFC 9580 3.7.1.4 (t={t}, p={p}, encoded m={m}) was unlocked"),
        );
        // emitting side
        let rp = json!({"family": "keyprot-emit-s2k-outside-range", "key": keyname, "tag": tag, "protection": format!("{prot:?}"), "pw": hexs(&pw)});
        let pwd = Password::from(&pw[..]);
        let mut p2 = pkt.clone();
        if let Some(r) = lib(ctx, "C12/keyprot/near-miss", &rp, || p2.lock(&pwd, lib_prot(&prot)).and_then(|_| p2.to_bytes())) {
            must_refuse(
                ctx,
                "near-miss.keyprot-s2k-range",
                &format!("lock/{pname}/argon2-{cls}"),
                r.ok().map(|b| format!("a locked packet of {} octets", b.len())),
                format!("C12/keyprot/{pname}/emits-s2k-outside-rfc-range/argon2-{cls}"),
                format!("{keyname} tag {tag}: the library locked a key with an Argon2 specifier outside RFC 9580 3.7.1.4 (t={t}, p={p}, encoded m={m}): no key is defined for it"),
                &rp,
            );
        }
    }
}

fn fam_accept_keyprot(ctx: &mut Ctx) {
    use zoo::{Alg, Spec};
    let specs = [
        Spec::simple(false, Alg::Ed25519Legacy, Some(Alg::EcdhCv25519)),
        Spec::simple(true, Alg::Ed25519, Some(Alg::X25519)),
        Spec::simple(false, Alg::EcdsaP256, Some(Alg::EcdhP256)),
        Spec::simple(true, Alg::Ed448, Some(Alg::X448)),
    ];
    for (si, spec) in specs.iter().enumerate() {
        for part in 0..2u64 {
            if !ctx.mine() {
                continue;
            }
            describe_case(&format!("keyprot near misses {} part {part}", spec.name()));
            let key = zoo::key(spec, 0);
            let seed = (si as u64) << 8 | part;
            if part == 0 {
                keyprot_near(ctx, &key.primary_key, &spec.name(), seed);
            } else if let Some(sub) = key.secret_subkeys.first() {
                keyprot_near(ctx, &sub.key, &spec.name(), seed);
            }
        }
    }
}
