//! C11 — the digest handed to the public-key primitive is exactly the RFC 9580 5.2.4 digest.
//!
//! Sign side: a recording signer is passed to every signing API; the reference recomputes the
//! digest from the *serialised* signature packet (reference parser) and the signed object.
//! Verify side: the reference builds signatures (packet encoded by the reference, signature
//! value made with the raw `SigningKey::sign` over the reference digest); the library's verify
//! APIs must accept them and a recording verifier must see the same digest.

use bytes::Bytes;
use pgp::composed::{DetachedSignature, Message, MessageBuilder, SignedSecretKey};
use pgp::crypto::hash::HashAlgorithm;
use pgp::packet::{
    Notation, PacketHeader, PublicKey, Signature, SignatureConfig, SignatureType, Subpacket,
    SubpacketData, UserAttribute, UserId,
};
use pgp::ser::Serialize;
use pgp::types::{KeyDetails, KeyVersion, Password, SignatureBytes, SigningKey, Tag, Timestamp};
use rand::{Rng, RngCore};
use serde_json::json;
use std::io::Read;

use crate::core::{describe_case, hexs, Ctx};
use crate::rec::{RecSigner, RecVerifier};
use crate::rfc;
use crate::rfc::sig::{encode_subpacket, key_hash_framing, parse_sig, uid_hash_framing, RefSig};
use crate::zoo::{self, Alg, Spec};

fn sigbytes_wire(s: &SignatureBytes) -> Vec<u8> {
    match s {
        SignatureBytes::Mpis(m) => m.iter().flat_map(|x| rfc::mpi(x.as_ref())).collect(),
        SignatureBytes::Native(b) => b.to_vec(),
    }
}

struct Keys {
    name: String,
    key: SignedSecretKey,
    prim_body: Vec<u8>,
    sub_body: Option<Vec<u8>>,
    v6: bool,
}

fn keys(ctx: &Ctx) -> Vec<Keys> {
    let mut specs = vec![];
    let mut a = Spec::simple(false, Alg::Ed25519Legacy, Some(Alg::EcdhCv25519));
    a.sign_sub = Some(Alg::EcdsaP256);
    specs.push(a);
    let mut b = Spec::simple(true, Alg::Ed25519, Some(Alg::X25519));
    b.sign_sub = Some(Alg::Ed25519);
    specs.push(b);
    specs.push(Spec::simple(false, Alg::EcdsaP384, Some(Alg::EcdhP384)));
    specs.push(Spec::simple(true, Alg::Ed448, Some(Alg::X448)));
    specs.push(Spec::simple(false, Alg::Rsa2048, Some(Alg::Rsa2048)));
    // a v6 key that accepts every hash (the EC keys refuse the shorter digests by policy)
    specs.push(Spec::simple(true, Alg::Rsa2048, None));
    if !ctx.quick() {
        specs.push(Spec::simple(true, Alg::EcdsaP521, Some(Alg::EcdhP521)));
        specs.push(Spec::simple(false, Alg::EcdsaK256, None));
        specs.push(Spec::simple(false, Alg::Dsa2048, None));
    }
    specs
        .into_iter()
        .map(|s| {
            let key = zoo::key(&s, 2);
            let prim_body = key.primary_key.public_key().to_bytes().unwrap();
            let sub_body = key.secret_subkeys.first().map(|k| k.key.public_key().to_bytes().unwrap());
            Keys { name: s.name(), v6: s.v6, key, prim_body, sub_body }
        })
        .collect()
}

const HASHES: [(u8, HashAlgorithm); 6] = [
    (8, HashAlgorithm::Sha256),
    (9, HashAlgorithm::Sha384),
    (10, HashAlgorithm::Sha512),
    (11, HashAlgorithm::Sha224),
    (12, HashAlgorithm::Sha3_256),
    (14, HashAlgorithm::Sha3_512),
];

/// hashed subpacket sets built with the library API (sign side)
fn subpacket_set(kind: usize, key: &impl KeyDetails, rng: &mut impl Rng) -> Vec<Subpacket> {
    let ts = Subpacket::regular(SubpacketData::SignatureCreationTime(Timestamp::from_secs(1_600_000_000 + kind as u32))).unwrap();
    let fp = Subpacket::regular(SubpacketData::IssuerFingerprint(key.fingerprint())).unwrap();
    let note = |n: usize, rng: &mut dyn RngCore| {
        let mut v = vec![0u8; n];
        rng.fill_bytes(&mut v);
        Subpacket::regular(SubpacketData::Notation(Notation { readable: false, name: Bytes::from_static(b"test@example.org"), value: v.into() })).unwrap()
    };
    // hashed areas of an exact total size next to the 16-bit limits (v4 area length field, and the v4
    // trailer count 6 + area which passes 65535 for areas of 65530 and more)
    if kind >= 8 {
        let target = [65529usize, 65530, 65535][(kind - 8) % 3];
        let base: usize = ts.write_len() + fp.write_len();
        let mut n = target - base - 30;
        for _ in 0..4 {
            let sp = note(n, rng);
            let total = base + sp.write_len();
            if total == target {
                return vec![ts, fp, sp];
            }
            n = (n as i64 + target as i64 - total as i64) as usize;
        }
        return vec![ts, fp, note(n, rng)];
    }
    match kind % 8 {
        0 => vec![],
        1 => vec![ts, fp],
        2 => vec![Subpacket::critical(SubpacketData::SignatureCreationTime(Timestamp::from_secs(77))).unwrap(), fp],
        3 => vec![ts, fp, note(150, rng)],          // 1-octet length edge (<192 incl. header?)
        4 => vec![ts, note(200, rng), fp],          // 2-octet subpacket length
        5 => vec![ts, fp, note(16400, rng)],        // 5-octet subpacket length
        6 => vec![ts, fp, note(60000, rng)],        // close to the v4 64 KiB area limit
        _ => vec![
            ts,
            fp,
            Subpacket::regular(SubpacketData::PolicyURI("https://example.org/policy".into())).unwrap(),
            Subpacket::regular(SubpacketData::SignersUserID(Bytes::from_static(b"me@example.org"))).unwrap(),
            Subpacket::critical(SubpacketData::KeyFlags({
                let mut f = pgp::packet::KeyFlags::default();
                f.set_sign(true);
                f
            }))
            .unwrap(),
        ],
    }
}

fn mk_config(v6: bool, typ: SignatureType, key: &impl KeyDetails, hash: HashAlgorithm, rng: &mut (impl Rng + rand::CryptoRng)) -> SignatureConfig {
    if v6 {
        SignatureConfig::v6(rng, typ, key.algorithm(), hash).expect("v6 config")
    } else {
        SignatureConfig::v4(typ, key.algorithm(), hash)
    }
}

/// compares one recorded digest with the reference digest of the produced signature
fn judge_sign(ctx: &mut Ctx, what: &str, sig: &Signature, seen: Vec<crate::rec::SeenDigest>, content: &[&[u8]], replay: serde_json::Value) {
    ctx.eval();
    let body = match sig.to_bytes() {
        Ok(b) => b,
        Err(e) => {
            ctx.inconclusive(format!("cannot serialise signature: {e}"));
            return;
        }
    };
    let rs = match parse_sig(&body) {
        Ok(r) => r,
        Err(e) => {
            ctx.violation(format!("C11/sign/{what}/reference-cannot-parse-signature"), e, json!({"base": replay, "sig": hexs(&body)}));
            return;
        }
    };
    let Some(want) = rs.digest_over(content) else {
        ctx.inconclusive("reference has no such hash");
        return;
    };
    let vclass = format!("v{}", rs.version);
    if rs.version == 6 && Some(rs.salt.len()) != rfc::salt_len(rs.hash_alg) {
        ctx.violation(
            format!("C11/sign/{what}/v6/salt-size"),
            format!("v6 signature with hash {} carries a {}-octet salt, RFC 9580 table 23 requires {:?}", rs.hash_alg, rs.salt.len(), rfc::salt_len(rs.hash_alg)),
            json!({"base": replay, "sig": hexs(&body)}),
        );
    }
    if seen.len() != 1 {
        ctx.violation(format!("C11/sign/{what}/{vclass}/signer-called-{}-times", seen.len()), "expected exactly one call of the signing primitive", replay);
        return;
    }
    if seen[0].hash_alg != rs.hash_alg {
        ctx.violation(format!("C11/sign/{what}/{vclass}/hash-alg-mismatch"), format!("primitive got hash {} but packet says {}", seen[0].hash_alg, rs.hash_alg), replay.clone());
    }
    if seen[0].digest != want {
        ctx.violation(
            format!("C11/sign/{what}/{vclass}/digest-mismatch"),
            format!("digest handed to the signing primitive {} != RFC 5.2.4 digest {} (type {:#x})", hex::encode(&seen[0].digest), hex::encode(&want), rs.typ),
            json!({"base": replay, "sig": hexs(&body)}),
        );
    } else if rs.left16 != want[..2] {
        ctx.violation(format!("C11/sign/{what}/{vclass}/left16-mismatch"), "left 16 bits field is not the digest prefix", json!({"base": replay, "sig": hexs(&body)}));
    }
}

/// Reference-built signature over `content` made with the raw primitive of `signer`.
#[allow(clippy::too_many_arguments)]
fn ref_signature(
    version: u8,
    typ: u8,
    signer: &dyn SigningKey,
    hash: (u8, HashAlgorithm),
    hashed: Vec<u8>,
    unhashed: Vec<u8>,
    created: u32,
    content: &[&[u8]],
    rng: &mut impl Rng,
) -> Option<(Signature, Vec<u8>, Vec<u8>)> {
    let mut salt = vec![];
    if version == 6 {
        salt = vec![0u8; rfc::salt_len(hash.0)?];
        rng.fill_bytes(&mut salt);
    }
    let mut issuer = [0u8; 8];
    issuer.copy_from_slice(signer.legacy_key_id().as_ref());
    let mut rs = RefSig {
        version,
        typ,
        pub_alg: signer.algorithm().into(),
        hash_alg: hash.0,
        created,
        issuer,
        hashed,
        unhashed,
        left16: [0, 0],
        salt,
        sig_data: vec![],
        off_hashed: 0,
        off_unhashed: 0,
        off_left16: 0,
        off_salt: 0,
        off_sig: 0,
    };
    let digest = rs.digest_over(content)?;
    rs.left16 = [digest[0], digest[1]];
    let sb = match signer.sign(&Password::empty(), hash.1, &digest) {
        Ok(s) => s,
        Err(e) => {
            eprintln!("ref_signature: raw sign failed: {e} (alg {:?} hash {})", signer.algorithm(), hash.0);
            return None;
        }
    };
    rs.sig_data = sigbytes_wire(&sb);
    let body = rs.encode();
    let sig = match Signature::try_from_reader(PacketHeader::new_fixed(Tag::Signature, body.len() as u32), &body[..]) {
        Ok(s) => s,
        Err(e) => {
            eprintln!("ref_signature: library cannot parse reference signature: {e} (v{version} typ {typ})");
            return None;
        }
    };
    Some((sig, digest, body))
}

fn ref_hashed_area(kind: usize, signer: &dyn SigningKey, created: u32, rng: &mut impl Rng) -> Vec<u8> {
    let mut fp = vec![u8::from(signer.version())];
    fp.extend(signer.fingerprint().as_bytes());
    let mut a = vec![];
    match kind % 6 {
        0 => {
            a.extend(encode_subpacket(2, false, &created.to_be_bytes(), 0));
            a.extend(encode_subpacket(33, false, &fp, 0));
        }
        1 => {
            // non-minimal length encodings (5-octet and 2-octet are not available below 192: use 5)
            a.extend(encode_subpacket(2, true, &created.to_be_bytes(), 5));
            a.extend(encode_subpacket(33, false, &fp, 5));
        }
        2 => {
            a.extend(encode_subpacket(33, false, &fp, 0));
            a.extend(encode_subpacket(2, false, &created.to_be_bytes(), 0));
            let mut note = vec![0u8, 0, 0, 0, 0, 4, 0, 200];
            note.extend(b"n@ex");
            let mut v = vec![0u8; 200];
            rng.fill_bytes(&mut v);
            note.extend(v);
            a.extend(encode_subpacket(20, false, &note, 0));
        }
        3 => {
            a.extend(encode_subpacket(2, false, &created.to_be_bytes(), 0));
            a.extend(encode_subpacket(33, false, &fp, 0));
            // unknown, non-critical subpacket
            a.extend(encode_subpacket(77, false, &[1, 2, 3], 0));
            // private/experimental
            a.extend(encode_subpacket(101, false, &[], 0));
        }
        4 => {
            a.extend(encode_subpacket(2, false, &created.to_be_bytes(), 0));
            a.extend(encode_subpacket(33, false, &fp, 0));
            let mut note = vec![0x80u8, 0, 0, 0, 0, 4];
            let n = 30000usize;
            note.extend((n as u16).to_be_bytes());
            note.extend(b"n@ex");
            let mut v = vec![b'x'; n];
            rng.fill_bytes(&mut v[..16]);
            note.extend(v);
            a.extend(encode_subpacket(20, false, &note, 0));
        }
        _ => {
            a.extend(encode_subpacket(2, false, &created.to_be_bytes(), 0));
            a.extend(encode_subpacket(33, false, &fp, 0));
            a.extend(encode_subpacket(27, true, &[0x03], 0));
            a.extend(encode_subpacket(9, false, &86400u32.to_be_bytes(), 0));
        }
    }
    a
}

pub fn run(ctx: &mut Ctx) {
    let ks = keys(ctx);
    let quick = ctx.quick();

    let docs: Vec<Vec<u8>> = vec![
        vec![],
        b"a".to_vec(),
        b"line one\nline two\r\nline three\rend\n".to_vec(),
        b"trailing cr\r".to_vec(),
        // texts that end exactly on the 512 / 1024 octet window of the canonicalising reader
        {
            let mut d = vec![b'q'; 512];
            d[511] = b'\r';
            d[100] = b'\n';
            d
        },
        {
            let mut d = vec![b'w'; 1024];
            d[1023] = b'\r';
            d[511] = b'\r';
            d[512] = b'\n';
            d
        },
        (0..70000u32).map(|i| if i % 97 == 0 { b'\n' } else { (i % 251) as u8 }).collect(),
    ];
    let mut docs = docs;
    if !quick {
        // thorough: texts of every length around the hash block sizes (64/72/104/128/136/144), the 512-octet
        // window of the canonicalising reader and the 64 KiB marks, over a line-ending-rich alphabet
        let mut rng = ctx.rng("c11-docs", 0);
        let mut lens: Vec<usize> = vec![];
        for edge in [0usize, 56, 64, 72, 104, 112, 128, 136, 144, 256, 512, 1024, 1536, 4096, 8192, 65536] {
            for d in [-2i64, -1, 0, 1, 2] {
                let l = edge as i64 + d;
                if l >= 0 {
                    lens.push(l as usize);
                }
            }
        }
        for (i, l) in lens.iter().enumerate() {
            let alpha: &[u8] = match i % 3 {
                0 => b"\r\nab",
                1 => b"\r\r\n\n \tz",
                _ => b"\r\nabcdefghijklmnopqrstuvwxyz0123456789 ",
            };
            let mut d: Vec<u8> = (0..*l).map(|_| alpha[rng.gen_range(0..alpha.len())]).collect();
            // pin the octets next to the 512-window edges to the interesting pairs
            for e in (512..=*l).step_by(512) {
                match (i / 3) % 4 {
                    0 => d[e - 1] = b'\r',
                    1 => {
                        d[e - 1] = b'\r';
                        if e < *l {
                            d[e] = b'\n';
                        }
                    }
                    2 => d[e - 1] = b'\n',
                    _ => {}
                }
            }
            docs.push(d);
        }
    }
    let docs = docs;
    let uid_lens: &[usize] = if quick { &[0, 1, 40, 300, 70000] } else { &[0, 1, 2, 40, 191, 192, 255, 256, 300, 65535, 65536, 70000] };

    for (ki, k) in ks.iter().enumerate() {
        let slow = k.name.contains("Rsa") || k.name.contains("Dsa");
        let pubkey = k.key.primary_key.public_key().clone();
        let kf = key_hash_framing(&k.prim_body);
        let skf = k.sub_body.as_ref().map(|b| key_hash_framing(b));
        let mut hashes: Vec<(u8, HashAlgorithm)> = if slow { if quick { vec![HASHES[0], HASHES[3]] } else { HASHES.to_vec() } } else if quick { HASHES[..4].to_vec() } else { HASHES.to_vec() };
        // hash algorithms the key's primitive refuses as too weak (documented policy) are not used
        hashes.retain(|h| {
            let d = vec![0x5Au8; rfc::hash_len(h.0).unwrap_or(32)];
            let ok = k.key.primary_key.sign(&Password::empty(), h.1, &d).is_ok();
            if !ok {
                ctx.tally("hash.refused_by_key_policy", 1);
            }
            ok
        });
        if hashes.is_empty() {
            hashes.push(HASHES[2]);
        }

        // ================= sign side
        for (hi, hash) in hashes.iter().enumerate() {
            for spk in 0..11usize {
                if slow && spk % 3 != 1 {
                    continue;
                }
                if !ctx.mine() {
                    continue;
                }
                describe_case(&format!("sign {} hash {} spk {}", k.name, hash.0, spk));
                let mut rng = ctx.rng("sign", (ki * 1000 + hi * 10 + spk) as u64);
                let rec = RecSigner::new(&k.key.primary_key);
                let base = json!({"key": k.name, "hash": hash.0, "subpackets": spk});
                let cls = |t: &str| format!("{t}");

                // --- documents 0x00 / 0x01 through SignatureConfig::sign and DetachedSignature
                for (di, doc) in docs.iter().enumerate() {
                    if (di + spk) % 2 == 1 && quick {
                        continue;
                    }
                    for typ in [SignatureType::Binary, SignatureType::Text] {
                        let mut c = mk_config(k.v6, typ, &k.key.primary_key, hash.1, &mut rng);
                        c.hashed_subpackets = subpacket_set(spk, &k.key.primary_key, &mut rng);
                        let r = ctx.guarded("C11/sign/doc", || base.clone(), || c.sign(&rec, &Password::empty(), &doc[..]));
                        let Some(r) = r else { continue };
                        match r {
                            Ok(sig) => {
                                let t = u8::from(typ);
                                ctx.cover(&("sign", &k.name, hash.0, spk, t, di));
                                ctx.seen("sign.types", format!("{:#04x}-v{}", t, if k.v6 { 6 } else { 4 }));
                                let canon;
                                let content: &[u8] = if t == 1 {
                                    canon = rfc::canon_text(doc);
                                    &canon
                                } else {
                                    doc
                                };
                                judge_sign(ctx, &cls("document"), &sig, rec.take(), &[content], json!({"base": base, "doc": di, "typ": t}));
                            }
                            Err(e) => {
                                rec.take();
                                // the v4 hashed area is limited to 64 KiB: a refusal there is expected
                                if !((spk % 8 == 6 || spk >= 8) && !k.v6) {
                                    ctx.tally("sign.refused", 1);
                                    ctx.note(format!("sign refused: {e}"));
                                }
                            }
                        }
                    }
                }
                // --- DetachedSignature helpers (default subpackets)
                if spk == 1 {
                    for text in [false, true] {
                        let r = ctx.guarded("C11/sign/detached", || base.clone(), || {
                            if text {
                                DetachedSignature::sign_text_data(&mut rng, &rec, &Password::empty(), hash.1, &docs[2][..])
                            } else {
                                DetachedSignature::sign_binary_data(&mut rng, &rec, &Password::empty(), hash.1, &docs[2][..])
                            }
                        });
                        if let Some(Ok(ds)) = r {
                            let canon = rfc::canon_text(&docs[2]);
                            let content: &[u8] = if text { &canon } else { &docs[2] };
                            ctx.cover(&("sign-detached", &k.name, hash.0, text));
                            judge_sign(ctx, "detached", &ds.signature, rec.take(), &[content], json!({"base": base, "detached_text": text}));
                        } else {
                            rec.take();
                        }
                    }
                    // inline message signature
                    let mut b = MessageBuilder::from_bytes("", docs[2].clone());
                    b.sign(&rec, Password::empty(), hash.1);
                    if let Some(Ok(bytes)) = ctx.guarded("C11/sign/inline", || base.clone(), || b.to_vec(&mut rng)) {
                        if let Ok(pk) = rfc::frame::deframe(&bytes) {
                            if let Some(sp) = pk.iter().rev().find(|p| p.tag == 2) {
                                if let Ok(sig) = Signature::try_from_reader(PacketHeader::new_fixed(Tag::Signature, sp.body.len() as u32), &sp.body[..]) {
                                    ctx.cover(&("sign-inline", &k.name, hash.0));
                                    judge_sign(ctx, "inline", &sig, rec.take(), &[&docs[2]], json!({"base": base, "inline": true}));
                                }
                            }
                        }
                    }
                    rec.take();
                }

                // --- certifications 0x10-0x13, 0x30 over user ids / attributes
                for (ui, ul) in uid_lens.iter().enumerate() {
                    if (ui + spk + hi) % 3 != 0 && quick {
                        continue;
                    }
                    let s: String = (0..*ul).map(|i| (b'a' + (i % 26) as u8) as char).collect();
                    let Ok(uid) = UserId::from_str(Default::default(), &s) else { continue };
                    let uid_body = uid.to_bytes().unwrap_or_default();
                    for typ in [SignatureType::CertGeneric, SignatureType::CertPersona, SignatureType::CertCasual, SignatureType::CertPositive, SignatureType::CertRevocation] {
                        if quick && (u8::from(typ) as usize + ui) % 2 == 0 {
                            continue;
                        }
                        let mut c = mk_config(k.v6, typ, &k.key.primary_key, hash.1, &mut rng);
                        c.hashed_subpackets = subpacket_set(spk, &k.key.primary_key, &mut rng);
                        let r = ctx.guarded("C11/sign/cert", || base.clone(), || c.sign_certification(&rec, &pubkey, &Password::empty(), Tag::UserId, &uid));
                        match r {
                            Some(Ok(sig)) => {
                                let t = u8::from(typ);
                                ctx.cover(&("sign-cert", &k.name, hash.0, spk, t, ul));
                                ctx.seen("sign.types", format!("{:#04x}-v{}", t, if k.v6 { 6 } else { 4 }));
                                let uf = uid_hash_framing(if k.v6 { 6 } else { 4 }, false, &uid_body);
                                judge_sign(ctx, "certification-uid", &sig, rec.take(), &[&kf, &uf], json!({"base": base, "uid_len": ul, "typ": t}));
                            }
                            _ => {
                                rec.take();
                            }
                        }
                    }
                }
                // user attribute (image)
                for il in [0usize, 100, 70000] {
                    let mut img = vec![0u8; il];
                    rng.fill_bytes(&mut img);
                    let Ok(ua) = UserAttribute::new_image(img.into()) else { continue };
                    let ua_body = ua.to_bytes().unwrap_or_default();
                    let mut c = mk_config(k.v6, SignatureType::CertPositive, &k.key.primary_key, hash.1, &mut rng);
                    c.hashed_subpackets = subpacket_set(spk, &k.key.primary_key, &mut rng);
                    if let Some(Ok(sig)) = ctx.guarded("C11/sign/cert-attr", || base.clone(), || c.sign_certification(&rec, &pubkey, &Password::empty(), Tag::UserAttribute, &ua)) {
                        ctx.cover(&("sign-cert-attr", &k.name, hash.0, spk, il));
                        ctx.seen("sign.types", "attr-0x13".to_string());
                        let uf = uid_hash_framing(if k.v6 { 6 } else { 4 }, true, &ua_body);
                        judge_sign(ctx, "certification-attribute", &sig, rec.take(), &[&kf, &uf], json!({"base": base, "attr_len": il}));
                    } else {
                        rec.take();
                    }
                }
                // --- 0x1F direct key, 0x20 key revocation
                for typ in [SignatureType::Key, SignatureType::KeyRevocation] {
                    let mut c = mk_config(k.v6, typ, &k.key.primary_key, hash.1, &mut rng);
                    c.hashed_subpackets = subpacket_set(spk, &k.key.primary_key, &mut rng);
                    if let Some(Ok(sig)) = ctx.guarded("C11/sign/key", || base.clone(), || c.sign_key(&rec, &Password::empty(), &pubkey)) {
                        let t = u8::from(typ);
                        ctx.cover(&("sign-key", &k.name, hash.0, spk, t));
                        ctx.seen("sign.types", format!("{:#04x}-v{}", t, if k.v6 { 6 } else { 4 }));
                        judge_sign(ctx, "direct-key", &sig, rec.take(), &[&kf], json!({"base": base, "typ": t}));
                    } else {
                        rec.take();
                    }
                }
                // --- 0x18 subkey binding, 0x28 subkey revocation, 0x19 primary key binding
                if let (Some(sub), Some(skf)) = (k.key.secret_subkeys.first(), skf.as_ref()) {
                    let subpub = sub.key.public_key().clone();
                    for typ in [SignatureType::SubkeyBinding, SignatureType::SubkeyRevocation] {
                        let mut c = mk_config(k.v6, typ, &k.key.primary_key, hash.1, &mut rng);
                        c.hashed_subpackets = subpacket_set(spk, &k.key.primary_key, &mut rng);
                        if let Some(Ok(sig)) = ctx.guarded("C11/sign/subkey", || base.clone(), || c.sign_subkey_binding(&rec, &pubkey, &Password::empty(), &subpub)) {
                            let t = u8::from(typ);
                            ctx.cover(&("sign-subkey", &k.name, hash.0, spk, t));
                            ctx.seen("sign.types", format!("{:#04x}-v{}", t, if k.v6 { 6 } else { 4 }));
                            judge_sign(ctx, "subkey-binding", &sig, rec.take(), &[&kf, skf], json!({"base": base, "typ": t}));
                        } else {
                            rec.take();
                        }
                    }
                }
                // 0x19 with a signing capable subkey as signer
                if let Some(ssub) = k.key.secret_subkeys.iter().find(|s| {
                    matches!(u8::from(s.key.algorithm()), 1 | 17 | 19 | 22 | 27 | 28)
                }) {
                    let ssub_pub = ssub.key.public_key().clone();
                    let ssub_body = ssub_pub.to_bytes().unwrap();
                    let sskf = key_hash_framing(&ssub_body);
                    let recs = RecSigner::new(&ssub.key);
                    let mut c = mk_config(k.v6, SignatureType::KeyBinding, &ssub.key, hash.1, &mut rng);
                    c.hashed_subpackets = subpacket_set(spk, &ssub.key, &mut rng);
                    if let Some(Ok(sig)) = ctx.guarded("C11/sign/backsig", || base.clone(), || c.sign_primary_key_binding(&recs, &ssub_pub, &Password::empty(), &pubkey)) {
                        ctx.cover(&("sign-backsig", &k.name, hash.0, spk));
                        ctx.seen("sign.types", format!("0x19-v{}", if k.v6 { 6 } else { 4 }));
                        judge_sign(ctx, "primary-key-binding", &sig, recs.take(), &[&kf, &sskf], json!({"base": base, "typ": 0x19}));
                    }
                }
            }
        }

        // ================= verify side: reference-made signatures
        let version: u8 = if k.v6 { 6 } else { 4 };
        let nver = if slow { ctx.qt(14, 7 * docs.len()) } else { ctx.qt(420, 7 * docs.len() * 6) };
        for vi in 0..nver {
            if !ctx.mine() {
                continue;
            }
            describe_case(&format!("verify {} #{}", k.name, vi));
            let mut rng = ctx.rng("verify", (ki * 100000 + vi) as u64);
            let hash = hashes[vi % hashes.len()];
            let created: u32 = rng.gen_range(1_000_000_000..1_900_000_000);
            let signer: &dyn SigningKey = &k.key.primary_key;
            let hashed = ref_hashed_area(vi, signer, created, &mut rng);
            let unhashed = if version == 4 && vi % 2 == 0 { encode_subpacket(16, false, signer.legacy_key_id().as_ref(), 0) } else { vec![] };
            let base = json!({"key": k.name, "hash": hash.0, "area": vi % 6, "i": vi});
            let ver = RecVerifier::new(&pubkey);

            // which object
            let obj = vi % 7;
            let doc = &docs[(vi / 7) % docs.len()];
            let canon = rfc::canon_text(doc);
            let uid_s: String = (0..uid_lens[vi % uid_lens.len()]).map(|i| (b'A' + (i % 26) as u8) as char).collect();
            let uid = UserId::from_str(Default::default(), &uid_s).unwrap();
            let uid_body = uid.to_bytes().unwrap_or_default();
            let uf = uid_hash_framing(version, false, &uid_body);
            let subpub = k.key.secret_subkeys.first().map(|s| s.key.public_key().clone());
            let (typ, content): (u8, Vec<&[u8]>) = match obj {
                0 => (0x00, vec![&doc[..]]),
                1 => (0x01, vec![&canon[..]]),
                2 => ([0x10u8, 0x11, 0x12, 0x13, 0x30][vi / 7 % 5], vec![&kf[..], &uf[..]]),
                3 => (0x1F, vec![&kf[..]]),
                4 => (0x20, vec![&kf[..]]),
                5 if skf.is_some() => (0x18, vec![&kf[..], &skf.as_ref().unwrap()[..]]),
                6 if skf.is_some() => (0x28, vec![&kf[..], &skf.as_ref().unwrap()[..]]),
                _ => (0x00, vec![&doc[..]]),
            };
            let Some((sig, want, body)) = ref_signature(version, typ, signer, hash, hashed.clone(), unhashed.clone(), created, &content, &mut rng) else {
                ctx.inconclusive("could not build reference signature");
                continue;
            };
            let replay = json!({"base": base, "typ": typ, "sig": hexs(&body)});
            let r = ctx.guarded("C11/verify", || replay.clone(), || match typ {
                0x00 | 0x01 => sig.verify(&ver, &doc[..]),
                0x10..=0x13 | 0x30 => sig.verify_certification(&ver, Tag::UserId, &uid),
                0x1F | 0x20 => sig.verify_key(&ver),
                _ => sig.verify_subkey_binding(&ver, subpub.as_ref().unwrap()),
            });
            ctx.eval();
            ctx.cover(&("verify", &k.name, typ, vi));
            ctx.seen("verify.types", format!("{:#04x}-v{}", typ, version));
            let seen = ver.take();
            match r {
                None => {}
                Some(Ok(())) => {
                    if seen.len() != 1 || seen[0].digest != want {
                        ctx.violation(format!("C11/verify/v{version}/digest-mismatch"), format!("library verified a reference signature but hashed a different digest (type {typ:#x})"), replay.clone());
                    }
                }
                Some(Err(e)) => {
                    let digest_seen = seen.first().map(|s| hex::encode(&s.digest)).unwrap_or_default();
                    ctx.violation(
                        format!("C11/verify/v{version}/reference-signature-rejected/type-{typ:#04x}"),
                        format!("library rejected a signature built per RFC 5.2.4 by the reference: {e}; digest seen by primitive: {digest_seen}, reference digest {}", hex::encode(&want)),
                        replay.clone(),
                    );
                }
            }
            // inline path for document signatures: [sig][literal] prefixed message
            if typ <= 1 && vi % 2 == 0 {
                let mut lit = vec![b'b', 0, 0, 0, 0, 0];
                lit.extend_from_slice(doc);
                let mut msg = rfc::frame::frame(2, &body, &rfc::frame::LenForm::NewMin).unwrap();
                msg.extend(rfc::frame::frame(11, &lit, &rfc::frame::LenForm::NewMin).unwrap());
                let ver2 = RecVerifier::new(&pubkey);
                let r = ctx.guarded("C11/verify-inline", || replay.clone(), || -> Result<(), String> {
                    let mut m = Message::from_bytes(&msg[..]).map_err(|e| e.to_string())?;
                    let mut out = vec![];
                    m.read_to_end(&mut out).map_err(|e| e.to_string())?;
                    m.verify(&ver2).map(|_| ()).map_err(|e| e.to_string())
                });
                ctx.eval();
                let seen = ver2.take();
                match r {
                    Some(Ok(())) => {
                        if seen.len() != 1 || seen[0].digest != want {
                            ctx.violation(format!("C11/verify-inline/v{version}/digest-mismatch"), "inline verification hashed a different digest", replay.clone());
                        }
                    }
                    Some(Err(e)) => ctx.violation(format!("C11/verify-inline/v{version}/reference-signature-rejected"), e, replay.clone()),
                    None => {}
                }
            }
            if vi < 2 {
                ctx.sample(json!({"family": "verify", "key": k.name, "typ": typ, "digest": hex::encode(&want), "sig_body": hexs(&body)}));
            }
        }

        // ================= v3 signatures (verify only), made by the reference with this key (v4 keys)
        if !k.v6 {
            for vi in 0..ctx.qt(4, 2 * docs.len()) {
                if !ctx.mine() {
                    continue;
                }
                let mut rng = ctx.rng("v3", (ki * 1000 + vi) as u64);
                let hash = hashes[vi % hashes.len()];
                let doc = &docs[vi % docs.len()];
                let canon = rfc::canon_text(doc);
                let typ = (vi % 2) as u8;
                let content: Vec<&[u8]> = if typ == 1 { vec![&canon[..]] } else { vec![&doc[..]] };
                let created: u32 = rng.gen();
                let Some((sig, want, body)) = ref_signature(3, typ, &k.key.primary_key, hash, vec![], vec![], created, &content, &mut rng) else { continue };
                let ver = RecVerifier::new(&pubkey);
                let replay = json!({"key": k.name, "v3": true, "sig": hexs(&body)});
                let r = ctx.guarded("C11/verify-v3", || replay.clone(), || sig.verify(&ver, &doc[..]));
                ctx.eval();
                ctx.cover(&("verify-v3", &k.name, vi));
                ctx.seen("verify.types", format!("{:#04x}-v3", typ));
                let seen = ver.take();
                match r {
                    Some(Ok(())) => {
                        if seen.len() != 1 || seen[0].digest != want {
                            ctx.violation("C11/verify/v3/digest-mismatch", "v3 digest differs", replay.clone());
                        }
                    }
                    Some(Err(e)) => ctx.violation("C11/verify/v3/reference-signature-rejected", format!("{e}"), replay.clone()),
                    None => {}
                }
            }
        }
    }

    // ================= v3 certificate-forming signatures (verify only): user id certifications hash the raw
    // user id (no 0xB4 prefix / length), key signatures and bindings the 0x99-framed keys
    for (ki, k) in ks.iter().enumerate() {
        if k.v6 {
            continue;
        }
        let pubkey = k.key.primary_key.public_key().clone();
        let kf = key_hash_framing(&k.prim_body);
        let skf = k.sub_body.as_ref().map(|b| key_hash_framing(b));
        let subpub = k.key.secret_subkeys.first().map(|s| s.key.public_key().clone());
        for (ti, typ) in [0x10u8, 0x11, 0x12, 0x13, 0x30, 0x1F, 0x20, 0x18, 0x28].into_iter().enumerate() {
            for ui in 0..ctx.qt(2usize, 6usize) {
                if !ctx.mine() {
                    continue;
                }
                let mut rng = ctx.rng("v3cert", (ki * 1000 + ti * 10 + ui) as u64);
                let hash = (8u8, HashAlgorithm::Sha256);
                if k.key.primary_key.sign(&Password::empty(), hash.1, &[0x5A; 32]).is_err() {
                    continue;
                }
                let uid_s: String = (0..[0usize, 1, 40, 300, 255, 256][ui % 6]).map(|i| (b'a' + (i % 26) as u8) as char).collect();
                let Ok(uid) = UserId::from_str(Default::default(), &uid_s) else { continue };
                let uid_body = uid.to_bytes().unwrap_or_default();
                let content: Vec<&[u8]> = match typ {
                    0x10..=0x13 | 0x30 => vec![&kf[..], &uid_body[..]],
                    0x1F | 0x20 => vec![&kf[..]],
                    _ => match skf.as_ref() {
                        Some(s) => vec![&kf[..], &s[..]],
                        None => continue,
                    },
                };
                let created: u32 = rng.gen();
                let Some((sig, want, body)) = ref_signature(3, typ, &k.key.primary_key, hash, vec![], vec![], created, &content, &mut rng) else {
                    ctx.tally("v3cert.not-parsed", 1);
                    continue;
                };
                let ver = RecVerifier::new(&pubkey);
                let replay = json!({"key": k.name, "v3": true, "typ": typ, "uid_len": uid_s.len(), "sig": hexs(&body)});
                let r = ctx.guarded("C11/verify-v3-cert", || replay.clone(), || match typ {
                    0x10..=0x13 | 0x30 => sig.verify_certification(&ver, Tag::UserId, &uid),
                    0x1F | 0x20 => sig.verify_key(&ver),
                    _ => sig.verify_subkey_binding(&ver, subpub.as_ref().unwrap()),
                });
                ctx.eval();
                ctx.cover(&("verify-v3-cert", &k.name, typ, ui));
                ctx.seen("verify.types", format!("{:#04x}-v3", typ));
                let seen = ver.take();
                match r {
                    Some(Ok(())) => {
                        if seen.len() != 1 || seen[0].digest != want {
                            ctx.violation(format!("C11/verify/v3/digest-mismatch/type-{typ:#04x}"), "v3 certificate signature: digest seen by the primitive differs from the RFC digest", replay.clone());
                        }
                    }
                    Some(Err(e)) => {
                        // (a digest that differs from the RFC one is refused at the two check octets, before the primitive)
                        ctx.violation(
                            format!("C11/verify/v3/reference-signature-rejected/type-{typ:#04x}"),
                            format!(
                                "library rejected a v3 signature built per RFC 5.2.4: {e}; digest seen by the primitive {}, reference digest {}",
                                seen.first().map(|s| hex::encode(&s.digest)).unwrap_or_else(|| "(primitive not reached)".into()),
                                hex::encode(&want)
                            ),
                            replay.clone(),
                        );
                    }
                    None => {}
                }
            }
        }
    }

    // ================= one-pass messages: every pairing of one-pass header version x signature version. Whatever
    // the library decides about a mismatched pair, a digest that reaches the primitive is the RFC digest of THAT
    // signature packet (v6: with its salt)
    for (ki, k) in ks.iter().enumerate() {
        if k.name.contains("Rsa") || k.name.contains("Dsa") {
            continue;
        }
        let pubkey = k.key.primary_key.public_key().clone();
        let doc = &docs[2];
        for sigv in [4u8, 6] {
            if (sigv == 6) != k.v6 {
                continue;
            }
            for opsv in [3u8, 6] {
                for typ in [0u8, 1] {
                    if !ctx.mine() {
                        continue;
                    }
                    let mut rng = ctx.rng("ops-pair", (ki * 100 + sigv as usize * 10 + opsv as usize + typ as usize * 3) as u64);
                    let hash = if k.v6 { (10u8, HashAlgorithm::Sha512) } else { (8u8, HashAlgorithm::Sha256) };
                    if k.key.primary_key.sign(&Password::empty(), hash.1, &vec![0x5A; rfc::hash_len(hash.0).unwrap_or(32)]).is_err() {
                        continue;
                    }
                    let canon = rfc::canon_text(doc);
                    let content: Vec<&[u8]> = if typ == 1 { vec![&canon[..]] } else { vec![&doc[..]] };
                    let signer: &dyn SigningKey = &k.key.primary_key;
                    let hashed = ref_hashed_area(1, signer, 1_700_000_000, &mut rng);
                    let Some((_sig, want, body)) = ref_signature(sigv, typ, signer, hash, hashed, vec![], 1_700_000_000, &content, &mut rng) else { continue };
                    let Ok(rs) = parse_sig(&body) else { continue };
                    // the signature made over the digest WITHOUT the salt (what a reader computes when it prepares the
                    // hasher from a v3 one-pass header): must never be accepted for a v6 signature
                    let issuer: Vec<u8> = if opsv == 6 { k.key.primary_key.fingerprint().as_bytes().to_vec() } else { k.key.primary_key.legacy_key_id().as_ref().to_vec() };
                    if opsv == 6 && issuer.len() != 32 {
                        continue; // a v6 one-pass header names a v6 key
                    }
                    let ops = rfc::sig::RefOps { version: opsv, typ, hash_alg: hash.0, pub_alg: rs.pub_alg, salt: if opsv == 6 { rs.salt.clone() } else { vec![] }, issuer, last: 1 };
                    for unsalted in [false, true] {
                        if unsalted && sigv != 6 {
                            continue;
                        }
                        let sig_body = if unsalted {
                            // same packet, signature value made over H(content || fields || trailer) without the salt
                            let mut r2 = rs.clone();
                            let salt = std::mem::take(&mut r2.salt);
                            let Some(d) = r2.digest_over(&content) else { continue };
                            r2.salt = salt;
                            r2.left16 = [d[0], d[1]];
                            let Ok(sb) = signer.sign(&Password::empty(), hash.1, &d) else { continue };
                            r2.sig_data = sigbytes_wire(&sb);
                            r2.encode()
                        } else {
                            body.clone()
                        };
                        let mut lit = vec![if typ == 1 { b't' } else { b'b' }, 0, 0, 0, 0, 0];
                        lit.extend_from_slice(if typ == 1 { &canon } else { doc });
                        let mut msg = rfc::frame::frame(4, &ops.encode(), &rfc::frame::LenForm::NewMin).unwrap();
                        msg.extend(rfc::frame::frame(11, &lit, &rfc::frame::LenForm::NewMin).unwrap());
                        msg.extend(rfc::frame::frame(2, &sig_body, &rfc::frame::LenForm::NewMin).unwrap());
                        let ver = RecVerifier::new(&pubkey);
                        let replay = json!({"key": k.name, "ops_version": opsv, "sig_version": sigv, "typ": typ, "unsalted": unsalted, "message": hexs(&msg)});
                        let r = ctx.guarded("C11/verify-ops-pair", || replay.clone(), || -> Result<(), String> {
                            let mut m = Message::from_bytes(&msg[..]).map_err(|e| e.to_string())?;
                            let mut out = vec![];
                            m.read_to_end(&mut out).map_err(|e| e.to_string())?;
                            m.verify(&ver).map(|_| ()).map_err(|e| e.to_string())
                        });
                        ctx.eval();
                        ctx.cover(&("ops-pair", &k.name, opsv, sigv, typ, unsalted));
                        ctx.seen("ops x signature version", format!("ops-v{opsv}/sig-v{sigv}{}", if unsalted { "/unsalted" } else { "" }));
                        let seen = ver.take();
                        for sd in &seen {
                            if sd.digest != want {
                                ctx.violation(
                                    format!("C11/verify-inline/ops-v{opsv}-sig-v{sigv}/digest-is-not-the-rfc-digest"),
                                    format!("one-pass v{opsv} header in front of a v{sigv} signature: the primitive was handed {} but the RFC 5.2.4 digest of that signature packet is {}", hex::encode(&sd.digest), hex::encode(&want)),
                                    replay.clone(),
                                );
                            }
                        }
                        if let Some(Ok(())) = r {
                            if unsalted {
                                ctx.violation(
                                    format!("C11/verify-inline/ops-v{opsv}-sig-v{sigv}/unsalted-signature-accepted"),
                                    "a v6 signature whose value was made over the digest without the salt was accepted",
                                    replay.clone(),
                                );
                            }
                        } else if let Some(Err(e)) = r {
                            // the RFC pairings (v3 header + v4 signature, v6 header + v6 signature) with the RFC digest must verify
                            let legal = (opsv == 3 && sigv == 4) || (opsv == 6 && sigv == 6);
                            if legal && !unsalted {
                                ctx.violation(format!("C11/verify-inline/ops-v{opsv}-sig-v{sigv}/reference-signature-rejected"), e, replay.clone());
                            }
                        }
                    }
                }
            }
        }
    }

    // ================= cleartext signature framework: what reaches the primitive is the RFC digest over the RFC 9580
    // section 7.2 signed form of the text (dash-escaping undone, trailing SP / TAB of every line removed, CR LF)
    {
        let texts: [&str; 9] = [
            "plain line\n",
            "- tofu\n- rice\n",
            "-- two dashes\r\n- one\r\n",
            "trailing blank \nsecond\t\n",
            "crlf with blanks \t\r\nnext \r\n",
            "- dash and blank \r\n",
            "",
            "no final newline \t",
            "From the start\n\n-----BEGIN PGP SIGNATURE-----\nend",
        ];
        for (ki, k) in ks.iter().enumerate() {
            if k.name.contains("Rsa") || k.name.contains("Dsa") {
                continue;
            }
            for (ti, text) in texts.iter().enumerate() {
                if !ctx.mine() {
                    continue;
                }
                let mut rng = ctx.rng("cleartext", (ki * 100 + ti) as u64);
                let signed_form = rfc::armor::csf_signed_form(text);
                let replay = json!({"key": k.name, "cleartext": text});
                // (a) CleartextSignedMessage::sign with a recording signer
                let rec = RecSigner::new(&k.key.primary_key);
                let r = ctx.guarded("C11/sign/cleartext", || replay.clone(), || pgp::composed::CleartextSignedMessage::sign(&mut rng, text, &rec, &Password::empty()));
                ctx.cover(&("cleartext", &k.name, ti));
                ctx.seen("sign.types", format!("cleartext-v{}", if k.v6 { 6 } else { 4 }));
                match r {
                    Some(Ok(m)) => {
                        let seen = rec.take();
                        for sig in m.signatures() {
                            judge_sign(ctx, "cleartext", sig, seen.clone(), &[signed_form.as_bytes()], json!({"base": replay, "api": "sign"}));
                        }
                    }
                    Some(Err(e)) => {
                        rec.take();
                        ctx.violation("C11/sign/cleartext/error", format!("CleartextSignedMessage::sign failed: {e}"), replay.clone());
                    }
                    None => {
                        rec.take();
                    }
                }
                // (b) new_many: the text handed to the caller's signer is that signed form
                let rec = RecSigner::new(&k.key.primary_key);
                let hash = if k.v6 { HashAlgorithm::Sha512 } else { HashAlgorithm::Sha256 };
                if k.key.primary_key.sign(&Password::empty(), hash, &vec![0x5A; if k.v6 { 64 } else { 32 }]).is_err() {
                    continue;
                }
                let mut handed: Option<String> = None;
                let r = ctx.guarded("C11/sign/cleartext", || replay.clone(), || {
                    pgp::composed::CleartextSignedMessage::new_many(text, |t| {
                        handed = Some(t.to_string());
                        let mut c = mk_config(k.v6, SignatureType::Text, &k.key.primary_key, hash, &mut rng);
                        c.hashed_subpackets = subpacket_set(1, &k.key.primary_key, &mut rng);
                        Ok(vec![c.sign(&rec, &Password::empty(), t.as_bytes())?])
                    })
                });
                match r {
                    Some(Ok(m)) => {
                        let seen = rec.take();
                        if handed.as_deref() != Some(&signed_form[..]) {
                            ctx.violation(
                                "C11/sign/cleartext/new_many-signer-text-is-not-the-signed-form",
                                format!("new_many handed {:?} to the signer, the RFC signed form of {:?} is {:?}", handed, text, signed_form),
                                replay.clone(),
                            );
                        }
                        for sig in m.signatures() {
                            judge_sign(ctx, "cleartext-new_many", sig, seen.clone(), &[signed_form.as_bytes()], json!({"base": replay, "api": "new_many"}));
                        }
                    }
                    _ => {
                        rec.take();
                    }
                }
            }
        }
    }

    // ================= key framing widths: unknown-algorithm keys with bodies > 255 and > 65535 octets
    for (i, len) in [10usize, 300, 65530, 70000].iter().enumerate() {
        for v in [4u8, 6] {
            if !ctx.mine() {
                continue;
            }
            let mut rng = ctx.rng("bigkey", (i * 10 + v as usize) as u64);
            let mut material = vec![0u8; *len];
            rng.fill_bytes(&mut material);
            let rp = rfc::key::RefPub { version: v, created: 1_700_000_000, v3_expiry_days: 0, alg: 99, material };
            let body = rp.encode();
            let Ok(signee) = PublicKey::try_from_reader(PacketHeader::new_fixed(Tag::PublicKey, body.len() as u32), &body[..]) else {
                ctx.tally("bigkey.rejected", 1);
                continue;
            };
            // direct key signature over that key by a zoo key of the same version (third party)
            let Some(k) = ks.iter().find(|k| k.v6 == (v == 6) && !k.name.contains("Rsa")) else { continue };
            let rec = RecSigner::new(&k.key.primary_key);
            let mut c = mk_config(k.v6, SignatureType::Key, &k.key.primary_key, HashAlgorithm::Sha256, &mut rng);
            c.hashed_subpackets = subpacket_set(1, &k.key.primary_key, &mut rng);
            let r = ctx.guarded("C11/sign/bigkey", || json!({"len": len, "v": v}), || c.sign_key(&rec, &Password::empty(), &signee));
            ctx.eval();
            let fits_v4 = body.len() <= 65535;
            match r {
                Some(Ok(sig)) => {
                    if v == 4 && !fits_v4 {
                        ctx.violation("C11/sign/key-framing/v4-body-over-65535-signed", "a v4 key body longer than 65535 octets cannot be framed with a 2-octet length, yet a signature was produced", json!({"len": len}));
                    } else {
                        ctx.cover(&("bigkey", v, len));
                        ctx.seen("key_framing", format!("v{v}-{}", if body.len() > 65535 { ">65535" } else if body.len() > 255 { ">255" } else { "small" }));
                        judge_sign(ctx, "direct-key-bigkey", &sig, rec.take(), &[&key_hash_framing(&body)], json!({"len": len, "v": v}));
                    }
                }
                Some(Err(_)) => {
                    if v == 6 || fits_v4 {
                        ctx.violation("C11/sign/key-framing/refused", format!("signing over a v{v} key with a {}-octet body was refused", body.len()), json!({"len": len, "v": v}));
                    } else {
                        ctx.seen("key_framing", "v4->65535-refused".to_string());
                    }
                }
                None => {}
            }
            let _ = KeyVersion::V4;
        }
    }
}
