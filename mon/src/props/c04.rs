//! C04 — monitor not built yet.
use crate::core::Ctx;

pub fn run(ctx: &mut Ctx) {
    ctx.inconclusive("monitor not built yet");
}
