//! C04 — hostile input never panics: every processing entry point returns Ok or Err.
//!
//! Oracle: each case runs under `catch_unwind` (a panic raised in library or dependency code is a
//! violation `C04/<family>/panic/<file:line>`); aborts / stack overflows / hangs are caught by the
//! process level crash handler + watchdog, attributed through `core::describe_case`.
//! All generator families own the keys / passwords, so that the hostile bytes sit *behind* valid
//! cryptographic framing (PKESK / SKESK / SEIPD / locked secret keys) and reach the code that runs
//! after a successful decryption.
//!
//! Families
//!  F1  PKESK: attacker-chosen session-key plaintext (every length 0..40 x algorithm ids) wrapped by
//!      the library's own public-key encryption for every recipient algorithm x PKESK v3/v6, in
//!      front of SEIPDv1/SEIPDv2/SED; every one-octet wire field of the PKESK patched.
//!  F2  SEIPDv2 / GnuPG-AEAD(tag 20) parameter octets (cipher, AEAD, chunk size) x session keys of
//!      matching / non matching kind and length x bodies of length 0..40.
//!  F3  SKESK v4/v5/v6 / S2K parameters with the right password; attacker-chosen session key
//!      plaintext behind valid SKESK crypto.
//!  F4  secret keys: S2K usage / cipher / AEAD / S2K / IV parameters of locked keys, protected blobs
//!      that decrypt (valid SHA-1 / AEAD tag / checksum) to attacker-chosen secret material.
//!  F5  attacker-chosen inner packet streams inside valid SEIPDv1/v2 and compression layers.
//!  F6  byte mutation of the fixtures under /repo/tests and of library-made artefacts through every
//!      public entry point, followed by the post-parse exercise.

use std::io::{BufRead, BufReader, Read};

use pgp::armor::{Dearmor, DearmorOptions};
use pgp::composed::{
    Any, ArmorOptions, CleartextSignedMessage, DecryptionOptions, Deserializable, DetachedSignature,
    Message, MessageBuilder, PlainSessionKey, SignedPublicKey, SignedSecretKey, TheRing,
};
use pgp::crypto::aead::{AeadAlgorithm, ChunkSize};
use pgp::crypto::hash::HashAlgorithm;
use pgp::crypto::sym::SymmetricKeyAlgorithm;
use pgp::packet::{
    Packet, PacketHeader, PacketParser, PacketTrait, SymEncryptedProtectedData,
    SymKeyEncryptedSessionKey,
};
use pgp::ser::Serialize;
use pgp::types::{
    CompressionAlgorithm, DecryptionKey, EncryptionKey, EskType, Imprint, KeyDetails, Password,
    PkeskBytes, S2kParams, Seipdv1ReadMode, SigningKey, StringToKey, Tag, VerifyingKey,
};
use rand::{Rng, RngCore, SeedableRng};
use rand_chacha::ChaCha8Rng;
use serde_json::{json, Value};

use crate::core::{self, hexs, Ctx};
use crate::rfc;
use crate::rfc::sym::RefS2k;
use crate::zoo;

const PW: &str = "c04-password";
const MSG_PW: &str = "c04-message-password";

// ------------------------------------------------------------------------------------------
// case runner

thread_local! {
    /// the public API call the current case is in (goes into the witness of a panic)
    static STAGE: std::cell::Cell<&'static str> = const { std::cell::Cell::new("") };
}

fn stage(s: &'static str) {
    STAGE.with(|c| c.set(s));
}

thread_local! {
    /// panics caught inside a case by `step` (location, message, api call)
    static SUBPANICS: std::cell::RefCell<Vec<(core::Panicked, &'static str)>> = const { std::cell::RefCell::new(Vec::new()) };
}

/// Runs one independent step of the post-parse exercise under its own panic capture, so that a
/// panic in one step (e.g. an accessor) does not hide what the following steps would do.
fn step(name: &'static str, f: impl FnOnce()) {
    stage(name);
    if let Err(p) = core::guard(f) {
        SUBPANICS.with(|v| {
            let mut v = v.borrow_mut();
            if v.len() < 16 {
                v.push((p, name));
            }
        });
    }
}

/// full hex for witnesses (the shared `hexs` cuts at 4 KiB)
fn hexfull(b: &[u8]) -> String {
    if b.len() <= 128 * 1024 {
        hex::encode(b)
    } else {
        hexs(b)
    }
}

/// Runs one case under panic capture. Panics raised by harness code are never reported as
/// violations (they are counted as inconclusive so that they are noticed).
fn run_case<T>(
    ctx: &mut Ctx,
    fam: &str,
    desc: &str,
    replay: impl FnOnce() -> Value,
    f: impl FnOnce() -> T,
) -> Option<T> {
    core::describe_case(desc);
    ctx.eval();
    stage("");
    let mut replay_cell = Some(replay);
    let t0 = std::time::Instant::now();
    let r = core::guard(f);
    let dt = t0.elapsed().as_secs_f64();
    if dt > 0.5 {
        ctx.tally("slow_cases_over_0.5s", 1);
        ctx.note(format!("slow case {dt:.1}s: {desc}"));
    }
    let subs: Vec<(core::Panicked, &'static str)> = SUBPANICS.with(|v| std::mem::take(&mut *v.borrow_mut()));
    if !subs.is_empty() {
        let mut base = replay_cell.take().map(|f| f()).unwrap_or(json!({}));
        for (p, name) in subs {
            if p.in_harness() {
                ctx.inconclusive(format!("harness panic at {}: {}", p.short_loc(), p.msg));
                continue;
            }
            if let Some(o) = base.as_object_mut() {
                o.insert("class".into(), json!(desc));
                o.insert("panicked_in_call".into(), json!(name));
            }
            // steps that deliberately keep using an object after it returned an error are
            // reported under the "<family>e" (after-error) family
            let f = if name.contains("after an Err") { format!("{fam}e") } else { fam.to_string() };
            ctx.violation(
                format!("C04/{}/panic/{}", f, p.short_loc()),
                format!("panic `{}` at {} while running {} [call: {}]", p.msg, p.loc, desc, name),
                base.clone(),
            );
        }
        return match r {
            Ok(v) => Some(v),
            Err(p) => {
                if p.in_harness() {
                    ctx.inconclusive(format!("harness panic at {}: {}", p.short_loc(), p.msg));
                } else {
                    let st = STAGE.with(|c| c.get());
                    ctx.violation(
                        format!("C04/{}/panic/{}", fam, p.short_loc()),
                        format!("panic `{}` at {} while running {} [call: {}]", p.msg, p.loc, desc, st),
                        base,
                    );
                }
                None
            }
        };
    }
    let mut replay = move || replay_cell.take().map(|f| f()).unwrap_or(json!({}));
    match r {
        Ok(v) => Some(v),
        Err(p) => {
            if p.in_harness() {
                ctx.inconclusive(format!("harness panic at {}: {}", p.short_loc(), p.msg));
            } else {
                let mut r = replay();
                let st = STAGE.with(|c| c.get());
                if let Some(o) = r.as_object_mut() {
                    o.insert("class".into(), json!(desc));
                    o.insert("panicked_in_call".into(), json!(st));
                }
                ctx.violation(
                    format!("C04/{}/panic/{}", fam, p.short_loc()),
                    format!("panic `{}` at {} while running {} [call: {}]", p.msg, p.loc, desc, st),
                    r,
                );
            }
            None
        }
    }
}

/// What a drive through the post-parse exercise observed (returned out of the guarded closure
/// and tallied afterwards).
#[derive(Default, Debug, Clone)]
struct Obs {
    parsed: u32,
    decrypted: u32,
    decompressed: u32,
    read_ok: u32,
    read_err: u32,
    bytes: u64,
    verified_ok: u32,
    verified_err: u32,
    unlocked: u32,
    signed: u32,
    serialized: u32,
    errs: u32,
    layer_cap: u32,
    /// short labels of the deepest stages reached
    stage: &'static str,
}

impl Obs {
    fn merge(&mut self, o: &Obs) {
        self.parsed += o.parsed;
        self.decrypted += o.decrypted;
        self.decompressed += o.decompressed;
        self.read_ok += o.read_ok;
        self.read_err += o.read_err;
        self.bytes += o.bytes;
        self.verified_ok += o.verified_ok;
        self.verified_err += o.verified_err;
        self.unlocked += o.unlocked;
        self.signed += o.signed;
        self.serialized += o.serialized;
        self.errs += o.errs;
        self.layer_cap += o.layer_cap;
        if !o.stage.is_empty() {
            self.stage = o.stage;
        }
    }
    fn tally(&self, ctx: &mut Ctx, fam: &str) {
        for (k, v) in [
            ("parsed", self.parsed as u64),
            ("decrypted", self.decrypted as u64),
            ("decompressed", self.decompressed as u64),
            ("read_ok", self.read_ok as u64),
            ("read_err", self.read_err as u64),
            ("bytes_read", self.bytes),
            ("verified_ok", self.verified_ok as u64),
            ("verified_err", self.verified_err as u64),
            ("unlocked", self.unlocked as u64),
            ("signed", self.signed as u64),
            ("serialized", self.serialized as u64),
            ("errs", self.errs as u64),
            ("layer_cap", self.layer_cap as u64),
        ] {
            if v > 0 {
                ctx.tally(&format!("{fam}.{k}"), v);
            }
        }
    }
}

// ------------------------------------------------------------------------------------------
// raw wire helpers (hostile encodings: no assertions, nothing is validated)

fn new_len(len: usize) -> Vec<u8> {
    if len < 192 {
        vec![len as u8]
    } else if len < 8384 {
        let v = len - 192;
        vec![(v >> 8) as u8 + 192, v as u8]
    } else {
        let mut o = vec![255u8];
        o.extend_from_slice(&(len as u32).to_be_bytes());
        o
    }
}

/// new-format packet with minimal length encoding
fn pkt(tag: u8, body: &[u8]) -> Vec<u8> {
    let mut o = vec![0xC0 | (tag & 0x3F)];
    o.extend(new_len(body.len()));
    o.extend_from_slice(body);
    o
}

/// new-format packet with a forced 5-octet length
fn pkt5(tag: u8, body: &[u8]) -> Vec<u8> {
    let mut o = vec![0xC0 | (tag & 0x3F), 255];
    o.extend_from_slice(&(body.len() as u32).to_be_bytes());
    o.extend_from_slice(body);
    o
}

fn literal(data: &[u8]) -> Vec<u8> {
    let mut b = vec![b'b', 1, b'x', 0, 0, 0, 0];
    b.extend_from_slice(data);
    pkt(11, &b)
}

fn rnd_bytes(rng: &mut ChaCha8Rng, n: usize) -> Vec<u8> {
    let mut v = vec![0u8; n];
    rng.fill_bytes(&mut v);
    v
}

fn get(d: &[u8], i: usize) -> u8 {
    d.get(i).copied().unwrap_or(0)
}

// ------------------------------------------------------------------------------------------
// environment: keys held by the harness

struct Recipient {
    name: String,
    sk: SignedSecretKey,
    pk: SignedPublicKey,
}

struct Env {
    recipients: Vec<Recipient>,
    signers: Vec<(String, SignedSecretKey, SignedPublicKey)>,
}

impl Env {
    fn new() -> Env {
        let mut recipients = vec![];
        for spec in zoo::encryptor_specs(true) {
            let sk = zoo::key(&spec, 0);
            let pk = sk.to_public_key();
            let name = format!(
                "{}-{:?}",
                if spec.v6 { "v6" } else { "v4" },
                spec.enc_sub.clone().unwrap_or(spec.primary.clone())
            );
            recipients.push(Recipient { name, sk, pk });
        }
        let mut signers = vec![];
        for spec in zoo::signer_specs(true) {
            let sk = zoo::key(&spec, 0);
            let pk = sk.to_public_key();
            let name = format!("{}-{:?}", if spec.v6 { "v6" } else { "v4" }, spec.primary);
            signers.push((name, sk, pk));
        }
        Env { recipients, signers }
    }
}

// ------------------------------------------------------------------------------------------
// post-parse exercise

/// Key material / passwords the harness tries on whatever it parsed.
struct Means<'k> {
    keys: Vec<&'k SignedSecretKey>,
    key_pws: Vec<Password>,
    msg_pws: Vec<Password>,
    session: Vec<PlainSessionKey>,
    verifiers: Vec<&'k SignedPublicKey>,
    max_layers: usize,
    read_cap: u64,
}

impl<'k> Means<'k> {
    fn none() -> Means<'k> {
        Means {
            keys: vec![],
            key_pws: vec![Password::empty(), Password::from(PW)],
            msg_pws: vec![Password::from(MSG_PW)],
            session: vec![],
            verifiers: vec![],
            max_layers: 24,
            read_cap: 4 << 20,
        }
    }
}

/// Drain with a cap (compression bombs in fixtures must not be expanded without bound).
fn drain_capped<R: BufRead>(r: &mut R, variant: u64, cap: u64, obs: &mut Obs) {
    let mut total = 0u64;
    let mode = variant % 7;
    let mut step = 0u64;
    loop {
        if total > cap {
            obs.layer_cap += 1;
            break;
        }
        step += 1;
        let use_buf = match mode {
            4 | 5 => true,
            6 => step % 2 == 0,
            _ => false,
        };
        if use_buf {
            match r.fill_buf() {
                Ok(b) => {
                    if b.is_empty() {
                        obs.read_ok += 1;
                        break;
                    }
                    let n = if mode == 4 { 1 } else { b.len() };
                    total += n as u64;
                    r.consume(n);
                }
                Err(_) => {
                    obs.read_err += 1;
                    break;
                }
            }
        } else {
            let k = match mode {
                0 => 8192,
                1 => 1,
                2 => 7,
                3 => [1usize, 13, 512, 3][(step % 4) as usize],
                _ => 3,
            };
            let mut buf = [0u8; 8192];
            match r.read(&mut buf[..k]) {
                Ok(0) => {
                    obs.read_ok += 1;
                    break;
                }
                Ok(n) => total += n as u64,
                Err(_) => {
                    obs.read_err += 1;
                    break;
                }
            }
        }
    }
    obs.bytes += total;
}

fn dec_opts(variant: u64) -> DecryptionOptions {
    let mut o = DecryptionOptions::new().enable_legacy().enable_gnupg_aead();
    if variant % 3 == 1 {
        o = o.set_seipdv1_read_mode(Seipdv1ReadMode::Streaming);
    } else if variant % 3 == 2 {
        o = o.set_seipdv1_read_mode(Seipdv1ReadMode::CheckFirst { max_message_size: 64 });
    }
    o
}

/// Walks a parsed message through decrypt / decompress / read / verify with everything the
/// harness holds. Never fails; only observes.
fn drive_message<'a>(mut msg: Message<'a>, means: &Means<'_>, variant: u64, obs: &mut Obs) {
    obs.parsed += 1;
    obs.stage = "parsed";
    let mut layers = 0usize;
    loop {
        layers += 1;
        if layers > means.max_layers {
            obs.layer_cap += 1;
            return;
        }
        let _ = msg.packet_header();
        let _ = msg.is_one_pass_signed();
        let _ = msg.literal_data_header();
        if msg.is_encrypted() {
            // accessors on the ESK list
            if let Message::Encrypted { esk, edata, .. } = &msg {
                for e in esk {
                    let _ = e.tag();
                    let n = e.write_len();
                    if let Ok(b) = e.to_bytes() {
                        let _ = b.len() == n;
                        obs.serialized += 1;
                    }
                }
                let _ = edata.tag();
            }
            // a legitimately expensive KDF (Argon2 with 16 MiB .. 2 GiB, huge iteration counts) is
            // not driven: slow-by-design work is not what this property is about
            let mut kdf_ok = true;
            if let Message::Encrypted { esk, .. } = &msg {
                for e in esk {
                    if let pgp::composed::Esk::SymKeyEncryptedSessionKey(k) = e {
                        if let Some(s) = k.s2k() {
                            if s2k_expensive(s, 0xC0) {
                                kdf_ok = false;
                            }
                        }
                    }
                }
            }
            if !kdf_ok {
                obs.layer_cap += 1;
            }
            let ring = TheRing {
                secret_keys: means.keys.clone(),
                key_passwords: means.key_pws.iter().collect(),
                message_password: if kdf_ok { means.msg_pws.iter().collect() } else { vec![] },
                session_keys: means.session.clone(),
                decrypt_options: dec_opts(variant / 7),
            };
            match msg.decrypt_the_ring(ring, variant % 2 == 0) {
                Ok((m, _res)) => {
                    obs.decrypted += 1;
                    obs.stage = "decrypted";
                    msg = m;
                }
                Err(_) => {
                    obs.errs += 1;
                    return;
                }
            }
        } else if msg.is_compressed() {
            match msg.decompress() {
                Ok(m) => {
                    obs.decompressed += 1;
                    obs.stage = "decompressed";
                    msg = m;
                }
                Err(_) => {
                    obs.errs += 1;
                    return;
                }
            }
        } else {
            // signed or literal
            if msg.is_signed() && variant % 5 != 4 {
                match msg.decompress() {
                    Ok(m) => {
                        // may have unwrapped a compression layer below the signatures
                        obs.decompressed += 1;
                        msg = m
                    }
                    Err(_) => {
                        obs.errs += 1;
                        return;
                    }
                }
            }
            let before = obs.read_ok;
            let err_before = obs.read_err;
            // the convenience reader has no bound: only where no compression layer was unwrapped
            // (output then cannot exceed the input; fixtures contain decompression bombs)
            if variant % 11 == 10 && obs.decompressed == 0 && !msg.is_compressed() {
                match msg.as_data_string() {
                    Ok(s) => {
                        obs.read_ok += 1;
                        obs.bytes += s.len() as u64;
                    }
                    Err(_) => obs.read_err += 1,
                }
            } else {
                drain_capped(&mut msg, variant / 3, means.read_cap, obs);
            }
            if obs.read_ok > before {
                obs.stage = "read";
            }
            if obs.read_err > err_before {
                // the reader reported an error: using the message object any further is the
                // caller's business (probed separately, family F5e), not part of this walk
                return;
            }
            let _ = msg.literal_data_header();
            let _ = msg.packet_header();
            if msg.is_signed() {
                for v in &means.verifiers {
                    match msg.verify(*v) {
                        Ok(sig) => {
                            obs.verified_ok += 1;
                            let _ = sig.to_bytes();
                        }
                        Err(_) => obs.verified_err += 1,
                    }
                    for sub in &v.public_subkeys {
                        match msg.verify(sub) {
                            Ok(_) => obs.verified_ok += 1,
                            Err(_) => obs.verified_err += 1,
                        }
                    }
                }
                let ks: Vec<&dyn VerifyingKey> =
                    means.verifiers.iter().map(|k| *k as &dyn VerifyingKey).collect();
                let _ = msg.verify_nested(&ks);
                if let Message::Signed { reader, .. } = &msg {
                    let n = reader.num_signatures();
                    let _ = reader.num_one_pass_signatures();
                    let _ = reader.num_regular_signatures();
                    for i in 0..n.min(64) {
                        let _ = reader.hash(i);
                        if let Some(s) = reader.signature(i) {
                            exercise_signature_packet(s, obs);
                        }
                    }
                }
                if means.verifiers.is_empty() {
                    obs.verified_err += 1;
                }
            }
            return;
        }
    }
}

fn exercise_signature_packet(s: &pgp::packet::Signature, obs: &mut Obs) {
    let _ = s.version();
    let _ = s.typ();
    let _ = s.hash_alg();
    let _ = s.config().map(|c| (c.pub_alg, c.hash_alg));
    let _ = s.is_certification();
    let _ = s.preferred_aead_algs();
    let _ = s.key_server_prefs();
    let _ = s.revocation_reason_string();
    let _ = s.preferred_key_server();
    let _ = s.revocation_key();
    let _ = s.created();
    let _ = s.issuer_key_id();
    let _ = s.issuer_fingerprint();
    let _ = s.signed_hash_value();
    let _ = s.key_flags();
    let _ = s.key_expiration_time();
    let _ = s.signature_expiration_time();
    let _ = s.preferred_symmetric_algs();
    let _ = s.preferred_hash_algs();
    let _ = s.preferred_compression_algs();
    let _ = s.features();
    let _ = s.notations();
    let _ = s.embedded_signature();
    let _ = s.is_primary();
    let _ = s.is_revocable();
    let _ = s.revocation_reason_code();
    let _ = s.signers_userid();
    let _ = s.policy_uri();
    let _ = s.trust_signature();
    let _ = s.regular_expression();
    let _ = s.exportable_certification();
    let n = s.write_len();
    if let Ok(b) = s.to_bytes() {
        let _ = n == b.len();
        obs.serialized += 1;
    }
    let _ = s.write_len_with_header();
    let mut v = Vec::new();
    let _ = s.to_writer_with_header(&mut v);
}

fn exercise_public_key(k: &SignedPublicKey, obs: &mut Obs) {
    obs.parsed += 1;
    let obs = std::cell::RefCell::new(obs);
    step("SignedPublicKey accessors / to_bytes / armor", || {
        let _ = k.fingerprint();
        let _ = k.legacy_key_id();
        let _ = k.algorithm();
        let _ = k.version();
        let _ = k.created_at();
        let _ = k.legacy_v3_expiration_days();
        let _ = k.public_params();
        let _ = k.imprint::<sha2::Sha256>();
        let n = k.write_len();
        if let Ok(b) = k.to_bytes() {
            let _ = b.len() == n;
            obs.borrow_mut().serialized += 1;
        }
        let _ = k.to_armored_string(ArmorOptions::default());
    });
    step("SignedPublicKey::verify_bindings", || match k.verify_bindings() {
        Ok(()) => obs.borrow_mut().verified_ok += 1,
        Err(_) => obs.borrow_mut().verified_err += 1,
    });
    step("user / signature accessors", || {
        for u in &k.details.users {
            let _ = u.id.id();
            let _ = u.is_primary();
            for s in &u.signatures {
                exercise_signature_packet(s, &mut obs.borrow_mut());
            }
        }
        for s in k.details.direct_signatures.iter().chain(k.details.revocation_signatures.iter()) {
            exercise_signature_packet(s, &mut obs.borrow_mut());
        }
        for a in &k.details.user_attributes {
            let _ = a.attr.to_bytes();
            for s in &a.signatures {
                exercise_signature_packet(s, &mut obs.borrow_mut());
            }
        }
    });
    for sub in &k.public_subkeys {
        step("SignedPublicSubKey accessors / verify_bindings", || {
            let _ = sub.fingerprint();
            let _ = sub.legacy_key_id();
            let _ = sub.algorithm();
            let _ = sub.imprint::<sha2::Sha256>();
            let _ = sub.to_bytes();
            let _ = sub.write_len();
            match sub.verify_bindings(&k.primary_key) {
                Ok(()) => obs.borrow_mut().verified_ok += 1,
                Err(_) => obs.borrow_mut().verified_err += 1,
            }
        });
    }
    // a signature check with the hostile key as verifier (verifying is in scope)
    step("VerifyingKey::verify with the parsed key", || {
        let digest = [0x42u8; 32];
        for s in k.details.users.iter().flat_map(|u| u.signatures.iter()).take(2) {
            if let Some(sb) = s.signature() {
                let _ = k.primary_key.verify(HashAlgorithm::Sha256, &digest, sb);
                for sub in &k.public_subkeys {
                    let _ = sub.verify(HashAlgorithm::Sha256, &digest, sb);
                }
            }
        }
    });
}

fn exercise_secret_key(k: &SignedSecretKey, pws: &[Password], variant: u64, obs: &mut Obs) {
    exercise_secret_key_opts(k, pws, variant, false, 0xC0, obs)
}

/// `light`: skip the parts that do not depend on the secret packet (bindings, armor, public
/// half); `max_count`: locked material whose S2K is legitimately expensive is not unlocked.
fn exercise_secret_key_opts(k: &SignedSecretKey, pws: &[Password], variant: u64, light: bool, max_count: u8, obs: &mut Obs) {
    obs.parsed += 1;
    let obs = std::cell::RefCell::new(obs);
    step("SignedSecretKey accessors / to_bytes / write_len", || {
        let _ = k.fingerprint();
        let _ = k.legacy_key_id();
        let _ = k.algorithm();
        let _ = k.version();
        let _ = k.created_at();
        let _ = k.public_params();
        let _ = k.primary_key.imprint::<sha2::Sha256>();
        let n = k.write_len();
        if let Ok(b) = k.to_bytes() {
            let _ = b.len() == n;
            obs.borrow_mut().serialized += 1;
        }
        if variant % 4 == 0 && !light {
            let _ = k.to_armored_string(ArmorOptions::default());
        }
    });
    if !light {
        step("SignedSecretKey::verify_bindings", || match k.verify_bindings() {
            Ok(()) => obs.borrow_mut().verified_ok += 1,
            Err(_) => obs.borrow_mut().verified_err += 1,
        });
    }
    let mut pubk_opt: Option<SignedPublicKey> = None;
    step("SignedSecretKey::to_public_key", || {
        pubk_opt = Some(k.to_public_key());
    });
    let Some(pubk) = pubk_opt else { return };
    if variant % 4 == 1 && !light {
        exercise_public_key(&pubk, &mut obs.borrow_mut());
    }
    let digest32 = [0x5au8; 32];
    let digest64 = [0x5au8; 64];

    // primary
    let sp = k.primary_key.secret_params();
    step("SecretParams accessors (primary)", || {
        let _ = sp.is_encrypted();
        let _ = sp.string_to_key_id();
        let _ = sp.has_sha1_checksum();
        let _ = k.primary_key.has_sha1_checksum();
        let _ = k.primary_key.write_len();
        let _ = k.primary_key.to_bytes();
        let _ = k.primary_key.packet_header();
    });
    step("SecretParams::checksum (primary)", || {
        let _ = sp.checksum();
    });
    let primary_cheap = secret_key_is_cheap(sp, max_count);
    if !primary_cheap {
        obs.borrow_mut().layer_cap += 1;
    }
    let mut unlocked_with: Option<usize> = None;
    step("SecretKey::unlock (primary)", || {
        for (i, pw) in pws.iter().enumerate() {
            if !primary_cheap {
                break;
            }
            let r = k.primary_key.unlock(pw, |_pubp, plain| {
                let _ = plain.checksum_simple();
                let _ = plain.checksum_sha1();
                let _ = plain.string_to_key_id();
                Ok(())
            });
            if let Ok(Ok(())) = r {
                obs.borrow_mut().unlocked += 1;
                obs.borrow_mut().stage = "unlocked";
                unlocked_with = Some(i);
                break;
            }
        }
    });
    if let Some(pw) = unlocked_with.and_then(|i| pws.get(i)) {
        step("SecretKey::sign (primary) + verify", || {
            for (h, d) in [(HashAlgorithm::Sha256, &digest32[..]), (HashAlgorithm::Sha512, &digest64[..])] {
                match k.primary_key.sign(pw, h, d) {
                    Ok(sb) => {
                        obs.borrow_mut().signed += 1;
                        let _ = pubk.primary_key.verify(h, d, &sb);
                    }
                    Err(_) => obs.borrow_mut().errs += 1,
                }
            }
        });
        step("SecretKey::decrypt (primary)", || {
            // decryption with the primary (RSA primaries can decrypt)
            if let Ok(v) = pubk.primary_key.encrypt(ChaCha8Rng::seed_from_u64(variant), &session_v3(9, &[7u8; 32]), EskType::V3_4) {
                let _ = k.primary_key.decrypt(pw, &v, EskType::V3_4);
            }
        });
        step("SecretKey::remove_password (primary) + to_bytes", || {
            let mut c = k.primary_key.clone();
            let _ = c.remove_password(pw);
            let _ = c.to_bytes();
        });
    }
    for (i, sub) in k.secret_subkeys.iter().enumerate() {
        let sp = sub.key.secret_params();
        step("SecretSubkey accessors / to_bytes", || {
            let _ = sub.fingerprint();
            let _ = sub.legacy_key_id();
            let _ = sp.is_encrypted();
            let _ = sp.string_to_key_id();
            let _ = sub.key.has_sha1_checksum();
            let _ = sub.to_bytes();
            let _ = sub.write_len();
        });
        step("SecretParams::checksum (subkey)", || {
            let _ = sp.checksum();
        });
        if !light {
            step("SignedSecretSubKey::verify_bindings", || match sub.verify_bindings(&k.primary_key.public_key()) {
                Ok(()) => obs.borrow_mut().verified_ok += 1,
                Err(_) => obs.borrow_mut().verified_err += 1,
            });
        }
        let sub_cheap = secret_key_is_cheap(sp, max_count);
        if !sub_cheap {
            obs.borrow_mut().layer_cap += 1;
        }
        let mut unlocked_with: Option<usize> = None;
        step("SecretSubkey::unlock", || {
            for (pi, pw) in pws.iter().enumerate() {
                if !sub_cheap {
                    break;
                }
                let r = sub.key.unlock(pw, |_pubp, plain| {
                    let _ = plain.checksum_simple();
                    let _ = plain.checksum_sha1();
                    Ok(())
                });
                if let Ok(Ok(())) = r {
                    obs.borrow_mut().unlocked += 1;
                    unlocked_with = Some(pi);
                    break;
                }
            }
        });
        let Some(pw) = unlocked_with.and_then(|i| pws.get(i)) else { continue };
        step("SecretSubkey::sign + verify", || match SigningKey::sign(&sub.key, pw, HashAlgorithm::Sha256, &digest32) {
            Ok(sb) => {
                obs.borrow_mut().signed += 1;
                if let Some(ps) = pubk.public_subkeys.get(i) {
                    let _ = ps.verify(HashAlgorithm::Sha256, &digest32, &sb);
                }
            }
            Err(_) => obs.borrow_mut().errs += 1,
        });
        step("SecretSubkey::decrypt of a PKESK made for its public half", || {
            if let Some(ps) = pubk.public_subkeys.get(i) {
                for typ in [EskType::V3_4, EskType::V6] {
                    let plain = if matches!(typ, EskType::V3_4) { session_v3(9, &[7u8; 32]) } else { rfc::sym::session_key_v6(&[7u8; 32]) };
                    if let Ok(v) = ps.encrypt(ChaCha8Rng::seed_from_u64(variant), &plain, typ) {
                        match sub.key.decrypt(pw, &v, typ) {
                            Ok(Ok(_)) => obs.borrow_mut().decrypted += 1,
                            _ => obs.borrow_mut().errs += 1,
                        }
                    }
                }
            }
        });
        step("SecretSubkey::remove_password + to_bytes", || {
            let mut c = sub.key.clone();
            let _ = c.remove_password(pw);
            let _ = c.to_bytes();
        });
    }
}

/// session key framing of a v3 PKESK for algorithms with a checksum; for X25519/X448 the
/// library takes the first octet as algorithm and wraps the rest, the two trailing octets are
/// then simply part of an (over long) key.
fn session_v3(alg: u8, key: &[u8]) -> Vec<u8> {
    rfc::sym::session_key_v3(alg, key)
}

fn exercise_detached(sig: &DetachedSignature, verifiers: &[&SignedPublicKey], content: &[u8], obs: &mut Obs) {
    obs.parsed += 1;
    exercise_signature_packet(&sig.signature, obs);
    let _ = sig.to_bytes();
    let _ = sig.write_len();
    let _ = sig.to_armored_string(ArmorOptions::default());
    for v in verifiers {
        match sig.verify(*v, content) {
            Ok(()) => obs.verified_ok += 1,
            Err(_) => obs.verified_err += 1,
        }
        let _ = sig.signature.verify(*v, content);
        for sub in &v.public_subkeys {
            let _ = sig.verify(sub, content);
        }
        // certificate-forming verification entry points with the parsed signature
        let _ = sig.signature.verify_key(&v.primary_key);
        if let Some(u) = v.details.users.first() {
            let _ = sig
                .signature
                .verify_certification(&v.primary_key, Tag::UserId, &u.id);
        }
        if let Some(sub) = v.public_subkeys.first() {
            let _ = sig.signature.verify_subkey_binding(&v.primary_key, &sub.key);
            let _ = sig.signature.verify_primary_key_binding(&sub.key, &v.primary_key);
        }
    }
}

fn exercise_cleartext(m: &CleartextSignedMessage, verifiers: &[&SignedPublicKey], obs: &mut Obs) {
    obs.parsed += 1;
    let _ = m.text().len();
    let st = m.signed_text();
    obs.bytes += st.len() as u64;
    for s in m.signatures() {
        exercise_signature_packet(s, obs);
    }
    for v in verifiers {
        match m.verify(*v) {
            Ok(_) => obs.verified_ok += 1,
            Err(_) => obs.verified_err += 1,
        }
    }
    let _ = m.verify_many(|_, s, data| {
        if let Some(v) = verifiers.first() {
            s.verify(*v, data)
        } else {
            Ok(())
        }
    });
    if let Ok(s) = m.to_armored_string(ArmorOptions::default()) {
        obs.serialized += 1;
        let _ = s.len();
    }
}

fn exercise_packets(data: &[u8], cap: usize, obs: &mut Obs) {
    let pp = PacketParser::new(data);
    for (i, p) in pp.enumerate() {
        if i >= cap {
            obs.layer_cap += 1;
            break;
        }
        match p {
            Ok(p) => {
                obs.parsed += 1;
                let _ = p.packet_header();
                let _ = p.tag();
                let n = p.write_len();
                let mut out = Vec::new();
                if p.to_writer(&mut out).is_ok() {
                    let _ = out.len() == n;
                    obs.serialized += 1;
                }
                let mut out2 = Vec::new();
                let _ = p.to_writer_with_header(&mut out2);
                let _ = p.write_len_with_header();
                match &p {
                    Packet::Signature(s) => exercise_signature_packet(s, obs),
                    Packet::CompressedData(c) => {
                        if let Ok(mut d) = c.decompress() {
                            let mut buf = [0u8; 4096];
                            let mut total = 0usize;
                            while let Ok(n) = d.read(&mut buf) {
                                if n == 0 || total > (1 << 20) {
                                    break;
                                }
                                total += n;
                            }
                            obs.bytes += total as u64;
                        }
                    }
                    Packet::LiteralData(l) => {
                        let _ = l.data().len();
                        let _ = l.file_name();
                        let _ = l.is_binary();
                        let _ = l.as_str();
                    }
                    Packet::UserAttribute(u) => {
                        let _ = u.to_bytes();
                    }
                    Packet::OnePassSignature(o) => {
                        let _ = o.to_bytes();
                    }
                    _ => {}
                }
            }
            Err(_) => obs.errs += 1,
        }
    }
}

// ------------------------------------------------------------------------------------------
// F1: PKESK with attacker-chosen plaintext

fn pkesk_body(ver: u8, sub: &pgp::composed::SignedPublicSubKey, values: &PkeskBytes) -> Option<Vec<u8>> {
    let mut b = vec![ver];
    if ver == 3 {
        b.extend_from_slice(sub.legacy_key_id().as_ref());
    } else {
        let fp = sub.fingerprint();
        b.push(1 + fp.len() as u8);
        b.push(u8::from(sub.version()));
        b.extend_from_slice(fp.as_bytes());
    }
    b.push(u8::from(sub.algorithm()));
    b.extend(values.to_bytes().ok()?);
    Some(b)
}

/// Container that follows the ESK. kind: 0 SEIPDv1, 1 SEIPDv2, 2 SED, 3 GnuPG AEAD (tag 20).
/// If the session key is usable for the container a *valid* container around a literal packet
/// is built with the reference, otherwise garbage of `glen` octets behind the right header.
fn container(kind: u8, alg: u8, key: &[u8], inner: &[u8], glen: usize, rng: &mut ChaCha8Rng) -> Vec<u8> {
    match kind {
        0 => {
            let bs = rfc::sym::block_size(alg);
            let body = match bs.and_then(|bs| rfc::sym::seipd_v1_encrypt(alg, key, &rnd_bytes(rng, bs), inner)) {
                Some(ct) => {
                    let mut b = vec![1u8];
                    b.extend(ct);
                    b
                }
                None => {
                    let mut b = vec![1u8];
                    b.extend(rnd_bytes(rng, glen));
                    b
                }
            };
            pkt(18, &body)
        }
        1 => {
            // cipher chosen from the key length
            let sym = match key.len() {
                16 => 7,
                24 => 8,
                32 => 9,
                _ => 9,
            };
            let aead = 1 + (glen % 3) as u8;
            let mut salt = [0u8; 32];
            rng.fill_bytes(&mut salt);
            let body = match rfc::sym::seipd_v2_encrypt(sym, aead, 0, &salt, key, inner) {
                Some(b) => b,
                None => {
                    let mut b = vec![2u8, sym, aead, 0];
                    b.extend_from_slice(&salt);
                    b.extend(rnd_bytes(rng, glen));
                    b
                }
            };
            pkt(18, &body)
        }
        2 => {
            let bs = rfc::sym::block_size(alg);
            let body = match bs.and_then(|bs| rfc::sym::sed_encrypt(alg, key, &rnd_bytes(rng, bs), inner)) {
                Some(ct) => ct,
                None => rnd_bytes(rng, glen),
            };
            pkt(9, &body)
        }
        _ => {
            let sym = if rfc::sym::key_size(alg) == Some(key.len()) { alg } else { 9 };
            let iv = rnd_bytes(rng, 15);
            let body = gnupg_aead_encrypt(sym, 0, &iv, key, inner).unwrap_or_else(|| {
                let mut b = vec![1u8, sym, 2, 0];
                b.extend_from_slice(&iv);
                b.extend(rnd_bytes(rng, glen));
                b
            });
            pkt(20, &body)
        }
    }
}

/// Reference encoder of GnuPG's OCB encrypted data packet (draft-koch-librepgp): the key is the
/// session key itself, nonce = iv xor be64(chunk index) on the low 8 octets, AD = tag, version,
/// cipher, mode, chunk octet, be64(index); final tag additionally over be64(total).
fn gnupg_aead_encrypt(sym: u8, chunk_octet: u8, iv: &[u8], key: &[u8], data: &[u8]) -> Option<Vec<u8>> {
    if iv.len() != 15 {
        return None;
    }
    let cs = 1usize << (chunk_octet as usize + 6);
    let mut out = vec![1u8, sym, 2, chunk_octet];
    out.extend_from_slice(iv);
    let nonce_for = |idx: u64| {
        let mut n = iv.to_vec();
        for (i, b) in idx.to_be_bytes().iter().enumerate() {
            n[15 - 8 + i] ^= b;
        }
        n
    };
    let ad_for = |idx: u64| {
        let mut ad = vec![0xC0 | 20, 1, sym, 2, chunk_octet];
        ad.extend(idx.to_be_bytes());
        ad
    };
    let mut idx = 0u64;
    for c in data.chunks(cs) {
        out.extend(rfc::sym::aead_seal(sym, 2, key, &nonce_for(idx), &ad_for(idx), c)?);
        idx += 1;
    }
    let mut ad = ad_for(idx);
    ad.extend((data.len() as u64).to_be_bytes());
    out.extend(rfc::sym::aead_seal(sym, 2, key, &nonce_for(idx), &ad, &[])?);
    Some(out)
}

const ALG_IDS_QUICK: [u8; 9] = [0, 1, 2, 7, 9, 10, 13, 110, 255];

fn f1(ctx: &mut Ctx, env: &Env) {
    let alg_ids: Vec<u8> = if ctx.quick() { ALG_IDS_QUICK.to_vec() } else { (0..=255u8).collect() };
    let inner = literal(b"hello c04");
    for (ri, r) in env.recipients.iter().enumerate() {
        let Some(sub) = r.pk.public_subkeys.first() else { continue };
        let is_x = matches!(
            sub.algorithm(),
            pgp::crypto::public_key::PublicKeyAlgorithm::X25519 | pgp::crypto::public_key::PublicKeyAlgorithm::X448
        );
        for ver in [3u8, 6u8] {
            let typ = if ver == 3 { EskType::V3_4 } else { EskType::V6 };
            // ---- F1a attacker-chosen plaintext
            for len in 0..=40usize {
                if !ctx.mine() {
                    continue;
                }
                let mut rng = ctx.rng("F1a", (ri as u64) << 16 | (ver as u64) << 8 | len as u64);
                let mut obs = Obs::default();
                for &alg in &alg_ids {
                    for cks_ok in [true, false] {
                        // plaintext of exactly `len` octets
                        let mut plain = rnd_bytes(&mut rng, len);
                        let (sk_alg, sk): (u8, Vec<u8>);
                        if ver == 3 {
                            if len >= 1 {
                                plain[0] = alg;
                            }
                            if is_x {
                                sk = plain.get(1..).unwrap_or(&[]).to_vec();
                            } else {
                                if len >= 3 {
                                    let c = rfc::sum16(&plain[1..len - 2]).wrapping_add(if cks_ok { 0 } else { 1 });
                                    plain[len - 2] = (c >> 8) as u8;
                                    plain[len - 1] = c as u8;
                                }
                                sk = if len >= 3 { plain[1..len - 2].to_vec() } else { vec![] };
                            }
                            sk_alg = alg;
                        } else {
                            // v6: no algorithm octet; vary the first octet all the same
                            if len >= 1 {
                                plain[0] = alg;
                            }
                            if is_x {
                                sk = plain.clone();
                            } else {
                                if len >= 2 {
                                    let c = rfc::sum16(&plain[..len - 2]).wrapping_add(if cks_ok { 0 } else { 1 });
                                    plain[len - 2] = (c >> 8) as u8;
                                    plain[len - 1] = c as u8;
                                }
                                sk = if len >= 2 { plain[..len - 2].to_vec() } else { vec![] };
                            }
                            sk_alg = 9;
                        }
                        if is_x && !cks_ok {
                            continue; // no checksum in these formats
                        }
                        let kinds: &[u8] = if ver == 3 { &[0, 2, 3] } else { &[1] };
                        let kind = kinds[(alg as usize + len) % kinds.len()];
                        let desc = format!(
                            "F1a:pkesk-v{ver}/{}/len={len}/alg={alg}/cks={}/container={kind}",
                            r.name,
                            if cks_ok { "ok" } else { "bad" }
                        );
                        let values = match sub.encrypt(&mut rng, &plain, typ) {
                            Ok(v) => v,
                            Err(_) => {
                                // the library's own encryptor refuses this plaintext (e.g. empty for
                                // X25519 v3, too long for the ECDH padding): nothing to present
                                ctx.tally(&format!("F1a.encrypt_refused.{}.v{ver}", r.name), 1);
                                continue;
                            }
                        };
                        let Some(body) = pkesk_body(ver, sub, &values) else { continue };
                        let mut bytes = pkt(1, &body);
                        bytes.extend(container(kind, sk_alg, &sk, &inner, len, &mut rng));
                        ctx.cover(&("F1a", &r.name, ver, len, alg, cks_ok));
                        let means = Means { keys: vec![&r.sk], ..Means::none() };
                        let variant = (alg as u64) * 41 + len as u64 + cks_ok as u64;
                        let o = run_case(
                            ctx,
                            "F1",
                            &desc,
                            || json!({"api": "Message::from_bytes -> decrypt_the_ring(secret key)", "input": hexs(&bytes), "plaintext": hexs(&plain), "recipient": r.name}),
                            || {
                                let mut o = Obs::default();
                                match Message::from_bytes(&bytes[..]) {
                                    Ok(m) => drive_message(m, &means, variant, &mut o),
                                    Err(_) => o.errs += 1,
                                }
                                // the plain `decrypt` entry point as well
                                if let Ok(m) = Message::from_bytes(&bytes[..]) {
                                    if let Ok(mut m) = m.decrypt(&Password::empty(), &r.sk) {
                                        o.decrypted += 1;
                                        let _ = m.as_data_vec();
                                    }
                                }
                                o
                            },
                        );
                        if let Some(o) = o {
                            obs.merge(&o);
                        }
                    }
                }
                obs.tally(ctx, "F1a");
                if len == 35 && ver == 3 {
                    ctx.sample(json!({"family": "F1a", "recipient": r.name, "pkesk": ver, "len": len, "alg_ids": alg_ids.len(), "obs": format!("{obs:?}")}));
                }
            }

            // ---- F1b every one-octet wire field of the PKESK
            let key32 = [0x33u8; 32];
            let (plain, sk_alg) = if ver == 3 {
                if is_x {
                    let mut p = vec![9u8];
                    p.extend_from_slice(&key32);
                    (p, 9u8)
                } else {
                    (rfc::sym::session_key_v3(9, &key32), 9u8)
                }
            } else if is_x {
                (key32.to_vec(), 9u8)
            } else {
                (rfc::sym::session_key_v6(&key32), 9u8)
            };
            let mut rng0 = Ctx::fixed_rng("F1b", (ri as u64) << 8 | ver as u64);
            let Ok(values) = sub.encrypt(&mut rng0, &plain, typ) else {
                ctx.inconclusive(format!("F1b: cannot build base PKESK for {}", r.name));
                continue;
            };
            let Some(body) = pkesk_body(ver, sub, &values) else { continue };
            let cont = container(if ver == 3 { 0 } else { 1 }, sk_alg, &key32, &inner, 30, &mut rng0);
            // structural offsets in the body: header fields + algorithm specific length fields
            let hdr = if ver == 3 { 10 } else { 3 + sub.fingerprint().len() + 1 };
            let mut structural: Vec<usize> = (0..hdr.min(body.len())).collect();
            // first 3 octets after the header (MPI bit count / first ephemeral octets) and every
            // one-octet length field of the algorithm specific part
            for o in hdr..(hdr + 3).min(body.len()) {
                structural.push(o);
            }
            use pgp::crypto::public_key::PublicKeyAlgorithm as PKA;
            match sub.algorithm() {
                PKA::ECDH => {
                    // MPI(point) then 1-octet wrapped key length
                    if let Some((_, p)) = rfc::read_mpi(&body, hdr) {
                        structural.push(p);
                        structural.push(p + 1);
                    }
                }
                PKA::X25519 => {
                    structural.push(hdr + 32);
                    structural.push(hdr + 33);
                }
                PKA::X448 => {
                    structural.push(hdr + 56);
                    structural.push(hdr + 57);
                }
                _ => {}
            }
            structural.retain(|o| *o < body.len());
            structural.sort_unstable();
            structural.dedup();
            let base_pkt = pkt(1, &body);
            let body_off = base_pkt.len() - body.len();
            // sanity: the unpatched message decrypts
            {
                let mut bytes = base_pkt.clone();
                bytes.extend_from_slice(&cont);
                let ok = core::guard(|| {
                    Message::from_bytes(&bytes[..])
                        .ok()
                        .and_then(|m| m.decrypt(&Password::empty(), &r.sk).ok())
                        .and_then(|mut m| m.as_data_vec().ok())
                });
                match ok {
                    Ok(Some(d)) if d == b"hello c04" => ctx.tally("F1b.base_decrypts", 1),
                    _ => ctx.inconclusive(format!("F1b: base message for {} v{ver} does not decrypt", r.name)),
                }
            }
            for off in 0..body.len() {
                let is_struct = structural.binary_search(&off).is_ok();
                // non structural octets (ciphertext / ephemeral key material): a few values, and in
                // the quick tier only every 4th offset for the long RSA integers
                if !is_struct && ctx.quick() && body.len() > 150 && off % 4 != 0 {
                    continue;
                }
                if !ctx.mine() {
                    continue;
                }
                let vals: Vec<u8> = if is_struct {
                    (0..=255u8).collect()
                } else {
                    vec![0, 0xFF, body[off] ^ 1, body[off] ^ 0x80]
                };
                let mut obs = Obs::default();
                for v in vals {
                    if v == body[off] {
                        continue;
                    }
                    let mut bytes = base_pkt.clone();
                    bytes[body_off + off] = v;
                    bytes.extend_from_slice(&cont);
                    let desc = format!(
                        "F1b:pkesk-v{ver}/{}/patch-off={off}/{}",
                        r.name,
                        if is_struct { "structural" } else { "material" }
                    );
                    ctx.cover(&("F1b", &r.name, ver, off, v));
                    let means = Means { keys: vec![&r.sk], ..Means::none() };
                    let o = run_case(
                        ctx,
                        "F1",
                        &desc,
                        || json!({"api": "Message::from_bytes -> decrypt_the_ring(secret key)", "input": hexs(&bytes), "patched_body_offset": off, "value": v}),
                        || {
                            let mut o = Obs::default();
                            match Message::from_bytes(&bytes[..]) {
                                Ok(m) => drive_message(m, &means, v as u64, &mut o),
                                Err(_) => o.errs += 1,
                            }
                            o
                        },
                    );
                    if let Some(o) = o {
                        obs.merge(&o);
                    }
                }
                obs.tally(ctx, "F1b");
            }
            // declared packet length vs actual: truncation of the PKESK at every length, once
            // re-framed (shorter but consistent) and once raw (length field lies)
            for cut in 0..body.len() {
                if ctx.quick() && body.len() > 150 && cut % 4 != 0 && cut > 16 {
                    continue;
                }
                if !ctx.mine() {
                    continue;
                }
                let mut obs = Obs::default();
                for raw in [false, true] {
                    let mut bytes = if raw {
                        let mut b = base_pkt[..body_off + cut].to_vec();
                        b.extend_from_slice(&cont);
                        b
                    } else {
                        let mut b = pkt(1, &body[..cut]);
                        b.extend_from_slice(&cont);
                        b
                    };
                    if raw && cut % 2 == 0 {
                        bytes.truncate(body_off + cut);
                    }
                    let desc = format!("F1b:pkesk-v{ver}/{}/truncate={cut}/raw={raw}", r.name);
                    ctx.cover(&("F1b-trunc", &r.name, ver, cut, raw));
                    let means = Means { keys: vec![&r.sk], ..Means::none() };
                    let o = run_case(
                        ctx,
                        "F1",
                        &desc,
                        || json!({"api": "Message::from_bytes -> decrypt_the_ring(secret key)", "input": hexs(&bytes)}),
                        || {
                            let mut o = Obs::default();
                            match Message::from_bytes(&bytes[..]) {
                                Ok(m) => drive_message(m, &means, cut as u64, &mut o),
                                Err(_) => o.errs += 1,
                            }
                            o
                        },
                    );
                    if let Some(o) = o {
                        obs.merge(&o);
                    }
                }
                obs.tally(ctx, "F1b");
            }
            ctx.seen("F1.recipient_x_version", format!("{}-pkesk{ver}", r.name));
        }
    }
}

// ------------------------------------------------------------------------------------------
// F2: SEIPDv2 / GnuPG AEAD parameters

fn session_key_variants(rng: &mut ChaCha8Rng, sym: u8, base_key: &[u8]) -> Vec<(String, PlainSessionKey)> {
    let mut v: Vec<(String, PlainSessionKey)> = vec![];
    v.push(("V6-base".into(), PlainSessionKey::V6 { key: base_key.to_vec().into() }));
    for l in [0usize, 1, 15, 16, 17, 24, 31, 32, 33, 64] {
        v.push((format!("V6-len{l}"), PlainSessionKey::V6 { key: rnd_bytes(rng, l).into() }));
    }
    v.push(("V5-base".into(), PlainSessionKey::V5 { key: base_key.to_vec().into() }));
    for l in [0usize, 16, 32] {
        v.push((format!("V5-len{l}"), PlainSessionKey::V5 { key: rnd_bytes(rng, l).into() }));
    }
    v.push((
        "V3_4-base".into(),
        PlainSessionKey::V3_4 { sym_alg: SymmetricKeyAlgorithm::from(sym), key: base_key.to_vec().into() },
    ));
    for (a, l) in [(7u8, 16usize), (9, 32), (9, 16), (0, 0), (0, 16), (2, 24), (110, 16), (255, 32), (7, 0)] {
        v.push((
            format!("V3_4-alg{a}-len{l}"),
            PlainSessionKey::V3_4 { sym_alg: SymmetricKeyAlgorithm::from(a), key: rnd_bytes(rng, l).into() },
        ));
    }
    v
}

fn drive_with_session_key(bytes: &[u8], sk: &PlainSessionKey, variant: u64) -> Obs {
    let mut o = Obs::default();
    let means = Means { session: vec![sk.clone()], ..Means::none() };
    match Message::from_bytes(bytes) {
        Ok(m) => drive_message(m, &means, variant, &mut o),
        Err(_) => o.errs += 1,
    }
    if variant % 4 == 0 {
        if let Ok(m) = Message::from_bytes(bytes) {
            if let Ok(mut m) = m.decrypt_with_session_key(sk.clone()) {
                o.decrypted += 1;
                let _ = m.as_data_vec();
            }
        }
    }
    o
}

/// F2v1: SEIPDv1 (tag 18, version 1) and SED (tag 9) containers cut at every length behind a complete, correct
/// CFB prefix (0..44 further octets: less than an MDC, exactly an MDC, more), every cipher, the right session
/// key, all three read modes.
fn f2_v1_short(ctx: &mut Ctx) {
    let inner = literal(b"hello c04 seipd1 hello c04 seipd1");
    for &alg in rfc::sym::ALL_CIPHERS.iter() {
        let Some(bs) = rfc::sym::block_size(alg) else { continue };
        let Some(ks) = rfc::sym::key_size(alg) else { continue };
        if !ctx.mine() {
            continue;
        }
        let mut rng = ctx.rng("F2v1", alg as u64);
        let key = rnd_bytes(&mut rng, ks);
        let prefix = rnd_bytes(&mut rng, bs);
        let Some(full) = rfc::sym::seipd_v1_encrypt(alg, &key, &prefix, &inner) else { continue };
        let Some(full_sed) = rfc::sym::sed_encrypt(alg, &key, &prefix, &inner) else { continue };
        let sk = PlainSessionKey::V3_4 { sym_alg: SymmetricKeyAlgorithm::from(alg), key: key.clone().into() };
        let mut obs = Obs::default();
        for k in 0..=44usize {
            for (tag, ct) in [(18u8, &full), (9u8, &full_sed)] {
                let cut = (bs + 2 + k).min(ct.len());
                let mut body = vec![];
                if tag == 18 {
                    body.push(1u8);
                }
                body.extend_from_slice(&ct[..cut]);
                let bytes = pkt(tag, &body);
                for variant in 0..3u64 {
                    let desc = format!("F2v1:tag{tag}/cipher={alg}/octets-behind-prefix={k}/mode={}", ["default", "checkfirst-64", "streaming"][variant as usize]);
                    ctx.cover(&("F2v1", tag, alg, k, variant));
                    ctx.seen("F2v1.tail", if k < 22 { "shorter-than-mdc" } else if k == 22 { "mdc-only" } else { "longer" });
                    let o = run_case(
                        ctx,
                        "F2",
                        &desc,
                        || json!({"family": "F2v1", "tag": tag, "cipher": alg, "octets_behind_prefix": k, "mode": variant, "session_key": hexfull(&key), "input": hexfull(&bytes)}),
                        || drive_with_session_key(&bytes, &sk, variant * 4 + variant),
                    );
                    if let Some(o) = o {
                        obs.merge(&o);
                    }
                }
            }
        }
        obs.tally(ctx, "F2v1");
    }
}

fn f2(ctx: &mut Ctx) {
    let inner = literal(b"hello c04 seipd2");
    let base_cfgs: [(u8, u8, u8); 5] = [(7, 2, 0), (9, 1, 0), (8, 3, 1), (9, 2, 6), (7, 3, 16)];
    // ---- single-field sweeps over the three parameter octets, SEIPDv2 (tag 18) and tag 20
    for (ci, (sym, aead, chunk)) in base_cfgs.iter().copied().enumerate() {
        for tag in [18u8, 20u8] {
            let mut rng = ctx.rng("F2", (ci as u64) << 8 | tag as u64);
            let key = rnd_bytes(&mut rng, rfc::sym::key_size(sym).unwrap_or(16));
            let mut salt = [0u8; 32];
            rng.fill_bytes(&mut salt);
            let base_body = if tag == 18 {
                rfc::sym::seipd_v2_encrypt(sym, aead, chunk, &salt, &key, &inner)
            } else {
                gnupg_aead_encrypt(sym, chunk, &salt[..15], &key, &inner)
            };
            let Some(base_body) = base_body else {
                ctx.inconclusive("F2: reference could not build base container");
                continue;
            };
            // sanity: base decrypts
            {
                let bytes = pkt(tag, &base_body);
                let sk = if tag == 18 {
                    PlainSessionKey::V6 { key: key.clone().into() }
                } else {
                    PlainSessionKey::V5 { key: key.clone().into() }
                };
                let ok = core::guard(|| {
                    let m = Message::from_bytes(&bytes[..]).ok()?;
                    let ring = TheRing { session_keys: vec![sk], decrypt_options: dec_opts(0), ..Default::default() };
                    let (mut m, _) = m.decrypt_the_ring(ring, true).ok()?;
                    m.as_data_vec().ok()
                });
                match ok {
                    Ok(Some(d)) if d == b"hello c04 seipd2" => ctx.tally("F2.base_decrypts", 1),
                    _ => ctx.inconclusive(format!("F2: base container tag {tag} cfg {sym}/{aead}/{chunk} does not decrypt")),
                }
            }
            let hdr_len = if tag == 18 { 36 } else { 19 };
            let sks = session_key_variants(&mut rng, sym, &key);
            for field in 0..4usize {
                for val in 0..=255u16 {
                    let val = val as u8;
                    if !ctx.mine() {
                        continue;
                    }
                    let mut obs = Obs::default();
                    let mut body = base_body.clone();
                    body[field] = val;
                    let field_name = ["version", "cipher", "aead", "chunk"][field];
                    // (a) full body, every session key kind
                    for (ski, (skname, sk)) in sks.iter().enumerate() {
                        // quick: non-base key kinds only for a subset of values
                        if ctx.quick() && ski > 0 && !(val < 24 || val % 16 == 0 || val > 250 || (100..=111).contains(&val)) {
                            continue;
                        }
                        let bytes = pkt(tag, &body);
                        let desc = format!("F2:tag{tag}/base={sym}.{aead}.{chunk}/{field_name}={val}/sk={skname}/full");
                        ctx.cover(&("F2", tag, ci, field, val, ski));
                        let o = run_case(
                            ctx,
                            "F2",
                            &desc,
                            || json!({"api": "Message::from_bytes -> decrypt_the_ring(session key)", "input": hexs(&bytes), "session_key": format!("{skname}")}),
                            || drive_with_session_key(&bytes, sk, val as u64 + ski as u64),
                        );
                        if let Some(o) = o {
                            obs.merge(&o);
                        }
                    }
                    // (b) bodies of length 0..40 behind the header (and shorter than the header)
                    let sk0 = &sks[0].1;
                    let lens: Vec<usize> = if ctx.quick() && !(val < 20 || val % 32 == 0 || val == 255) {
                        vec![0, 1, 15, 16, 17, 32, 40]
                    } else {
                        (0..=40).collect()
                    };
                    for l in lens {
                        let mut b = body[..hdr_len.min(body.len())].to_vec();
                        b.extend(rnd_bytes(&mut rng, l));
                        let bytes = pkt(tag, &b);
                        let desc = format!("F2:tag{tag}/base={sym}.{aead}.{chunk}/{field_name}={val}/body-len={l}");
                        ctx.cover(&("F2b", tag, ci, field, val, l));
                        let o = run_case(
                            ctx,
                            "F2",
                            &desc,
                            || json!({"api": "Message::from_bytes -> decrypt_the_ring(session key)", "input": hexs(&bytes), "session_key": hexs(&key)}),
                            || drive_with_session_key(&bytes, sk0, l as u64),
                        );
                        if let Some(o) = o {
                            obs.merge(&o);
                        }
                    }
                    if field == 0 && val < 8 {
                        // header truncated at every length
                        for l in 0..hdr_len {
                            let bytes = pkt(tag, &body[..l.min(body.len())]);
                            let desc = format!("F2:tag{tag}/version={val}/header-truncated={l}");
                            let o = run_case(
                                ctx,
                                "F2",
                                &desc,
                                || json!({"api": "Message::from_bytes -> decrypt_the_ring(session key)", "input": hexs(&bytes)}),
                                || drive_with_session_key(&bytes, sk0, l as u64),
                            );
                            if let Some(o) = o {
                                obs.merge(&o);
                            }
                        }
                    }
                    // packet level API
                    if tag == 18 {
                        let desc = format!("F2:packet-api/base={sym}.{aead}.{chunk}/{field_name}={val}");
                        let o = run_case(
                            ctx,
                            "F2",
                            &desc,
                            || json!({"api": "SymEncryptedProtectedData::try_from_reader -> decrypt", "body": hexs(&body), "session_key": hexs(&key)}),
                            || {
                                let mut o = Obs::default();
                                let h = PacketHeader::new_fixed(Tag::SymEncryptedProtectedData, body.len() as u32);
                                if let Ok(p) = SymEncryptedProtectedData::try_from_reader(h, &body[..]) {
                                    o.parsed += 1;
                                    let _ = p.version();
                                    let _ = p.config();
                                    let _ = p.to_bytes();
                                    let _ = p.write_len();
                                    for k in [&key[..], &[][..], &[1u8; 5][..], &[2u8; 32][..]] {
                                        match p.decrypt(k, Some(SymmetricKeyAlgorithm::from(sym)), Seipdv1ReadMode::default()) {
                                            Ok(d) => {
                                                o.decrypted += 1;
                                                o.bytes += d.len() as u64;
                                            }
                                            Err(_) => o.errs += 1,
                                        }
                                    }
                                }
                                o
                            },
                        );
                        if let Some(o) = o {
                            obs.merge(&o);
                        }
                    }
                    obs.tally(ctx, "F2");
                    ctx.seen(&format!("F2.tag{tag}.{field_name}"), format!("{val}"));
                }
            }
        }
    }
    // ---- seeded pairs / triples: valid containers for every supported (cipher, aead, chunk<=10)
    // combination with plaintext sizes around the chunk size, then a second parameter patched
    let n = ctx.qt(1500u64, 30000u64);
    for i in 0..n {
        if !ctx.mine() {
            continue;
        }
        let mut rng = ctx.rng("F2p", i);
        let sym = [7u8, 8, 9][rng.gen_range(0..3)];
        let aead = rng.gen_range(1..=3u8);
        let chunk = rng.gen_range(0..=4u8);
        let cs = 1usize << (chunk + 6);
        let plen = [0, 1, cs - 1, cs, cs + 1, 2 * cs, 2 * cs + 1][rng.gen_range(0..7)];
        let mut data = literal(&rnd_bytes(&mut rng, plen));
        if rng.gen_bool(0.3) {
            data = rnd_bytes(&mut rng, plen);
        }
        let key = rnd_bytes(&mut rng, rfc::sym::key_size(sym).unwrap_or(16));
        let mut salt = [0u8; 32];
        rng.fill_bytes(&mut salt);
        let tag = if rng.gen_bool(0.7) { 18u8 } else { 20 };
        let body = if tag == 18 {
            rfc::sym::seipd_v2_encrypt(sym, aead, chunk, &salt, &key, &data)
        } else {
            gnupg_aead_encrypt(sym, chunk, &salt[..15], &key, &data)
        };
        let Some(mut body) = body else { continue };
        let mode = rng.gen_range(0..6);
        match mode {
            0 => {}
            1 => {
                // two parameter octets replaced
                body[1] = rng.gen();
                body[2] = rng.gen();
            }
            2 => {
                body[2] = rng.gen();
                body[3] = rng.gen();
            }
            3 => {
                body[1] = [7u8, 8, 9, 10, 13][rng.gen_range(0..5)];
                body[3] = rng.gen_range(0..=20);
            }
            4 => {
                // truncate inside the chunk stream
                let l = rng.gen_range(0..=body.len());
                body.truncate(l);
            }
            _ => {
                // trailing garbage / bit flip in ciphertext
                let p = rng.gen_range(0..body.len());
                body[p] ^= 1 << rng.gen_range(0..8);
            }
        }
        let sk = match (tag, rng.gen_range(0..8)) {
            (18, 0) => {
                let l = [0usize, 16, 24, 32, 33][rng.gen_range(0..5)];
                PlainSessionKey::V6 { key: rnd_bytes(&mut rng, l).into() }
            }
            (18, _) => PlainSessionKey::V6 { key: key.clone().into() },
            (_, 0) => PlainSessionKey::V3_4 { sym_alg: SymmetricKeyAlgorithm::from(get(&body, 1)), key: key.clone().into() },
            (_, 1) => PlainSessionKey::V6 { key: key.clone().into() },
            _ => PlainSessionKey::V5 { key: key.clone().into() },
        };
        // partial body framing of the container now and then
        let bytes = if body.len() > 600 && rng.gen_bool(0.5) {
            rfc::frame::frame(tag, &body, &rfc::frame::LenForm::Partial(vec![512], Box::new(rfc::frame::LenForm::NewMin))).unwrap_or_else(|| pkt(tag, &body))
        } else {
            pkt(tag, &body)
        };
        ctx.cover(&("F2p", i));
        let desc = format!("F2p:tag{tag}/cfg={sym}.{aead}.{chunk}/plen-class={}/mode={mode}", plen.min(9999));
        let o = run_case(
            ctx,
            "F2",
            &desc,
            || json!({"api": "Message::from_bytes -> decrypt_the_ring(session key)", "input": hexs(&bytes), "session_key": format!("{sk:?}"), "key": hexs(&key)}),
            || drive_with_session_key(&bytes, &sk, i),
        );
        if let Some(o) = o {
            o.tally(ctx, "F2p");
        }
    }
}

// ------------------------------------------------------------------------------------------
// F3: SKESK / S2K

/// Reference encoder for GnuPG's v5 SKESK (OCB): the S2K output is used directly as key.
fn skesk_v5_encode(sym: u8, s2k: &RefS2k, pw: &[u8], iv: &[u8], sk: &[u8]) -> Option<Vec<u8>> {
    let key = s2k.derive(pw, rfc::sym::key_size(sym)?)?;
    let info = [0xC3u8, 5, sym, 2];
    let ct = rfc::sym::aead_seal(sym, 2, &key, iv, &info, sk)?;
    let mut o = vec![5u8, sym, 2];
    o.extend(s2k.encode());
    o.extend_from_slice(iv);
    o.extend(ct);
    Some(o)
}

/// True if a KDF described by these S2K octets would be legitimately expensive (Argon2 with
/// 16 MiB..2 GiB of memory, which the library accepts by design). Such inputs are not presented:
/// a slow but legitimate derivation is not a hang.
fn s2k_bytes_expensive(b: &[u8]) -> bool {
    match b.first() {
        Some(4) => {
            let (t, p, m) = (get(b, 17), get(b, 18), get(b, 19));
            b.len() >= 20 && t <= 32 && p <= 32 && (14..=21).contains(&m)
        }
        _ => false,
    }
}

fn s2k_expensive(s: &StringToKey, max_count: u8) -> bool {
    match s {
        StringToKey::Argon2 { t, p, m_enc, .. } => *t <= 32 && *p <= 32 && (14..=21).contains(m_enc),
        StringToKey::IteratedAndSalted { count, .. } => *count > max_count,
        _ => false,
    }
}

/// SKESK bodies whose S2K would be expensive are filtered before they reach the library
fn skesk_body_expensive(body: &[u8]) -> bool {
    match body.first() {
        Some(4) => s2k_bytes_expensive(body.get(2..).unwrap_or(&[])),
        Some(5) => s2k_bytes_expensive(body.get(3..).unwrap_or(&[])),
        Some(6) => s2k_bytes_expensive(body.get(5..).unwrap_or(&[])),
        _ => false,
    }
}

fn drive_with_password(bytes: &[u8], variant: u64) -> Obs {
    let mut o = Obs::default();
    let means = Means::none();
    match Message::from_bytes(bytes) {
        Ok(m) => drive_message(m, &means, variant, &mut o),
        Err(_) => o.errs += 1,
    }
    if variant % 4 == 1 {
        if let Ok(m) = Message::from_bytes(bytes) {
            if let Ok(mut m) = m.decrypt_with_password(&Password::from(MSG_PW)) {
                o.decrypted += 1;
                let _ = m.as_data_vec();
            }
        }
    }
    o
}

/// The packet level API on a SKESK body. The caller-supplied key always has the length the
/// packet's own cipher demands (what `decrypt_session_key_with_password` does); handing in a key
/// of another length would be API misuse, not hostile input.
fn drive_skesk_direct(body: &[u8]) -> Obs {
    let mut o = Obs::default();
    let h = PacketHeader::new_fixed(Tag::SymKeyEncryptedSessionKey, body.len() as u32);
    match SymKeyEncryptedSessionKey::try_from_reader(h, body) {
        Ok(p) => {
            o.parsed += 1;
            let _ = p.version();
            let _ = p.s2k();
            let _ = p.is_supported();
            let _ = p.encrypted_key();
            let n = p.write_len();
            if let Ok(b) = p.to_bytes() {
                let _ = b.len() == n;
                o.serialized += 1;
            }
            let mut v = Vec::new();
            let _ = p.to_writer_with_header(&mut v);
            match pgp::composed::decrypt_session_key_with_password(&p, &Password::from(MSG_PW)) {
                Ok(_) => o.decrypted += 1,
                Err(_) => o.errs += 1,
            }
            if let (Some(alg), Some(s2k)) = (p.sym_algorithm(), p.s2k()) {
                let ks = alg.key_size();
                let mut keys = vec![vec![0x11u8; ks]];
                if !s2k_expensive(s2k, 0xFF) {
                    if let Ok(k) = s2k.derive_key(MSG_PW.as_bytes(), ks) {
                        keys.push(k.as_ref().to_vec());
                    }
                }
                for k in keys {
                    match p.decrypt(&k) {
                        Ok(_) => o.decrypted += 1,
                        Err(_) => o.errs += 1,
                    }
                }
            }
        }
        Err(_) => o.errs += 1,
    }
    o
}

/// Runs the message level path (family F3) and the packet level API (family F3x) on one SKESK.
fn run_skesk(ctx: &mut Ctx, desc: &str, bytes: &[u8], body: &[u8], variant: u64, detail: Value) -> Obs {
    let mut obs = Obs::default();
    let o = run_case(
        ctx,
        "F3",
        desc,
        || json!({"api": "Message::from_bytes -> decrypt_the_ring(password) / decrypt_with_password", "input": hexs(bytes), "password": MSG_PW, "detail": detail.clone()}),
        || drive_with_password(bytes, variant),
    );
    if let Some(o) = o {
        obs.merge(&o);
    }
    let d2 = format!("{desc}/packet-api");
    let o = run_case(
        ctx,
        "F3x",
        &d2,
        || json!({"api": "SymKeyEncryptedSessionKey::try_from_reader -> decrypt_session_key_with_password / decrypt(key of the cipher's size)", "skesk_body": hexs(body), "password": MSG_PW, "detail": detail.clone()}),
        || drive_skesk_direct(body),
    );
    if let Some(o) = o {
        obs.merge(&o);
    }
    obs
}

fn f3(ctx: &mut Ctx) {
    let inner = literal(b"hello c04 skesk");
    let pw = MSG_PW.as_bytes();
    let alg_ids: Vec<u8> = if ctx.quick() { ALG_IDS_QUICK.to_vec() } else { (0..=255u8).collect() };
    let salt8 = [0xA1u8, 2, 3, 4, 5, 6, 7, 8];
    let salt16 = [0xB1u8; 16];
    let s2ks_v4: Vec<(&str, RefS2k)> = vec![
        ("simple-sha256", RefS2k::Simple { hash: 8 }),
        ("salted-sha256", RefS2k::Salted { hash: 8, salt: salt8 }),
        ("iter-sha256-c0", RefS2k::Iterated { hash: 8, salt: salt8, count: 0 }),
        ("iter-sha1-c16", RefS2k::Iterated { hash: 2, salt: salt8, count: 16 }),
        ("iter-sha512-c32", RefS2k::Iterated { hash: 10, salt: salt8, count: 32 }),
    ];
    let keks: Vec<u8> = if ctx.quick() { vec![7, 9, 2, 3] } else { rfc::sym::ALL_CIPHERS.to_vec() };

    // ---- F3a v4 SKESK, attacker-chosen decrypted contents
    for (ki, &kek) in keks.iter().enumerate() {
        for (si, (sname, s2k)) in s2ks_v4.iter().enumerate() {
            for len in 0..=40usize {
                if !ctx.mine() {
                    continue;
                }
                let mut rng = ctx.rng("F3a", (ki as u64) << 16 | (si as u64) << 8 | len as u64);
                let mut obs = Obs::default();
                for &alg in &alg_ids {
                    let mut plain = rnd_bytes(&mut rng, len);
                    if len >= 1 {
                        plain[0] = alg;
                    }
                    let sess = if len == 0 { None } else { Some((plain[0], &plain[1..])) };
                    let Some(body) = rfc::sym::skesk_v4_encode(kek, s2k, pw, sess) else {
                        ctx.inconclusive("F3a: reference could not build SKESK v4");
                        continue;
                    };
                    // container keyed by the session key the library will derive
                    let (c_alg, c_key): (u8, Vec<u8>) = if len == 0 {
                        (kek, s2k.derive(pw, rfc::sym::key_size(kek).unwrap_or(16)).unwrap_or_default())
                    } else {
                        (alg, plain[1..].to_vec())
                    };
                    let kind = [0u8, 2, 3][(alg as usize + len) % 3];
                    let mut bytes = pkt(3, &body);
                    bytes.extend(container(kind, c_alg, &c_key, &inner, len, &mut rng));
                    ctx.cover(&("F3a", kek, si, len, alg));
                    let desc = format!("F3a:skesk-v4/kek={kek}/{sname}/len={len}/alg={alg}/container={kind}");
                    let o = run_skesk(ctx, &desc, &bytes, &body, alg as u64 + len as u64, json!({"session_plaintext": hexs(&plain)}));
                    obs.merge(&o);
                }
                obs.tally(ctx, "F3a");
            }
        }
    }

    // ---- F3b v6 SKESK: AEAD-sealed attacker-chosen session key of every length
    let s2ks_v6: Vec<(&str, RefS2k)> = vec![
        ("iter-sha256-c0", RefS2k::Iterated { hash: 8, salt: salt8, count: 0 }),
        ("argon2-1-1-6", RefS2k::Argon2 { salt: salt16, t: 1, p: 1, m: 6 }),
        ("salted-sha256", RefS2k::Salted { hash: 8, salt: salt8 }),
        ("simple-sha256", RefS2k::Simple { hash: 8 }),
        ("iter-sha1-c0", RefS2k::Iterated { hash: 2, salt: salt8, count: 0 }),
    ];
    for sym in [7u8, 8, 9] {
        for aead in [1u8, 2, 3] {
            for (si, (sname, s2k)) in s2ks_v6.iter().enumerate() {
                if !ctx.mine() {
                    continue;
                }
                let mut rng = ctx.rng("F3b", (sym as u64) << 16 | (aead as u64) << 8 | si as u64);
                let mut obs = Obs::default();
                for len in 0..=40usize {
                    let sk = rnd_bytes(&mut rng, len);
                    let iv = rnd_bytes(&mut rng, rfc::sym::aead_nonce_len(aead).unwrap_or(16));
                    let Some(body) = rfc::sym::skesk_v6_encode(sym, aead, s2k, pw, &iv, &sk) else {
                        ctx.inconclusive("F3b: reference could not build SKESK v6");
                        continue;
                    };
                    let mut bytes = pkt(3, &body);
                    bytes.extend(container(1, 9, &sk, &inner, len, &mut rng));
                    ctx.cover(&("F3b", sym, aead, si, len));
                    let desc = format!("F3b:skesk-v6/sym={sym}/aead={aead}/{sname}/sk-len={len}");
                    let o = run_skesk(ctx, &desc, &bytes, &body, len as u64, json!({"session_key": hexs(&sk)}));
                    obs.merge(&o);
                }
                obs.tally(ctx, "F3b");
            }
        }
    }

    // ---- F3c v5 (GnuPG) SKESK in front of a tag 20 container
    for sym in [7u8, 8, 9] {
        for (si, (sname, s2k)) in s2ks_v4.iter().enumerate() {
            if !ctx.mine() {
                continue;
            }
            let mut rng = ctx.rng("F3c", (sym as u64) << 8 | si as u64);
            let mut obs = Obs::default();
            for len in 0..=40usize {
                let sk = rnd_bytes(&mut rng, len);
                let iv = rnd_bytes(&mut rng, 15);
                let Some(body) = skesk_v5_encode(sym, s2k, pw, &iv, &sk) else {
                    ctx.inconclusive("F3c: reference could not build SKESK v5");
                    continue;
                };
                let mut bytes = pkt(3, &body);
                bytes.extend(container(3, sym, &sk, &inner, len, &mut rng));
                ctx.cover(&("F3c", sym, si, len));
                let desc = format!("F3c:skesk-v5/sym={sym}/{sname}/sk-len={len}");
                let o = run_skesk(ctx, &desc, &bytes, &body, len as u64, json!({}));
                    obs.merge(&o);
            }
            obs.tally(ctx, "F3c");
        }
    }

    // ---- F3d field sweeps over valid base packets (every offset before the encrypted key x 256)
    let sk16 = [0x44u8; 16];
    let mut bases: Vec<(String, Vec<u8>, Vec<u8>, usize)> = vec![]; // name, body, container, param-region length
    {
        let mut rng = Ctx::fixed_rng("F3d", 0);
        for (sname, s2k) in [
            ("iter", RefS2k::Iterated { hash: 8, salt: salt8, count: 0 }),
            ("salted", RefS2k::Salted { hash: 8, salt: salt8 }),
            ("simple", RefS2k::Simple { hash: 8 }),
        ] {
            let mut plain = vec![7u8];
            plain.extend_from_slice(&sk16);
            if let Some(b) = rfc::sym::skesk_v4_encode(7, &s2k, pw, Some((7, &sk16))) {
                let region = 2 + s2k.encode().len();
                bases.push((format!("v4-{sname}"), b, container(0, 7, &sk16, &inner, 20, &mut rng), region));
            }
            if let Some(b) = rfc::sym::skesk_v4_encode(7, &s2k, pw, None) {
                let region = b.len();
                let k = s2k.derive(pw, 16).unwrap_or_default();
                bases.push((format!("v4-{sname}-nokey"), b, container(0, 7, &k, &inner, 20, &mut rng), region));
            }
        }
        for (sname, s2k, aead) in [
            ("iter-ocb", RefS2k::Iterated { hash: 8, salt: salt8, count: 0 }, 2u8),
            ("argon2-eax", RefS2k::Argon2 { salt: salt16, t: 1, p: 1, m: 6 }, 1),
            ("argon2-m9-gcm", RefS2k::Argon2 { salt: salt16, t: 1, p: 1, m: 9 }, 3),
        ] {
            let iv = rnd_bytes(&mut rng, rfc::sym::aead_nonce_len(aead).unwrap_or(16));
            if let Some(b) = rfc::sym::skesk_v6_encode(7, aead, &s2k, pw, &iv, &sk16) {
                let region = 5 + s2k.encode().len() + iv.len();
                bases.push((format!("v6-{sname}"), b, container(1, 7, &sk16, &inner, 20, &mut rng), region));
            }
        }
        {
            let s2k = RefS2k::Iterated { hash: 8, salt: salt8, count: 0 };
            let iv = rnd_bytes(&mut rng, 15);
            if let Some(b) = skesk_v5_encode(7, &s2k, pw, &iv, &sk16) {
                let region = 3 + 11 + 15;
                bases.push(("v5-iter".into(), b, container(3, 7, &sk16, &inner, 20, &mut rng), region));
            }
        }
    }
    for (bname, body, cont, region) in &bases {
        // sanity
        {
            let mut bytes = pkt(3, body);
            bytes.extend_from_slice(cont);
            let ok = core::guard(|| {
                let m = Message::from_bytes(&bytes[..]).ok()?;
                let pws = [Password::from(MSG_PW)];
                let ring = TheRing { message_password: pws.iter().collect(), decrypt_options: dec_opts(0), ..Default::default() };
                let (mut m, _) = m.decrypt_the_ring(ring, true).ok()?;
                m.as_data_vec().ok()
            });
            match ok {
                Ok(Some(d)) if d == b"hello c04 skesk" => ctx.tally("F3d.base_decrypts", 1),
                _ => ctx.inconclusive(format!("F3d: base {bname} does not decrypt")),
            }
        }
        for off in 0..(*region).min(body.len()) {
            // the coded iteration count gets its own, cost-aware sweep below
            let is_count = (bname.starts_with("v4-iter") && off == 12)
                || (bname.starts_with("v6-iter") && off == 15)
                || (bname.starts_with("v5-iter") && off == 13);
            if !ctx.mine() {
                continue;
            }
            let mut obs = Obs::default();
            for v in 0..=255u16 {
                let v = v as u8;
                if is_count && v > 0x60 {
                    continue;
                }
                let mut b = body.clone();
                b[off] = v;
                if skesk_body_expensive(&b) {
                    ctx.tally("F3d.skipped_expensive_kdf", 1);
                    continue;
                }
                let mut bytes = pkt(3, &b);
                bytes.extend_from_slice(cont);
                ctx.cover(&("F3d", bname, off, v));
                let desc = format!("F3d:skesk/{bname}/patch-off={off}");
                let o = run_skesk(ctx, &desc, &bytes, &b, v as u64, json!({"patched_body_offset": off, "value": v}));
                    obs.merge(&o);
            }
            obs.tally(ctx, "F3d");
            ctx.seen("F3d.base_x_offset", format!("{bname}@{off}"));
        }
        // truncation at every length, re-framed and raw
        if !ctx.mine() {
            continue;
        }
        let mut obs = Obs::default();
        for cut in 0..body.len() {
            for raw in [false, true] {
                let mut bytes = if raw {
                    let full = pkt(3, body);
                    let hl = full.len() - body.len();
                    full[..hl + cut].to_vec()
                } else {
                    pkt(3, &body[..cut])
                };
                bytes.extend_from_slice(cont);
                let desc = format!("F3d:skesk/{bname}/truncate={cut}/raw={raw}");
                ctx.cover(&("F3d-trunc", bname, cut, raw));
                let o = run_skesk(ctx, &desc, &bytes, &body[..cut], cut as u64, json!({}));
                    obs.merge(&o);
            }
        }
        obs.tally(ctx, "F3d");
    }

    // ---- F3e S2K type x hash matrix, explicit specifier bytes, v4 and v6 framing
    let hashes_q: Vec<u8> = vec![0, 1, 2, 3, 8, 9, 10, 11, 12, 14, 100, 255];
    for typ in 0..=255u16 {
        let typ = typ as u8;
        if !ctx.mine() {
            continue;
        }
        let mut rng = ctx.rng("F3e", typ as u64);
        let hashes: Vec<u8> = if ctx.quick() && !matches!(typ, 0 | 1 | 3) { hashes_q.clone() } else { (0..=255u8).collect() };
        let mut obs = Obs::default();
        for h in hashes {
            for tail in [0usize, 1, 8, 9, 18, 30] {
                // specifier: type, hash, then `tail` octets (salt / count / argon2 params ...)
                let mut spec = vec![typ, h];
                let mut t = rnd_bytes(&mut rng, tail);
                if typ == 3 && tail >= 9 {
                    t[8] = h % 0x40; // coded count kept cheap
                }
                spec.extend(t);
                if s2k_bytes_expensive(&spec) {
                    ctx.tally("F3e.skipped_expensive_kdf", 1);
                    continue;
                }
                for ver in [4u8, 6] {
                    let body = if ver == 4 {
                        let mut b = vec![4u8, 7];
                        b.extend_from_slice(&spec);
                        b.extend(rnd_bytes(&mut rng, 17));
                        b
                    } else {
                        let iv = rnd_bytes(&mut rng, 15);
                        let mut b = vec![6u8, (3 + spec.len() + 15) as u8, 7, 2, spec.len() as u8];
                        b.extend_from_slice(&spec);
                        b.extend(iv);
                        b.extend(rnd_bytes(&mut rng, 32));
                        b
                    };
                    // the count octet may come from the random octets that follow a short specifier
                    let s2k_at = if ver == 4 { 2 } else { 5 };
                    if s2k_bytes_cost_high(body.get(s2k_at..).unwrap_or(&[]), 0x80) {
                        ctx.tally("F3e.skipped_expensive_kdf", 1);
                        continue;
                    }
                    let mut bytes = pkt(3, &body);
                    bytes.extend(container(if ver == 4 { 0 } else { 1 }, 7, &sk16, &inner, 20, &mut rng));
                    ctx.cover(&("F3e", typ, h, tail, ver));
                    let desc = format!("F3e:skesk-v{ver}/s2k-type={typ}/hash={h}/tail={tail}");
                    let o = run_skesk(ctx, &desc, &bytes, &body, h as u64, json!({}));
                    obs.merge(&o);
                }
            }
        }
        obs.tally(ctx, "F3e");
        ctx.seen("F3e.s2k_type", format!("{typ}"));
    }

    // ---- F3f cost-aware sweeps: coded iteration count, Argon2 t / p / m
    let counts: Vec<u8> = if ctx.quick() {
        (0..=255u16).map(|c| c as u8).filter(|c| *c <= 0x70 || *c % 16 == 15 || *c % 16 == 0).collect()
    } else {
        (0..=255u8).collect()
    };
    for c in counts {
        if !ctx.mine() {
            continue;
        }
        let mut rng = ctx.rng("F3f", c as u64);
        // the reference derives with the same count, so the packet is valid for the password
        let (hash, ver) = if c % 2 == 0 { (8u8, 4u8) } else { (10u8, 6u8) };
        let s2k = RefS2k::Iterated { hash, salt: salt8, count: c };
        let (body, cont) = if ver == 4 {
            (rfc::sym::skesk_v4_encode(9, &s2k, pw, Some((7, &sk16))), container(0, 7, &sk16, &inner, 20, &mut rng))
        } else {
            let iv = rnd_bytes(&mut rng, 15);
            (rfc::sym::skesk_v6_encode(9, 2, &s2k, pw, &iv, &sk16), container(1, 7, &sk16, &inner, 20, &mut rng))
        };
        let Some(body) = body else { continue };
        let mut bytes = pkt(3, &body);
        bytes.extend(cont);
        ctx.cover(&("F3f-count", c));
        ctx.seen("F3f.count", format!("{c}"));
        let desc = format!("F3f:skesk-v{ver}/iterated-count={c}");
        let o = run_case(
            ctx,
            "F3",
            &desc,
            || json!({"api": "Message::from_bytes -> decrypt_with_password", "input": hexs(&bytes), "password": MSG_PW}),
            || {
                let mut o = Obs::default();
                if let Ok(m) = Message::from_bytes(&bytes[..]) {
                    o.parsed += 1;
                    match m.decrypt_with_password(&Password::from(MSG_PW)) {
                        Ok(mut m) => {
                            o.decrypted += 1;
                            if m.as_data_vec().is_ok() {
                                o.read_ok += 1;
                            }
                        }
                        Err(_) => o.errs += 1,
                    }
                }
                o
            },
        );
        if let Some(o) = o {
            if o.decrypted == 0 {
                ctx.tally("F3f.count_not_decrypted", 1);
            }
            o.tally(ctx, "F3f");
        }
    }
    for (field, base_m) in [("t", 6u8), ("p", 9u8), ("m", 6u8)] {
        for v in 0..=255u16 {
            let v = v as u8;
            if !ctx.mine() {
                continue;
            }
            let (t, p, m) = match field {
                "t" => (v, 1, base_m),
                "p" => (1, v, base_m),
                _ => (1, 1, v),
            };
            if field == "m" && (14..=21).contains(&v) {
                // 16 MiB .. 2 GiB: accepted by design, legitimately slow and memory hungry; not run
                ctx.tally("F3f.skipped_expensive_kdf", 1);
                continue;
            }
            let mut rng = ctx.rng("F3f-argon", (field.len() as u64) << 16 | (field.as_bytes()[0] as u64) << 8 | v as u64);
            let s2k = RefS2k::Argon2 { salt: salt16, t, p, m };
            let iv = rnd_bytes(&mut rng, 16);
            // valid packet where the reference can derive, else the specifier with a random key blob
            // the reference is only asked for parameter sets it can handle cheaply
            let ref_ok = (1..=32).contains(&t) && (1..=32).contains(&p) && m <= 13 && (1u32 << m) >= 8 * p as u32;
            let body = (if ref_ok { rfc::sym::skesk_v6_encode(7, 1, &s2k, pw, &iv, &sk16) } else { None }).unwrap_or_else(|| {
                let spec = s2k.encode();
                let mut b = vec![6u8, (3 + spec.len() + 16) as u8, 7, 1, spec.len() as u8];
                b.extend(spec);
                b.extend_from_slice(&iv);
                b.extend(rnd_bytes(&mut rng, 32));
                b
            });
            let mut bytes = pkt(3, &body);
            bytes.extend(container(1, 7, &sk16, &inner, 20, &mut rng));
            ctx.cover(&("F3f-argon", field, v));
            ctx.seen(&format!("F3f.argon2.{field}"), format!("{v}"));
            let desc = format!("F3f:skesk-v6/argon2/{field}={v}");
            let o = run_case(
                ctx,
                "F3",
                &desc,
                || json!({}),
                || drive_with_password(&bytes, v as u64),
            );
            if let Some(o) = o {
                o.tally(ctx, "F3f");
            }
        }
    }
}

// ------------------------------------------------------------------------------------------
// F4: secret keys

/// One secret key packet of a transferable secret key, taken apart.
#[derive(Clone)]
struct SecPkt {
    /// index into the packet list of the TSK
    idx: usize,
    tag: u8,
    version: u8,
    pub_body: Vec<u8>,
    /// genuine unprotected algorithm specific secret material (without checksum)
    material: Vec<u8>,
    alg: u8,
}

struct Tsk {
    name: String,
    /// (tag, body) of every packet
    packets: Vec<(u8, Vec<u8>)>,
    secs: Vec<SecPkt>,
}

impl Tsk {
    fn from_key(name: &str, k: &SignedSecretKey) -> Option<Tsk> {
        let bytes = k.to_bytes().ok()?;
        let raw = rfc::frame::deframe(&bytes).ok()?;
        let packets: Vec<(u8, Vec<u8>)> = raw.iter().map(|p| (p.tag, p.body.clone())).collect();
        let mut pub_lens = vec![k.primary_key.public_key().to_bytes().ok()?.len()];
        for s in &k.secret_subkeys {
            pub_lens.push(s.key.public_key().to_bytes().ok()?.len());
        }
        let mut secs = vec![];
        let mut n = 0usize;
        for (i, (tag, body)) in packets.iter().enumerate() {
            if *tag == 5 || *tag == 7 {
                let pl = *pub_lens.get(n)?;
                n += 1;
                if body.len() < pl + 1 || body[pl] != 0 {
                    return None; // expected an unprotected zoo key
                }
                let version = body[0];
                let mat = if version == 6 { body[pl + 1..].to_vec() } else { body[pl + 1..body.len().checked_sub(2)?].to_vec() };
                secs.push(SecPkt { idx: i, tag: *tag, version, pub_body: body[..pl].to_vec(), material: mat, alg: get(body, 5) });
            }
        }
        Some(Tsk { name: name.to_string(), packets, secs })
    }

    /// serialise with secret packet `which` carrying `sec_part` (everything after the public part)
    fn with_secret(&self, which: usize, sec_part: &[u8]) -> Vec<u8> {
        let mut out = vec![];
        for (i, (tag, body)) in self.packets.iter().enumerate() {
            match self.secs.get(which) {
                Some(sp) if sp.idx == i => {
                    let mut b = sp.pub_body.clone();
                    b.extend_from_slice(sec_part);
                    out.extend(pkt(*tag, &b));
                }
                _ => out.extend(pkt(*tag, body)),
            }
        }
        out
    }
}

/// How the secret part is protected by the reference encoder.
#[derive(Clone, Debug)]
enum Prot {
    Plain,
    Cfb254 { sym: u8, s2k: RefS2k },
    Malleable255 { sym: u8, s2k: RefS2k },
    Legacy { sym: u8 },
    Aead253 { sym: u8, aead: u8, s2k: RefS2k },
}

impl Prot {
    fn name(&self) -> String {
        match self {
            Prot::Plain => "plain".into(),
            Prot::Cfb254 { sym, s2k } => format!("cfb254-sym{sym}-s2k{}", s2k.encode()[0]),
            Prot::Malleable255 { sym, s2k } => format!("cfb255-sym{sym}-s2k{}", s2k.encode()[0]),
            Prot::Legacy { sym } => format!("legacy-sym{sym}"),
            Prot::Aead253 { sym, aead, s2k } => format!("aead253-sym{sym}-aead{aead}-s2k{}", s2k.encode()[0]),
        }
    }
}

/// Reference encoder of the secret part of a Secret-Key packet (RFC 9580 5.5.3) around
/// arbitrary `material`; returns (bytes, length of the parameter region before the blob).
fn protect(sp: &SecPkt, prot: &Prot, material: &[u8], pw: &[u8], rng: &mut ChaCha8Rng) -> Option<(Vec<u8>, usize)> {
    let v6 = sp.version == 6;
    match prot {
        Prot::Plain => {
            let mut o = vec![0u8];
            o.extend_from_slice(material);
            if !v6 {
                o.extend(rfc::sum16(material).to_be_bytes());
            }
            Some((o, 1))
        }
        Prot::Cfb254 { sym, s2k } | Prot::Malleable255 { sym, s2k } => {
            let is254 = matches!(prot, Prot::Cfb254 { .. });
            let bs = rfc::sym::block_size(*sym)?;
            let key = s2k.derive(pw, rfc::sym::key_size(*sym)?)?;
            let iv = rnd_bytes(rng, bs);
            let mut pt = material.to_vec();
            if is254 {
                pt.extend(rfc::hash(2, &[material])?);
            } else {
                pt.extend(rfc::sum16(material).to_be_bytes());
            }
            rfc::sym::cfb_encrypt(*sym, &key, &iv, &mut pt)?;
            let spec = s2k.encode();
            let mut params = vec![*sym];
            if v6 && is254 {
                params.push(spec.len() as u8);
            }
            params.extend(spec);
            params.extend(iv);
            let mut o = vec![if is254 { 254u8 } else { 255 }];
            if v6 {
                o.push(params.len() as u8);
            }
            o.extend(&params);
            let region = o.len();
            o.extend(pt);
            Some((o, region))
        }
        Prot::Legacy { sym } => {
            let bs = rfc::sym::block_size(*sym)?;
            let key = rfc::hash(1, &[pw])?;
            if key.len() != rfc::sym::key_size(*sym)? {
                return None;
            }
            let iv = rnd_bytes(rng, bs);
            let mut pt = material.to_vec();
            pt.extend(rfc::sum16(material).to_be_bytes());
            rfc::sym::cfb_encrypt(*sym, &key, &iv, &mut pt)?;
            let mut o = vec![*sym];
            o.extend(iv);
            let region = o.len();
            o.extend(pt);
            Some((o, region))
        }
        Prot::Aead253 { sym, aead, s2k } => {
            let ks = rfc::sym::key_size(*sym)?;
            let derived = s2k.derive(pw, ks)?;
            let type_id = 0xC0 | sp.tag;
            let info = [type_id, sp.version, *sym, *aead];
            let okm = rfc::sym::hkdf_sha256(None, &derived, &info, 32);
            let nonce = rnd_bytes(rng, rfc::sym::aead_nonce_len(*aead)?);
            let mut ad = vec![type_id];
            ad.extend_from_slice(&sp.pub_body);
            let ct = rfc::sym::aead_seal(*sym, *aead, &okm[..ks], &nonce, &ad, material)?;
            let spec = s2k.encode();
            let mut params = vec![*sym, *aead];
            if v6 {
                params.push(spec.len() as u8);
            }
            params.extend(spec);
            params.extend(nonce);
            let mut o = vec![253u8];
            if v6 {
                o.push(params.len() as u8);
            }
            o.extend(&params);
            let region = o.len();
            o.extend(ct);
            Some((o, region))
        }
    }
}

/// Offset of the S2K specifier inside a secret part (after the public fields), if any.
fn secret_s2k_offset(sec: &[u8], v6: bool) -> Option<usize> {
    let usage = *sec.first()?;
    let mut p = 1usize;
    if v6 && usage != 0 {
        p += 1;
    }
    match usage {
        253 => Some(p + 2 + v6 as usize),
        254 => Some(p + 1 + v6 as usize),
        255 => Some(p + 1),
        _ => None,
    }
}

/// S2K octets whose derivation would be legitimately expensive (not presented, see F3)
fn s2k_bytes_cost_high(b: &[u8], max_count: u8) -> bool {
    s2k_bytes_expensive(b) || (b.first() == Some(&3) && b.len() >= 11 && b[10] > max_count)
}

/// MPI aware and raw hostile variants of genuine secret material.
fn hostile_materials(genuine: &[u8], alg: u8, rng: &mut ChaCha8Rng, thorough: bool) -> Vec<(String, Vec<u8>)> {
    let mut out: Vec<(String, Vec<u8>)> = vec![("genuine".into(), genuine.to_vec())];
    let n = genuine.len();
    // every length 0..n (quick: every length up to 70, then strided)
    for cut in 0..n {
        if !thorough && cut > 70 && cut % 13 != 0 {
            continue;
        }
        out.push((format!("truncate-{}", if cut <= 70 { cut } else { 71 }), genuine[..cut].to_vec()));
    }
    for extra in [1usize, 2, 3, 8, 33] {
        let mut m = genuine.to_vec();
        m.extend(rnd_bytes(rng, extra));
        out.push((format!("trailing-{extra}"), m));
    }
    for fill in [0u8, 0xFF, 0x80, 0x01] {
        out.push((format!("fill-{fill:02x}"), vec![fill; n]));
    }
    for l in [1usize, 2, 3, 31, 32, 33, 56, 57, 58, 64, 66, 114] {
        out.push((format!("random-len-{l}"), rnd_bytes(rng, l)));
        out.push((format!("zero-len-{l}"), vec![0u8; l]));
        out.push((format!("ff-len-{l}"), vec![0xFFu8; l]));
    }
    let mpi_based = matches!(alg, 1 | 2 | 3 | 16 | 17 | 18 | 19 | 20 | 22);
    if mpi_based {
        // split into MPIs
        let mut mpis: Vec<Vec<u8>> = vec![];
        let mut p = 0usize;
        while let Some((v, np)) = rfc::read_mpi(genuine, p) {
            mpis.push(v.to_vec());
            p = np;
            if p >= genuine.len() {
                break;
            }
        }
        let enc = |list: &[Vec<u8>]| -> Vec<u8> {
            let mut o = vec![];
            for m in list {
                o.extend(rfc::mpi(m));
            }
            o
        };
        let raw_mpi = |bits: u16, data: &[u8]| -> Vec<u8> {
            let mut o = bits.to_be_bytes().to_vec();
            o.extend_from_slice(data);
            o
        };
        // MPI count wrong
        for k in 0..mpis.len() {
            out.push((format!("mpi-count-{k}-of-{}", mpis.len()), enc(&mpis[..k])));
        }
        let mut more = mpis.clone();
        if let Some(f) = mpis.first() {
            more.push(f.clone());
        }
        out.push(("mpi-count-plus-1".into(), enc(&more)));
        for (k, m) in mpis.iter().enumerate() {
            let rest_before = enc(&mpis[..k]);
            let rest_after = enc(&mpis[k + 1..]);
            let mut variants: Vec<(String, Vec<u8>)> = vec![
                ("zero-bits".into(), raw_mpi(0, &[])),
                ("one".into(), raw_mpi(1, &[1])),
                ("two".into(), raw_mpi(2, &[2])),
                ("zero-octet-bits8".into(), raw_mpi(8, &[0])),
                ("allff".into(), rfc::mpi(&vec![0xFFu8; m.len()])),
                ("allff-plus-1-octet".into(), rfc::mpi(&vec![0xFFu8; m.len() + 1])),
                ("leading-zero-octets".into(), raw_mpi((m.len() as u16 + 2) * 8, &[&[0u8, 0][..], &m[..]].concat())),
                ("bits-lie-more".into(), raw_mpi((m.len() as u16 + 4) * 8, m)),
                ("bits-lie-less".into(), raw_mpi(((m.len() as u16).saturating_sub(2)) * 8, m)),
                ("bits-ffff".into(), raw_mpi(0xFFFF, m)),
                ("bits-16385".into(), raw_mpi(16385, &vec![0x55u8; 2049])),
                ("bits-16384".into(), raw_mpi(16384, &vec![0x95u8; 2048])),
                ("half".into(), rfc::mpi(&m[..m.len() / 2])),
                ("double".into(), rfc::mpi(&[&m[..], &m[..]].concat())),
                ("plus-one-octet".into(), rfc::mpi(&[&[1u8][..], &m[..]].concat())),
                ("random-same-len".into(), rfc::mpi(&rnd_bytes(rng, m.len()))),
                ("even-low-bit-cleared".into(), {
                    let mut x = m.clone();
                    if let Some(l) = x.last_mut() {
                        *l &= 0xFE;
                    }
                    rfc::mpi(&x)
                }),
            ];
            // every octet length 0..=8 and around typical scalar sizes
            for l in [0usize, 1, 2, 3, 4, 5, 6, 7, 8, 20, 28, 31, 32, 33, 47, 48, 49, 56, 57, 65, 66, 67, 127, 128, 129] {
                variants.push((format!("len-class-{}", l.min(9)), rfc::mpi(&{
                    let mut r = rnd_bytes(rng, l);
                    if let Some(f) = r.first_mut() {
                        *f |= 0x80;
                    }
                    r
                })));
            }
            for (vn, v) in variants {
                let mut o = rest_before.clone();
                o.extend(v);
                o.extend(&rest_after);
                out.push((format!("mpi{k}-{vn}"), o));
            }
        }
        if mpis.len() >= 3 {
            // RSA relations: p = q, swapped p/q, d = 0 .. handled above; equal primes:
            let mut l = mpis.clone();
            l[2] = l[1].clone();
            out.push(("rsa-p-equals-q".into(), enc(&l)));
            let mut l = mpis.clone();
            l.swap(1, 2);
            out.push(("rsa-p-q-swapped".into(), enc(&l)));
            let mut l = mpis.clone();
            l[1] = vec![4];
            l[2] = vec![6];
            out.push(("rsa-small-composite-primes".into(), enc(&l)));
        }
    }
    out
}

fn secret_key_is_cheap(sp: &pgp::types::SecretParams, max_count: u8) -> bool {
    match sp {
        pgp::types::SecretParams::Plain(_) => true,
        pgp::types::SecretParams::Encrypted(e) => match e.string_to_key_params() {
            S2kParams::Aead { s2k, .. } | S2kParams::Cfb { s2k, .. } | S2kParams::MalleableCfb { s2k, .. } => {
                !s2k_expensive(s2k, max_count)
            }
            _ => true,
        },
    }
}

fn drive_tsk(bytes: &[u8], variant: u64, light: bool) -> Obs {
    let mut o = Obs::default();
    let pws = [Password::from(PW), Password::empty()];
    match SignedSecretKey::from_bytes(bytes) {
        Ok(k) => exercise_secret_key_opts(&k, &pws, variant, light, 0x90, &mut o),
        Err(_) => o.errs += 1,
    }
    o
}

fn f4(ctx: &mut Ctx, env: &Env) {
    let pw = PW.as_bytes();
    let salt8 = [0xC1u8, 2, 3, 4, 5, 6, 7, 8];
    let salt16 = [0xD1u8; 16];
    // keys: every signer algorithm + every encryption subkey algorithm
    let mut tsks: Vec<(Tsk, &SignedSecretKey)> = vec![];
    for (name, sk, _) in &env.signers {
        if let Some(t) = Tsk::from_key(name, sk) {
            tsks.push((t, sk));
        }
    }
    for r in &env.recipients {
        if let Some(t) = Tsk::from_key(&format!("enc-{}", r.name), &r.sk) {
            tsks.push((t, &r.sk));
        }
    }
    if tsks.len() < 20 {
        ctx.inconclusive(format!("F4: only {} zoo keys could be taken apart", tsks.len()));
    }

    // ---- F4a parameter octets of locked keys
    let iter0 = RefS2k::Iterated { hash: 8, salt: salt8, count: 0 };
    let prots: Vec<Prot> = vec![
        Prot::Cfb254 { sym: 7, s2k: iter0.clone() },
        Prot::Cfb254 { sym: 9, s2k: RefS2k::Salted { hash: 10, salt: salt8 } },
        Prot::Aead253 { sym: 7, aead: 2, s2k: RefS2k::Argon2 { salt: salt16, t: 1, p: 1, m: 6 } },
        Prot::Aead253 { sym: 9, aead: 1, s2k: iter0.clone() },
        Prot::Aead253 { sym: 8, aead: 3, s2k: iter0.clone() },
        Prot::Malleable255 { sym: 7, s2k: iter0.clone() },
        Prot::Malleable255 { sym: 3, s2k: RefS2k::Simple { hash: 2 } },
        Prot::Legacy { sym: 7 },
        Prot::Legacy { sym: 3 },
    ];
    let sweep_keys: Vec<usize> = {
        // a spread of algorithms / versions; thorough: all
        let want = ["v4-Ed25519Legacy", "v6-Ed25519", "v4-EcdsaP256", "v4-Rsa2048", "v6-Ed448", "enc-v4-EcdhCv25519", "enc-v6-X25519", "enc-v6-X448", "enc-v4-EcdhP384"];
        tsks.iter()
            .enumerate()
            .filter(|(_, (t, _))| !ctx.quick() || want.contains(&t.name.as_str()))
            .map(|(i, _)| i)
            .collect()
    };
    for &ti in &sweep_keys {
        let (t, _) = &tsks[ti];
        for (which, sp) in t.secs.iter().enumerate() {
            // enc-* keys: only the subkey is interesting (primary is covered by the signer keys)
            if t.name.starts_with("enc-") && which == 0 {
                continue;
            }
            if !t.name.starts_with("enc-") && which > 0 {
                continue;
            }
            for (pi, prot) in prots.iter().enumerate() {
                if sp.version == 6 && matches!(prot, Prot::Malleable255 { .. } | Prot::Legacy { .. }) && pi % 2 == 1 {
                    continue; // one representative of the v6-illegal usages is enough
                }
                let mut rng0 = Ctx::fixed_rng("F4a", (ti as u64) << 16 | (which as u64) << 8 | pi as u64);
                let Some((sec, region)) = protect(sp, prot, &sp.material, pw, &mut rng0) else {
                    ctx.inconclusive(format!("F4a: reference cannot protect {} with {}", t.name, prot.name()));
                    continue;
                };
                // sanity: the reference-locked key unlocks with the password (where the library
                // supports the combination: v6 refuses 255/legacy, Argon2 only with AEAD)
                {
                    let bytes = t.with_secret(which, &sec);
                    let r = core::guard(|| {
                        let k = SignedSecretKey::from_bytes(&bytes[..]).ok()?;
                        let pwd = Password::from(PW);
                        let ok = if which == 0 {
                            k.primary_key.unlock(&pwd, |_, _| Ok(())).ok()?.is_ok()
                        } else {
                            k.secret_subkeys.get(which - 1)?.key.unlock(&pwd, |_, _| Ok(())).ok()?.is_ok()
                        };
                        Some(ok)
                    });
                    match r {
                        Ok(Some(true)) => ctx.tally("F4a.base_unlocks", 1),
                        _ => {
                            let expected_refusal = sp.version == 6 && matches!(prot, Prot::Malleable255 { .. } | Prot::Legacy { .. });
                            if expected_refusal {
                                ctx.tally("F4a.base_refused_v6_legacy_usage", 1);
                            } else {
                                ctx.inconclusive(format!("F4a: reference-locked {} {} does not unlock", t.name, prot.name()));
                            }
                        }
                    }
                }
                for off in 0..region.min(sec.len()) {
                    if !ctx.mine() {
                        continue;
                    }
                    let mut obs = Obs::default();
                    for v in 0..=255u16 {
                        let v = v as u8;
                        if v == sec[off] {
                            continue;
                        }
                        let mut s2 = sec.clone();
                        s2[off] = v;
                        if let Some(so) = secret_s2k_offset(&s2, sp.version == 6) {
                            if s2k_bytes_cost_high(s2.get(so..).unwrap_or(&[]), 0x60) {
                                ctx.tally("F4a.skipped_expensive_kdf", 1);
                                continue;
                            }
                        }
                        let bytes = t.with_secret(which, &s2);
                        ctx.cover(&("F4a", &t.name, which, pi, off, v));
                        let desc = format!("F4a:{}/pkt{which}/{}/patch-off={off}", t.name, prot.name());
                        let light = v % 16 != 0;
                        let o = run_case(
                            ctx,
                            "F4",
                            &desc,
                            || json!({"api": "SignedSecretKey::from_bytes -> unlock/sign/decrypt/verify_bindings/to_bytes", "input": hexs(&bytes), "password": PW, "patched_secret_part_offset": off, "value": v}),
                            || drive_tsk(&bytes, v as u64, light),
                        );
                        if let Some(o) = o {
                            obs.merge(&o);
                        }
                    }
                    obs.tally(ctx, "F4a");
                    if off == 0 {
                        ctx.seen("F4a.usage_sweep", format!("{}-{}", t.name, prot.name()));
                    }
                }
                // truncation of the secret part at every length
                if !ctx.mine() {
                    continue;
                }
                let mut obs = Obs::default();
                for cut in 0..sec.len() {
                    if ctx.quick() && cut > region + 40 && cut % 7 != 0 {
                        continue;
                    }
                    let bytes = t.with_secret(which, &sec[..cut]);
                    ctx.cover(&("F4a-trunc", &t.name, which, pi, cut));
                    let desc = format!("F4a:{}/pkt{which}/{}/truncate={}", t.name, prot.name(), cut.min(region + 41));
                    let o = run_case(
                        ctx,
                        "F4",
                        &desc,
                        || json!({"api": "SignedSecretKey::from_bytes -> unlock/sign/decrypt/verify_bindings/to_bytes", "input": hexs(&bytes), "password": PW}),
                        || drive_tsk(&bytes, cut as u64, true),
                    );
                    if let Some(o) = o {
                        obs.merge(&o);
                    }
                }
                obs.tally(ctx, "F4a");
            }
        }
    }

    // ---- F4a' keys locked by the library itself (set_password_with_s2k), then patched
    {
        let lib_params = |rng: &mut ChaCha8Rng, v6: bool| -> Vec<(String, S2kParams)> {
            let mut salt = [0u8; 8];
            rng.fill_bytes(&mut salt);
            let mut salt16b = [0u8; 16];
            rng.fill_bytes(&mut salt16b);
            let mut v = vec![
                (
                    "lib-cfb-aes128-iter".to_string(),
                    S2kParams::Cfb {
                        sym_alg: SymmetricKeyAlgorithm::AES128,
                        s2k: StringToKey::IteratedAndSalted { hash_alg: HashAlgorithm::Sha256, salt, count: 0 },
                        iv: rnd_bytes(rng, 16).into(),
                    },
                ),
                (
                    "lib-aead-aes256-ocb-argon2".to_string(),
                    S2kParams::Aead {
                        sym_alg: SymmetricKeyAlgorithm::AES256,
                        aead_mode: AeadAlgorithm::Ocb,
                        s2k: StringToKey::Argon2 { salt: salt16b, t: 1, p: 1, m_enc: 6 },
                        nonce: rnd_bytes(rng, 15).into(),
                    },
                ),
                (
                    "lib-aead-aes128-gcm-iter".to_string(),
                    S2kParams::Aead {
                        sym_alg: SymmetricKeyAlgorithm::AES128,
                        aead_mode: AeadAlgorithm::Gcm,
                        s2k: StringToKey::IteratedAndSalted { hash_alg: HashAlgorithm::Sha512, salt, count: 1 },
                        nonce: rnd_bytes(rng, 12).into(),
                    },
                ),
            ];
            if !v6 {
                v.push((
                    "lib-cfb-cast5-salted".to_string(),
                    S2kParams::Cfb {
                        sym_alg: SymmetricKeyAlgorithm::CAST5,
                        s2k: StringToKey::Salted { hash_alg: HashAlgorithm::Sha256, salt },
                        iv: rnd_bytes(rng, 8).into(),
                    },
                ));
            }
            v
        };
        let lib_keys: Vec<usize> = tsks
            .iter()
            .enumerate()
            .filter(|(_, (t, _))| ["v4-Ed25519Legacy", "v6-Ed25519", "enc-v4-EcdhP256", "enc-v6-X25519", "v4-Dsa2048"].contains(&t.name.as_str()) || !ctx.quick())
            .map(|(i, _)| i)
            .collect();
        for &ti in &lib_keys {
            let (t, key) = &tsks[ti];
            let v6 = t.secs.first().map(|s| s.version == 6).unwrap_or(false);
            let mut rng0 = Ctx::fixed_rng("F4lib", ti as u64);
            for (pname, params) in lib_params(&mut rng0, v6) {
                let mut k = (*key).clone();
                let pwd = Password::from(PW);
                let which = if t.name.starts_with("enc-") { 1usize } else { 0 };
                let r = if which == 0 {
                    k.primary_key.set_password_with_s2k(&pwd, params.clone())
                } else {
                    match k.secret_subkeys.get_mut(0) {
                        Some(s) => s.key.set_password_with_s2k(&pwd, params.clone()),
                        None => continue,
                    }
                };
                if r.is_err() {
                    ctx.inconclusive(format!("F4lib: set_password_with_s2k({pname}) failed for {}", t.name));
                    continue;
                }
                let Ok(bytes0) = k.to_bytes() else { continue };
                let Ok(raw) = rfc::frame::deframe(&bytes0) else { continue };
                let Some(sp) = t.secs.get(which) else { continue };
                let Some(rp) = raw.get(sp.idx) else { continue };
                let pl = sp.pub_body.len();
                if rp.body.len() <= pl {
                    continue;
                }
                let sec = rp.body[pl..].to_vec();
                // parameter region: everything up to the encrypted blob; take the first 48 octets
                // (usage, lengths, cipher, aead, S2K, IV/nonce all lie within)
                let region = sec.len().min(48);
                ctx.tally("F4lib.bases", 1);
                for off in 0..region {
                    if !ctx.mine() {
                        continue;
                    }
                    let mut obs = Obs::default();
                    for v in 0..=255u16 {
                        let v = v as u8;
                        if v == sec[off] {
                            continue;
                        }
                        let mut s2 = sec.clone();
                        s2[off] = v;
                        if let Some(so) = secret_s2k_offset(&s2, v6) {
                            if s2k_bytes_cost_high(s2.get(so..).unwrap_or(&[]), 0x60) {
                                ctx.tally("F4lib.skipped_expensive_kdf", 1);
                                continue;
                            }
                        }
                        let bytes = t.with_secret(which, &s2);
                        ctx.cover(&("F4lib", &t.name, &pname, off, v));
                        let desc = format!("F4lib:{}/pkt{which}/{pname}/patch-off={off}", t.name);
                        let o = run_case(
                            ctx,
                            "F4",
                            &desc,
                            || json!({"api": "SignedSecretKey::from_bytes -> unlock/sign/decrypt/verify_bindings/to_bytes", "input": hexs(&bytes), "password": PW, "patched_secret_part_offset": off, "value": v}),
                            || drive_tsk(&bytes, v as u64, v % 16 != 0),
                        );
                        if let Some(o) = o {
                            obs.merge(&o);
                        }
                    }
                    obs.tally(ctx, "F4lib");
                }
            }
        }
    }

    // ---- F4b attacker-chosen secret material behind valid protection
    let prots_b: Vec<Prot> = vec![
        Prot::Plain,
        Prot::Cfb254 { sym: 7, s2k: iter0.clone() },
        Prot::Aead253 { sym: 7, aead: 2, s2k: iter0.clone() },
        Prot::Malleable255 { sym: 7, s2k: iter0.clone() },
        Prot::Legacy { sym: 7 },
    ];
    for (ti, (t, _)) in tsks.iter().enumerate() {
        for (which, sp) in t.secs.iter().enumerate() {
            if t.name.starts_with("enc-") && which == 0 {
                continue;
            }
            let mut rng0 = Ctx::fixed_rng("F4b", (ti as u64) << 8 | which as u64);
            let mats = hostile_materials(&sp.material, sp.alg, &mut rng0, !ctx.quick());
            ctx.tally("F4b.materials", mats.len() as u64);
            for (mi, (mname, mat)) in mats.iter().enumerate() {
                if !ctx.mine() {
                    continue;
                }
                let mut rng = ctx.rng("F4b", (ti as u64) << 24 | (which as u64) << 16 | mi as u64);
                let mut obs = Obs::default();
                for (pi, prot) in prots_b.iter().enumerate() {
                    if sp.version == 6 && pi >= 3 {
                        continue;
                    }
                    // quick: the plain form for every variant, protected forms for a rotating one
                    if ctx.quick() && pi != 0 && (mi + pi) % 3 != 0 {
                        continue;
                    }
                    let Some((sec, _)) = protect(sp, prot, mat, pw, &mut rng) else { continue };
                    let bytes = t.with_secret(which, &sec);
                    ctx.cover(&("F4b", &t.name, which, mname, pi));
                    let desc = format!("F4b:{}/pkt{which}/alg={}/{}/material={mname}", t.name, sp.alg, prot.name());
                    let o = run_case(
                        ctx,
                        "F4",
                        &desc,
                        || json!({"api": "SignedSecretKey::from_bytes -> unlock/sign/decrypt/verify_bindings/to_bytes", "input": hexs(&bytes), "password": PW, "secret_material": hexs(mat)}),
                        || drive_tsk(&bytes, mi as u64, mi % 8 != 0),
                    );
                    if let Some(o) = o {
                        if mname == "genuine" && o.signed == 0 && o.decrypted == 0 {
                            let refused = sp.version == 6 && pi >= 3;
                            if !refused {
                                ctx.inconclusive(format!("F4b: genuine material of {} under {} neither signs nor decrypts", t.name, prot.name()));
                            }
                        }
                        obs.merge(&o);
                    }
                }
                obs.tally(ctx, "F4b");
            }
            ctx.seen("F4b.algorithms", format!("{}-alg{}-v{}", if which == 0 { "primary" } else { "subkey" }, sp.alg, sp.version));
        }
    }
}

// ------------------------------------------------------------------------------------------
// F4c: certificates whose self-signatures verify although their subpacket areas are hostile

fn f4c(ctx: &mut Ctx) {
    for v6 in [false, true] {
        let alg = if v6 { zoo::Alg::Ed25519 } else { zoo::Alg::Ed25519Legacy };
        let mut spec = zoo::Spec::simple(v6, alg.clone(), None);
        spec.sign_sub = Some(alg);
        let key = zoo::key(&spec, 0);
        let kname = if v6 { "v6-Ed25519+signing-subkey" } else { "v4-Ed25519Legacy+signing-subkey" };
        let Ok(bytes) = key.to_bytes() else { continue };
        let Ok(raw) = rfc::frame::deframe(&bytes) else { continue };
        let Some(ui) = raw.iter().position(|p| p.tag == 13) else { continue };
        let Some(si) = raw.iter().position(|p| p.tag == 7) else { continue };
        if ui + 1 >= raw.len() || si + 1 >= raw.len() || raw[ui + 1].tag != 2 || raw[si + 1].tag != 2 {
            ctx.inconclusive("F4c: unexpected packet layout of the generated key");
            continue;
        }
        let Ok(cert_sig) = rfc::sig::parse_sig(&raw[ui + 1].body) else { continue };
        let Ok(bind_sig) = rfc::sig::parse_sig(&raw[si + 1].body) else { continue };
        let Some(sub) = key.secret_subkeys.first() else { continue };
        let Ok(prim_pub) = key.primary_key.public_key().to_bytes() else { continue };
        let Ok(sub_pub) = sub.key.public_key().to_bytes() else { continue };
        let kf = rfc::sig::key_hash_framing(&prim_pub);
        let sf = rfc::sig::key_hash_framing(&sub_pub);
        let uf = rfc::sig::uid_hash_framing(if v6 { 6 } else { 4 }, false, &raw[ui].body);
        let assemble = |cert: Option<Vec<u8>>, bind: Option<Vec<u8>>, secret: bool| -> Vec<u8> {
            let mut out = vec![];
            for (i, p) in raw.iter().enumerate() {
                let mut tag = p.tag;
                let mut body = p.body.clone();
                if i == ui + 1 {
                    if let Some(c) = &cert {
                        body = c.clone();
                    }
                }
                if i == si + 1 {
                    if let Some(b) = &bind {
                        body = b.clone();
                    }
                }
                if !secret {
                    if tag == 5 {
                        tag = 6;
                        body = prim_pub.clone();
                    } else if tag == 7 {
                        tag = 14;
                        body = sub_pub.clone();
                    }
                }
                out.extend(pkt(tag, &body));
            }
            out
        };
        // sanity: re-signing with the genuine areas verifies
        {
            let mut rng = Ctx::fixed_rng("F4c", v6 as u64);
            let c = crafted_sig_over(&key.primary_key, cert_sig.typ, &[&kf, &uf], cert_sig.hashed.clone(), cert_sig.unhashed.clone(), &mut rng);
            let b = crafted_sig_over(&key.primary_key, 0x18, &[&kf, &sf], bind_sig.hashed.clone(), bind_sig.unhashed.clone(), &mut rng);
            let ok = match (c, b) {
                (Some(c), Some(b)) => {
                    let t = assemble(Some(c), Some(b), false);
                    matches!(core::guard(|| SignedPublicKey::from_bytes(&t[..]).ok().map(|k| k.verify_bindings().is_ok())), Ok(Some(true)))
                }
                _ => false,
            };
            if ok {
                ctx.tally("F4c.base_verifies", 1);
            } else {
                ctx.inconclusive(format!("F4c: re-signed base certificate {kname} does not verify"));
            }
        }
        // the embedded back signature of the genuine binding (hashed or unhashed area)
        let genuine_embedded: Vec<u8> = rfc::sig::parse_subpackets(&bind_sig.hashed)
            .ok()
            .into_iter()
            .flatten()
            .chain(rfc::sig::parse_subpackets(&bind_sig.unhashed).ok().into_iter().flatten())
            .find(|sp| sp.typ == 32)
            .map(|sp| sp.body)
            .unwrap_or_default();
        for id in 0..=127u8 {
            if !ctx.mine() {
                continue;
            }
            let mut rng = ctx.rng("F4c", (v6 as u64) << 8 | id as u64);
            let mut obs = Obs::default();
            let typical: usize = match id {
                2 | 3 | 9 => 4,
                4 | 7 | 25 => 1,
                5 => 2,
                12 => 22,
                16 => 8,
                27 | 30 => 1,
                33 | 35 => if v6 { 33 } else { 21 },
                _ => 5,
            };
            for blen in [0usize, 1, 2, 3, typical, typical + 1, 40] {
                for critical in [false, true] {
                    let sp = raw_subpacket(id, critical, &rnd_bytes(&mut rng, blen));
                    for target in 0..4u8 {
                        // 0: uid certification hashed (appended), 1: uid certification unhashed,
                        // 2: subkey binding hashed (appended), 3: replaces the whole hashed area
                        let (cert, bind) = match target {
                            0 => (crafted_sig_over(&key.primary_key, cert_sig.typ, &[&kf, &uf], [cert_sig.hashed.clone(), sp.clone()].concat(), cert_sig.unhashed.clone(), &mut rng), None),
                            1 => (crafted_sig_over(&key.primary_key, cert_sig.typ, &[&kf, &uf], cert_sig.hashed.clone(), [cert_sig.unhashed.clone(), sp.clone()].concat(), &mut rng), None),
                            2 => (None, crafted_sig_over(&key.primary_key, 0x18, &[&kf, &sf], [bind_sig.hashed.clone(), sp.clone()].concat(), bind_sig.unhashed.clone(), &mut rng)),
                            _ => (crafted_sig_over(&key.primary_key, cert_sig.typ, &[&kf, &uf], sp.clone(), vec![], &mut rng), None),
                        };
                        if cert.is_none() && bind.is_none() {
                            continue;
                        }
                        let secret = (blen + target as usize) % 2 == 0;
                        let t = assemble(cert, bind, secret);
                        ctx.cover(&("F4c", v6, id, blen, critical, target));
                        let desc = format!("F4c:{kname}/subpacket-id={id}/len-class={}/critical={critical}/target={target}", if blen == typical { 9 } else { blen.min(8) });
                        let o = run_case(
                            ctx,
                            "F4",
                            &desc,
                            || json!({"api": "Signed{Public,Secret}Key::from_bytes -> verify_bindings / accessors / to_bytes", "input": hexs(&t)}),
                            || {
                                let mut o = Obs::default();
                                if secret {
                                    match SignedSecretKey::from_bytes(&t[..]) {
                                        Ok(k) => exercise_secret_key_opts(&k, &[Password::empty()], 1, false, 0x60, &mut o),
                                        Err(_) => o.errs += 1,
                                    }
                                } else {
                                    match SignedPublicKey::from_bytes(&t[..]) {
                                        Ok(k) => exercise_public_key(&k, &mut o),
                                        Err(_) => o.errs += 1,
                                    }
                                }
                                o
                            },
                        );
                        if let Some(o) = o {
                            obs.merge(&o);
                        }
                    }
                }
            }
            obs.tally(ctx, "F4c");
            ctx.seen("F4c.subpacket_ids", format!("v{}-{id}", if v6 { 6 } else { 4 }));
        }
        // embedded (back) signature variations in the subkey binding
        let variants: Vec<(&str, Vec<u8>)> = vec![
            ("genuine", genuine_embedded.clone()),
            ("empty", vec![]),
            ("one-octet", vec![4]),
            ("garbage", vec![4, 0x19, 22, 8, 0, 0]),
            ("truncated-half", genuine_embedded[..genuine_embedded.len() / 2].to_vec()),
            ("wrong-type-0x18", {
                let mut g = genuine_embedded.clone();
                if g.len() > 1 {
                    g[1] = 0x18;
                }
                g
            }),
            ("version-3", {
                let mut g = genuine_embedded.clone();
                if !g.is_empty() {
                    g[0] = 3;
                }
                g
            }),
            ("version-255", {
                let mut g = genuine_embedded.clone();
                if !g.is_empty() {
                    g[0] = 255;
                }
                g
            }),
            ("nested-10", nested_embedded_sig(10, v6, true)),
            ("nested-200", nested_embedded_sig(200, v6, false)),
            ("back-sig-with-hostile-subpacket", {
                let mut rng = Ctx::fixed_rng("F4c-back", v6 as u64);
                crafted_sig_over(&sub.key, 0x19, &[&kf, &sf], [rfc::sig::encode_subpacket(2, false, &[0x65, 0, 0, 0], 0), raw_subpacket(27, true, &[])].concat(), vec![], &mut rng).unwrap_or_default()
            }),
            ("back-sig-by-primary", {
                let mut rng = Ctx::fixed_rng("F4c-back2", v6 as u64);
                crafted_sig_over(&key.primary_key, 0x19, &[&kf, &sf], rfc::sig::encode_subpacket(2, false, &[0x65, 0, 0, 0], 0), vec![], &mut rng).unwrap_or_default()
            }),
        ];
        for (vn, emb) in &variants {
            if !ctx.mine() {
                continue;
            }
            let mut rng = ctx.rng("F4c-emb", v6 as u64);
            let mut obs = Obs::default();
            // remove the genuine embedded signature from both areas, then add the variant
            let strip = |area: &[u8]| -> Vec<u8> {
                let mut o = vec![];
                for sp in rfc::sig::parse_subpackets(area).ok().into_iter().flatten() {
                    if sp.typ != 32 {
                        o.extend(raw_subpacket(sp.typ, sp.critical, &sp.body));
                    }
                }
                o
            };
            for (place, critical, times) in [("hashed", false, 1usize), ("hashed", true, 1), ("unhashed", false, 1), ("hashed", false, 3), ("both", false, 1)] {
                let mut h = strip(&bind_sig.hashed);
                let mut u = strip(&bind_sig.unhashed);
                for _ in 0..times {
                    let sp = raw_subpacket(32, critical, emb);
                    match place {
                        "hashed" => h.extend(sp),
                        "unhashed" => u.extend(sp),
                        _ => {
                            h.extend(sp.clone());
                            u.extend(sp);
                        }
                    }
                }
                let Some(b) = crafted_sig_over(&key.primary_key, 0x18, &[&kf, &sf], h, u, &mut rng) else { continue };
                for secret in [false, true] {
                    let t = assemble(None, Some(b.clone()), secret);
                    ctx.cover(&("F4c-emb", v6, vn, place, critical, times, secret));
                    let desc = format!("F4c:{kname}/embedded-signature={vn}/{place}/critical={critical}/x{times}/secret={secret}");
                    let o = run_case(
                        ctx,
                        "F4",
                        &desc,
                        || json!({"api": "Signed{Public,Secret}Key::from_bytes -> verify_bindings / accessors / to_bytes", "input": hexs(&t)}),
                        || {
                            let mut o = Obs::default();
                            if secret {
                                match SignedSecretKey::from_bytes(&t[..]) {
                                    Ok(k) => exercise_secret_key_opts(&k, &[Password::empty()], 1, false, 0x60, &mut o),
                                    Err(_) => o.errs += 1,
                                }
                            } else {
                                match SignedPublicKey::from_bytes(&t[..]) {
                                    Ok(k) => exercise_public_key(&k, &mut o),
                                    Err(_) => o.errs += 1,
                                }
                            }
                            o
                        },
                    );
                    if let Some(o) = o {
                        if *vn == "genuine" && place == "hashed" && !critical && times == 1 && o.verified_err > 0 && o.verified_ok == 0 {
                            ctx.tally("F4c.genuine_embedded_not_verified", 1);
                        }
                        obs.merge(&o);
                    }
                }
            }
            obs.tally(ctx, "F4c");
        }
    }
}

// ------------------------------------------------------------------------------------------
// F5: attacker-chosen inner packet streams behind valid encryption / compression

fn compress(algo: u8, data: &[u8]) -> Vec<u8> {
    use std::io::Write;
    let mut body = vec![algo];
    match algo {
        1 => {
            let mut e = flate2::write::DeflateEncoder::new(Vec::new(), flate2::Compression::fast());
            let _ = e.write_all(data);
            body.extend(e.finish().unwrap_or_default());
        }
        2 => {
            let mut e = flate2::write::ZlibEncoder::new(Vec::new(), flate2::Compression::fast());
            let _ = e.write_all(data);
            body.extend(e.finish().unwrap_or_default());
        }
        _ => body.extend_from_slice(data),
    }
    body
}

/// stored (level 0) deflate: nesting stays linear in size (level 1 expands incompressible input)
fn compress_stored(algo: u8, data: &[u8]) -> Vec<u8> {
    use std::io::Write;
    let mut body = vec![algo];
    match algo {
        1 => {
            let mut e = flate2::write::DeflateEncoder::new(Vec::new(), flate2::Compression::none());
            let _ = e.write_all(data);
            body.extend(e.finish().unwrap_or_default());
        }
        2 => {
            let mut e = flate2::write::ZlibEncoder::new(Vec::new(), flate2::Compression::none());
            let _ = e.write_all(data);
            body.extend(e.finish().unwrap_or_default());
        }
        _ => body.extend_from_slice(data),
    }
    body
}

fn compressed_pkt(algo: u8, data: &[u8]) -> Vec<u8> {
    pkt(8, &compress(algo, data))
}

/// A v4 / v6 document signature that *verifies* although its subpacket areas are arbitrary
/// octets: the digest is computed by the reference over the crafted hashed area and signed raw.
fn crafted_signature(
    signer: &SignedSecretKey,
    doc: &[u8],
    typ: u8,
    hashed: Vec<u8>,
    unhashed: Vec<u8>,
    salt: Vec<u8>,
) -> Option<(Vec<u8>, rfc::sig::RefSig)> {
    crafted_signature_h(signer, doc, typ, hashed, unhashed, salt, None)
}

/// `hash`: Some(id) overrides the default hash (SHA-256 for v4, SHA-512 for v6)
fn crafted_signature_h(
    signer: &SignedSecretKey,
    doc: &[u8],
    typ: u8,
    hashed: Vec<u8>,
    unhashed: Vec<u8>,
    salt: Vec<u8>,
    hash: Option<u8>,
) -> Option<(Vec<u8>, rfc::sig::RefSig)> {
    let v6 = u8::from(signer.version()) == 6;
    let mut rs = rfc::sig::RefSig {
        version: if v6 { 6 } else { 4 },
        typ,
        pub_alg: u8::from(signer.algorithm()),
        hash_alg: hash.unwrap_or(if v6 { 10 } else { 8 }),
        created: 0,
        issuer: [0u8; 8],
        hashed,
        unhashed,
        left16: [0, 0],
        salt,
        sig_data: vec![],
        off_hashed: 0,
        off_unhashed: 0,
off_left16: 0,
        off_salt: 0,
        off_sig: 0,
    };
    let digest = rs.digest_document(doc)?;
    rs.left16 = [digest[0], digest[1]];
    let ha = match hash { Some(h) => HashAlgorithm::from(h), None => if v6 { HashAlgorithm::Sha512 } else { HashAlgorithm::Sha256 } };
    let sb = signer.primary_key.sign(&Password::empty(), ha, &digest).ok()?;
    let mut data = vec![];
    match &sb {
        pgp::types::SignatureBytes::Mpis(m) => {
            for x in m {
                data.extend(x.to_bytes().ok()?);
            }
        }
        pgp::types::SignatureBytes::Native(b) => data.extend_from_slice(b),
    }
    rs.sig_data = data;
    Some((rs.encode(), rs))
}

/// Like `crafted_signature`, over arbitrary pre-framed content (key / user id framing), signed
/// raw with `key`.
#[allow(clippy::too_many_arguments)]
fn crafted_sig_over(
    key: &dyn SigningKey,
    typ: u8,
    content: &[&[u8]],
    hashed: Vec<u8>,
    unhashed: Vec<u8>,
    rng: &mut ChaCha8Rng,
) -> Option<Vec<u8>> {
    let v6 = u8::from(key.version()) == 6;
    let mut rs = rfc::sig::RefSig {
        version: if v6 { 6 } else { 4 },
        typ,
        pub_alg: u8::from(key.algorithm()),
        hash_alg: if v6 { 10 } else { 8 },
        created: 0,
        issuer: [0u8; 8],
        hashed,
        unhashed,
        left16: [0, 0],
        salt: if v6 { rnd_bytes(rng, 32) } else { vec![] },
        sig_data: vec![],
        off_hashed: 0,
        off_unhashed: 0,
        off_left16: 0,
        off_salt: 0,
        off_sig: 0,
    };
    let digest = rs.digest_over(content)?;
    rs.left16 = [digest[0], digest[1]];
    let ha = if v6 { HashAlgorithm::Sha512 } else { HashAlgorithm::Sha256 };
    let sb = key.sign(&Password::empty(), ha, &digest).ok()?;
    let mut data = vec![];
    match &sb {
        pgp::types::SignatureBytes::Mpis(m) => {
            for x in m {
                data.extend(x.to_bytes().ok()?);
            }
        }
        pgp::types::SignatureBytes::Native(b) => data.extend_from_slice(b),
    }
    rs.sig_data = data;
    Some(rs.encode())
}

/// raw subpacket with the minimal length form that fits (no assertions)
fn raw_subpacket(id: u8, critical: bool, body: &[u8]) -> Vec<u8> {
    let len = body.len() + 1;
    let mut o = vec![];
    if len < 192 {
        o.push(len as u8);
    } else if len < 16320 {
        let v = len - 192;
        o.push((v >> 8) as u8 + 192);
        o.push(v as u8);
    } else {
        o.push(255);
        o.extend((len as u32).to_be_bytes());
    }
    o.push(id | if critical { 0x80 } else { 0 });
    o.extend_from_slice(body);
    o
}

/// `depth` signatures nested through Embedded Signature subpackets (v4: 2-octet area lengths,
/// v6: 4-octet). Not cryptographically valid; the parser recursion is what is exercised.
fn nested_embedded_sig(depth: usize, v6: bool, hashed_area: bool) -> Vec<u8> {
    nested_embedded_sig_shape(depth, v6, hashed_area, 0)
}

/// `siblings`: 0 = plain chain; 1 = every level carries a complete leaf Embedded Signature subpacket in
/// front of the one that continues the nesting; 2 = behind it; 3 = both
fn nested_embedded_sig_shape(depth: usize, v6: bool, hashed_area: bool, siblings: u8) -> Vec<u8> {
    let mpis = [0u8, 1, 1, 0, 1, 1];
    let mut inner: Vec<u8> = if v6 {
        let mut b = vec![6u8, 0x19, 27, 10, 0, 0, 0, 0, 0, 0, 0, 0, 0xAA, 0xBB, 32];
        b.extend_from_slice(&[0x11; 32]);
        b.extend_from_slice(&[0x22; 64]);
        b
    } else {
        let mut b = vec![4u8, 0x19, 22, 8, 0, 0, 0, 0, 0xAA, 0xBB];
        b.extend_from_slice(&mpis);
        b
    };
    let leaf = raw_subpacket(32, false, &inner);
    for _ in 0..depth {
        let mut sp = vec![];
        if siblings & 1 != 0 {
            sp.extend_from_slice(&leaf);
        }
        sp.extend(raw_subpacket(32, false, &inner));
        if siblings & 2 != 0 {
            sp.extend_from_slice(&leaf);
        }
        let (h, u): (&[u8], &[u8]) = if hashed_area { (&sp, &[]) } else { (&[], &sp) };
        let mut b = if v6 { vec![6u8, 0x00, 27, 10] } else { vec![4u8, 0x00, 22, 8] };
        if v6 {
            b.extend((h.len() as u32).to_be_bytes());
            b.extend_from_slice(h);
            b.extend((u.len() as u32).to_be_bytes());
            b.extend_from_slice(u);
            b.extend_from_slice(&[0xAA, 0xBB, 32]);
            b.extend_from_slice(&[0x11; 32]);
            b.extend_from_slice(&[0x22; 64]);
        } else {
            if h.len() > 0xFFFF || u.len() > 0xFFFF {
                break;
            }
            b.extend((h.len() as u16).to_be_bytes());
            b.extend_from_slice(h);
            b.extend((u.len() as u16).to_be_bytes());
            b.extend_from_slice(u);
            b.extend_from_slice(&[0xAA, 0xBB]);
            b.extend_from_slice(&mpis);
        }
        inner = b;
    }
    inner
}

fn ops_for(rs: &rfc::sig::RefSig, signer: &SignedSecretKey, last: u8) -> Vec<u8> {
    let issuer = if rs.version == 6 {
        signer.fingerprint().as_bytes().to_vec()
    } else {
        signer.legacy_key_id().as_ref().to_vec()
    };
    rfc::sig::RefOps {
        version: if rs.version == 6 { 6 } else { 3 },
        typ: rs.typ,
        hash_alg: rs.hash_alg,
        pub_alg: rs.pub_alg,
        salt: rs.salt.clone(),
        issuer,
        last,
    }
    .encode()
}

struct F5Env<'a> {
    key16: [u8; 16],
    signer4: &'a SignedSecretKey,
    signer6: &'a SignedSecretKey,
    pub4: &'a SignedPublicKey,
    pub6: &'a SignedPublicKey,
}

/// wrap kinds: 0 bare, 1 SEIPDv1, 2 SEIPDv2, 3 compressed(zlib) in SEIPDv1, 4 compressed(algo 0)
/// bare, 5 compressed(zip) in SEIPDv2, 6 SEIPDv1 with partial body framing
fn wrap(kind: u8, inner: &[u8], e: &F5Env<'_>, rng: &mut ChaCha8Rng) -> Vec<u8> {
    let v1 = |d: &[u8], rng: &mut ChaCha8Rng| -> Vec<u8> {
        let mut b = vec![1u8];
        b.extend(rfc::sym::seipd_v1_encrypt(7, &e.key16, &rnd_bytes(rng, 16), d).unwrap_or_default());
        b
    };
    let v2 = |d: &[u8], rng: &mut ChaCha8Rng| -> Vec<u8> {
        let mut salt = [0u8; 32];
        rng.fill_bytes(&mut salt);
        rfc::sym::seipd_v2_encrypt(7, 2, 0, &salt, &e.key16, d).unwrap_or_default()
    };
    match kind {
        0 => inner.to_vec(),
        1 => pkt(18, &v1(inner, rng)),
        2 => pkt(18, &v2(inner, rng)),
        3 => pkt(18, &v1(&compressed_pkt(2, inner), rng)),
        4 => compressed_pkt(0, inner),
        5 => pkt(18, &v2(&compressed_pkt(1, inner), rng)),
        _ => {
            let body = v1(inner, rng);
            if body.len() > 600 {
                rfc::frame::frame(18, &body, &rfc::frame::LenForm::Partial(vec![512], Box::new(rfc::frame::LenForm::NewMin))).unwrap_or_else(|| pkt(18, &body))
            } else {
                pkt5(18, &body)
            }
        }
    }
}

fn f5_means<'a>(e: &'a F5Env<'a>) -> Means<'a> {
    Means {
        session: vec![
            PlainSessionKey::V3_4 { sym_alg: SymmetricKeyAlgorithm::AES128, key: e.key16.to_vec().into() },
            PlainSessionKey::V6 { key: e.key16.to_vec().into() },
        ],
        verifiers: vec![e.pub4, e.pub6],
        ..Means::none()
    }
}

/// The ring stops at the first session key when `abort_early`; the right kind for the container
/// is put first.
fn f5_drive(bytes: &[u8], kind: u8, e: &F5Env<'_>, variant: u64, max_layers: usize) -> Obs {
    let mut o = Obs::default();
    let mut means = f5_means(e);
    if matches!(kind, 2 | 5) {
        means.session.swap(0, 1);
    }
    means.max_layers = max_layers;
    match Message::from_bytes(bytes) {
        // even variants: abort_early (first key), odd: all keys must agree -> only one given
        Ok(m) => {
            if variant % 2 == 1 {
                means.session.truncate(1);
            }
            drive_message(m, &means, variant, &mut o)
        }
        Err(_) => o.errs += 1,
    }
    o
}

fn f5_streams(e: &F5Env<'_>, rng: &mut ChaCha8Rng, thorough: bool) -> Vec<(String, Vec<u8>)> {
    let mut out: Vec<(String, Vec<u8>)> = vec![];
    let doc = b"signed document\r\nline two\n";
    let lit = literal(doc);
    // symbols
    let (sig4, rs4) = crafted_signature(e.signer4, doc, 0, rfc::sig::encode_subpacket(2, false, &[0x65, 0, 0, 0], 0), vec![], vec![]).unwrap_or_default_pair();
    let (sig6, rs6) = crafted_signature(e.signer6, doc, 0, rfc::sig::encode_subpacket(2, false, &[0x65, 0, 0, 0], 0), vec![], rnd_bytes(rng, 32)).unwrap_or_default_pair();
    let ops4 = ops_for(&rs4, e.signer4, 1);
    let ops6 = ops_for(&rs6, e.signer6, 1);
    let pubkey = e.pub4.primary_key.to_bytes().unwrap_or_default();
    let syms: Vec<(&str, Vec<u8>)> = vec![
        ("L", lit.clone()),
        ("C", compressed_pkt(2, &lit)),
        ("O4", pkt(4, &ops4)),
        ("O6", pkt(4, &ops6)),
        ("S4", pkt(2, &sig4)),
        ("S6", pkt(2, &sig6)),
        ("M", pkt(10, b"PGP")),
        ("P", pkt(21, &[0u8; 5])),
        ("T", pkt(12, &[1, 2])),
        ("U", pkt(13, b"uid")),
        ("K", pkt(6, &pubkey)),
        ("E", pkt(3, &[4, 7, 0, 8])),
        ("D", pkt(18, &[1, 2, 3])),
        ("X", pkt(19, &[0u8; 20])),
        ("Q", pkt(60, &[9, 9])),
        ("R", pkt(0, &[1])),
    ];
    // valid signed forms (sanity anchors)
    out.push(("valid/ops4-lit-sig4".into(), [syms[2].1.clone(), lit.clone(), syms[4].1.clone()].concat()));
    out.push(("valid/ops6-lit-sig6".into(), [syms[3].1.clone(), lit.clone(), syms[5].1.clone()].concat()));
    out.push(("valid/sig4-lit".into(), [syms[4].1.clone(), lit.clone()].concat()));
    out.push(("valid/lit".into(), lit.clone()));
    // 1. every sequence of length <= 3 (thorough: <= 4 sampled) over the symbols
    let n = syms.len();
    for a in 0..n {
        out.push((format!("seq/{}", syms[a].0), syms[a].1.clone()));
        for b in 0..n {
            out.push((format!("seq/{}-{}", syms[a].0, syms[b].0), [syms[a].1.clone(), syms[b].1.clone()].concat()));
            for c in 0..n {
                if !thorough && (a * 7 + b * 3 + c) % 3 != 0 {
                    continue;
                }
                out.push((
                    format!("seq/{}-{}-{}", syms[a].0, syms[b].0, syms[c].0),
                    [syms[a].1.clone(), syms[b].1.clone(), syms[c].1.clone()].concat(),
                ));
            }
        }
    }
    let k = if thorough { 6000 } else { 600 };
    for i in 0..k {
        let len = 4 + (i % 5);
        let mut v = vec![];
        let mut name = String::from("seq");
        for _ in 0..len {
            let x = rng.gen_range(0..n);
            name.push(if name.len() == 3 { '/' } else { '-' });
            name.push_str(syms[x].0);
            v.extend_from_slice(&syms[x].1);
        }
        out.push((name, v));
    }
    // 2. truncation of the valid forms at every byte
    for base in 0..3 {
        let (bn, b) = out[base].clone();
        for cut in 0..b.len() {
            out.push((format!("trunc/{bn}@{}", cut.min(300)), b[..cut].to_vec()));
        }
    }
    // 3. length forms
    let big = {
        let mut b = vec![b'b', 0, 0, 0, 0, 0];
        b.extend(rnd_bytes(rng, 1500));
        b
    };
    use rfc::frame::LenForm as LF;
    for (nm, form) in [
        ("partial-512-rest", LF::Partial(vec![512], Box::new(LF::NewMin))),
        ("partial-512-512-rest", LF::Partial(vec![512, 512], Box::new(LF::NewMin))),
        ("partial-1024-rest5", LF::Partial(vec![1024], Box::new(LF::New5))),
        ("partial-256-first-too-small", LF::Partial(vec![256], Box::new(LF::NewMin))),
        ("partial-1-first-too-small", LF::Partial(vec![1, 1, 1], Box::new(LF::NewMin))),
        ("partial-512-then-1s", LF::Partial(vec![512, 1, 1, 2, 4], Box::new(LF::NewMin))),
        ("old-indeterminate", LF::OldIndeterminate),
        ("old-4", LF::Old4),
        ("old-2", LF::Old2),
        ("new-5", LF::New5),
    ] {
        for tag in [11u8, 8, 2, 10] {
            let body = if tag == 8 { compress(0, &literal(&big)) } else if tag == 11 { big.clone() } else { big[..100].to_vec() };
            if let Some(f) = rfc::frame::frame(tag, &body, &form) {
                out.push((format!("len/{nm}/tag{tag}"), f.clone()));
                // never terminated / final chunk missing
                out.push((format!("len/{nm}/tag{tag}/cut-tail"), f[..f.len() - f.len().min(40)].to_vec()));
                let mut g = f.clone();
                g.extend_from_slice(&lit);
                out.push((format!("len/{nm}/tag{tag}/followed-by-literal"), g));
            }
        }
    }
    for (nm, hdr) in [
        ("len-ffffffff", vec![0xCBu8, 0xFF, 0xFF, 0xFF, 0xFF, 0xFF]),
        ("len-7fffffff", vec![0xCB, 0xFF, 0x7F, 0xFF, 0xFF, 0xFF]),
        ("partial-2^30", vec![0xCB, 0xFE]),
        ("partial-2^31", vec![0xCB, 0xFF - 0, 0x80, 0, 0, 0]),
        ("old-len4-ffffffff", vec![0xAE, 0xFF, 0xFF, 0xFF, 0xFF]),
        ("old-len2-ffff", vec![0xAD, 0xFF, 0xFF]),
        ("two-octet-max", vec![0xCB, 223, 255]),
        ("compressed-len-ffffffff", vec![0xC8, 0xFF, 0xFF, 0xFF, 0xFF, 0xFF, 0]),
        ("sig-len-ffffffff", vec![0xC2, 0xFF, 0xFF, 0xFF, 0xFF, 0xFF, 4]),
        ("ops-len-ffffffff", vec![0xC4, 0xFF, 0xFF, 0xFF, 0xFF, 0xFF, 3]),
        ("marker-partial", vec![0xCA, 0xE9]),
        ("tag0", vec![0xC0, 0]),
        ("old-tag0", vec![0x80, 0]),
        ("bit7-clear", vec![0x4B, 3, 1, 2, 3]),
    ] {
        for tail in [0usize, 3, 20, 600] {
            let mut b = hdr.clone();
            b.extend_from_slice(&big[..tail]);
            out.push((format!("len/{nm}/tail{tail}"), b));
        }
    }
    // 5. OPS / signature mismatches
    let o4 = &syms[2].1;
    let o6 = &syms[3].1;
    let s4 = &syms[4].1;
    let s6 = &syms[5].1;
    for (nm, parts) in [
        ("ops-only", vec![o4, &lit]),
        ("ops-ops-lit-sig", vec![o4, o4, &lit, s4]),
        ("ops-lit-sig-sig", vec![o4, &lit, s4, s4]),
        ("ops4-lit-sig6", vec![o4, &lit, s6]),
        ("ops6-lit-sig4", vec![o6, &lit, s4]),
        ("ops4-ops6-lit-sig6-sig4", vec![o4, o6, &lit, s6, s4]),
        ("ops4-ops6-lit-sig4-sig6", vec![o4, o6, &lit, s4, s6]),
        ("sig-sig-lit", vec![s4, s6, &lit]),
        ("sig-ops-lit-sig", vec![s4, o6, &lit, s6]),
        ("ops-sig-lit-sig", vec![o4, s4, &lit, s4]),
        ("ops-lit", vec![o6, &lit]),
        ("ops-lit-lit-sig", vec![o4, &lit, &lit, s4]),
        ("ops-sig", vec![o4, s4]),
    ] {
        let mut b = vec![];
        for p in parts {
            b.extend_from_slice(p);
        }
        out.push((format!("ops/{nm}"), b));
    }
    // OPS one-octet fields
    for off in 0..ops4.len() {
        for v in [0u8, 1, 2, 3, 4, 5, 6, 0x7F, 0x80, 0xFF] {
            let mut o = ops4.clone();
            o[off] = v;
            out.push((format!("ops/v3-patch-off={off}"), [pkt(4, &o), lit.clone(), s4.clone()].concat()));
        }
    }
    for off in 0..ops6.len().min(8) {
        for v in [0u8, 1, 3, 6, 16, 31, 32, 33, 64, 0xFF] {
            let mut o = ops6.clone();
            o[off] = v;
            out.push((format!("ops/v6-patch-off={off}"), [pkt(4, &o), lit.clone(), s6.clone()].concat()));
        }
    }
    // 6. every subpacket id x body length 0..3 x critical, hashed and unhashed; the signature
    //    verifies (digest computed over the crafted hashed area)
    for id in 0..=127u8 {
        for blen in 0..=3usize {
            for critical in [false, true] {
                let body = rnd_bytes(rng, blen);
                let mut raw = vec![(blen + 1) as u8, id | if critical { 0x80 } else { 0 }];
                raw.extend_from_slice(&body);
                let created = rfc::sig::encode_subpacket(2, false, &[0x65, 0, 0, 0], 0);
                let h = [created.clone(), raw.clone()].concat();
                for (area, hashed, unhashed) in [("hashed", h.clone(), vec![]), ("unhashed", created.clone(), raw.clone())] {
                    for v6 in [false, true] {
                        if v6 && !thorough && (id as usize + blen) % 2 == 1 {
                            continue;
                        }
                        let signer = if v6 { e.signer6 } else { e.signer4 };
                        let salt = if v6 { rnd_bytes(rng, 32) } else { vec![] };
                        let Some((sb, rs)) = crafted_signature(signer, doc, 0, hashed.clone(), unhashed.clone(), salt) else { continue };
                        let nm = format!("subpkt/{area}/id={id}/len={blen}/critical={critical}/v{}", if v6 { 6 } else { 4 });
                        if (id as usize + blen) % 2 == 0 {
                            out.push((nm, [pkt(2, &sb), lit.clone()].concat()));
                        } else {
                            out.push((nm, [pkt(4, &ops_for(&rs, signer, 1)), lit.clone(), pkt(2, &sb)].concat()));
                        }
                    }
                }
            }
        }
    }
    // subpacket length encodings that lie
    for (nm, area) in [
        ("len0", vec![0u8]),
        ("len-beyond", vec![5, 2, 1]),
        ("len2-short", vec![192]),
        ("len5-short", vec![255, 0, 0]),
        ("len5-huge", vec![255, 0xFF, 0xFF, 0xFF, 0xFF, 2]),
        ("len2-max", vec![254, 255, 2]),
        ("embedded-sig-empty", vec![1, 32]),
        ("embedded-sig-garbage", vec![4, 32, 4, 0, 0]),
    ] {
        for hashed in [true, false] {
            let created = rfc::sig::encode_subpacket(2, false, &[0x65, 0, 0, 0], 0);
            let (h, u) = if hashed { ([created.clone(), area.clone()].concat(), vec![]) } else { (created.clone(), area.clone()) };
            if let Some((sb, _)) = crafted_signature(e.signer4, doc, 0, h, u, vec![]) {
                out.push((format!("subpkt/area-{nm}/hashed={hashed}"), [pkt(2, &sb), lit.clone()].concat()));
            }
        }
    }
    // signature packet one-octet fields (version, type, pub alg, hash alg) on a valid signature
    for off in 0..4usize {
        for v in 0..=255u16 {
            if !thorough && off == 1 && v > 0x60 && v % 8 != 0 {
                continue;
            }
            let mut b = sig4.clone();
            if off < b.len() {
                b[off] = v as u8;
            }
            out.push((format!("sig/v4-patch-off={off}"), [pkt(2, &b), lit.clone()].concat()));
            if thorough || v % 4 == 0 {
                let mut b = sig6.clone();
                if off < b.len() {
                    b[off] = v as u8;
                }
                out.push((format!("sig/v6-patch-off={off}"), [pkt(4, &ops6), lit.clone(), pkt(2, &b)].concat()));
            }
        }
    }
    // 7. floods
    for (nm, unit) in [("marker", pkt(10, b"PGP")), ("padding", pkt(21, &[0u8; 3])), ("trust", pkt(12, &[0])), ("unknown60", pkt(60, &[1])), ("marker-bad", pkt(10, b"XYZ"))] {
        for count in [1usize, 100, 10_000] {
            let mut b = vec![];
            for _ in 0..count {
                b.extend_from_slice(&unit);
            }
            let mut pre = b.clone();
            pre.extend_from_slice(&lit);
            out.push((format!("flood/{nm}x{count}-then-literal"), pre));
            let mut post = lit.clone();
            post.extend_from_slice(&b);
            out.push((format!("flood/literal-then-{nm}x{count}"), post));
            out.push((format!("flood/{nm}x{count}-only"), b));
        }
    }
    for sz in [0usize, 1, 191, 192, 8383, 8384, 70_000] {
        out.push((format!("flood/padding-size-{sz}-then-literal"), [pkt(21, &vec![0xAAu8; sz]), lit.clone()].concat()));
    }
    // literal header oddities
    for (nm, body) in [
        ("lit-empty", vec![]),
        ("lit-mode-only", vec![b'b']),
        ("lit-name-len-beyond", vec![b'b', 200, b'x']),
        ("lit-no-date", vec![b'b', 1, b'x', 0, 0]),
        ("lit-mode-ff", vec![0xFF, 0, 0, 0, 0, 0, b'a']),
        ("lit-text-bare-lf", vec![b'u', 0, 0, 0, 0, 0, b'a', b'\n', 0xFF]),
        ("lit-console", [vec![b't', 8], b"_CONSOLE".to_vec(), vec![0, 0, 0, 0, b'z']].concat()),
    ] {
        out.push((format!("literal/{nm}"), pkt(11, &body)));
        out.push((format!("literal/{nm}/signed"), [pkt(4, &ops4), pkt(11, &body), s4.clone()].concat()));
    }
    // compressed packet oddities
    for algo in 0..=255u16 {
        let algo = algo as u8;
        let z = compress(2, &lit);
        let mut b = vec![algo];
        b.extend_from_slice(&z[1..]);
        out.push((format!("compressed/algo={algo}/zlib-data"), pkt(8, &b)));
        if algo < 8 {
            out.push((format!("compressed/algo={algo}/empty"), pkt(8, &[algo])));
            out.push((format!("compressed/algo={algo}/garbage"), pkt(8, &[&[algo][..], &rnd_bytes(rng, 40)[..]].concat())));
            let zt = &z[..z.len() / 2];
            out.push((format!("compressed/algo={algo}/truncated-stream"), pkt(8, &[&[algo][..], &zt[1..]].concat())));
        }
    }
    out.push(("compressed/empty-body".into(), pkt(8, &[])));
    out.push(("compressed/zlib-of-nothing".into(), compressed_pkt(2, &[])));
    out.push(("compressed/zlib-of-garbage".into(), compressed_pkt(2, &rnd_bytes(rng, 64))));
    out.push(("compressed/zlib-trailing-data".into(), pkt(8, &[&compress(2, &lit)[..], &[1u8, 2, 3][..]].concat())));
    out.push(("compressed/literal-then-trailing-in-compressed".into(), compressed_pkt(2, &[&lit[..], &[0xCBu8][..]].concat())));
    out
}

trait PairDefault {
    fn unwrap_or_default_pair(self) -> (Vec<u8>, rfc::sig::RefSig);
}
impl PairDefault for Option<(Vec<u8>, rfc::sig::RefSig)> {
    fn unwrap_or_default_pair(self) -> (Vec<u8>, rfc::sig::RefSig) {
        self.unwrap_or_else(|| {
            (
                vec![4, 0, 22, 8, 0, 0, 0, 0, 0, 0],
                rfc::sig::RefSig {
                    version: 4,
                    typ: 0,
                    pub_alg: 22,
                    hash_alg: 8,
                    created: 0,
                    issuer: [0; 8],
                    hashed: vec![],
                    unhashed: vec![],
                    left16: [0, 0],
                    salt: vec![],
                    sig_data: vec![],
                    off_hashed: 0,
                    off_unhashed: 0,
off_left16: 0,
                    off_salt: 0,
                    off_sig: 0,
                },
            )
        })
    }
}

fn f5_env(env: &Env) -> Option<F5Env<'_>> {
    let s4 = env.signers.iter().find(|(n, _, _)| n == "v4-Ed25519Legacy")?;
    let s6 = env.signers.iter().find(|(n, _, _)| n == "v6-Ed25519")?;
    Some(F5Env { key16: [0x77u8; 16], signer4: &s4.1, signer6: &s6.1, pub4: &s4.2, pub6: &s6.2 })
}

/// Deep nesting. These run first: a stack overflow kills the shard process, which the driver
/// attributes through the case description and then re-runs the shard without that case.
fn f5_deep(ctx: &mut Ctx, env: &Env) {
    let Some(e) = f5_env(env) else {
        ctx.inconclusive("F5: signer keys missing");
        return;
    };
    let lit = literal(b"deep");
    let depths: Vec<usize> = if ctx.quick() { vec![10, 100, 1000, 10_000] } else { vec![10, 100, 1000, 3000, 10_000, 30_000] };
    for &depth in &depths {
        for algo in [0u8, 2, 1] {
            for kind in [0u8, 1, 2] {
                if depth > 10_000 && (algo != 0 || kind != 0) {
                    continue;
                }
                if !ctx.mine() {
                    continue;
                }
                core::describe_case(&format!("F5deep:generator/compression-layers={depth}/algo={algo}"));
                let mut rng = ctx.rng("F5deep", (depth as u64) << 8 | (algo as u64) << 4 | kind as u64);
                let mut inner = lit.clone();
                for _ in 0..depth {
                    inner = pkt(8, &compress_stored(algo, &inner));
                }
                let bytes = wrap(kind, &inner, &e, &mut rng);
                ctx.cover(&("F5deep-comp", depth, algo, kind));
                ctx.seen("F5.deep", format!("compression-algo{algo}-depth{depth}-wrap{kind}"));
                let desc = format!("F5deep:compression-layers={depth}/algo={algo}/wrap={kind}/decompress-until-literal-then-read");
                let o = run_case(
                    ctx,
                    "F5",
                    &desc,
                    || json!({"api": "Message::from_bytes -> [decrypt] -> decompress() x depth -> read_to_end -> drop", "depth": depth, "algo": algo, "input_len": bytes.len()}),
                    || f5_drive(&bytes, kind, &e, depth as u64 * 2, depth + 8),
                );
                if let Some(o) = o {
                    o.tally(ctx, "F5deep");
                    if o.read_ok > 0 {
                        ctx.tally("F5deep.fully_read", 1);
                    }
                }
            }
        }
    }
    // the same walk on a worker thread (Rust's default stack for spawned threads: 2 MiB)
    for (depth, algo) in [(1000usize, 0u8), (10_000, 0), (1000, 2)] {
        if !ctx.mine() {
            continue;
        }
        core::describe_case(&format!("F5deep:generator/compression-layers={depth}/algo={algo}"));
        let mut inner = lit.clone();
        for _ in 0..depth {
            inner = pkt(8, &compress_stored(algo, &inner));
        }
        ctx.cover(&("F5deep-comp-thread", depth, algo));
        ctx.seen("F5.deep", format!("compression-algo{algo}-depth{depth}-thread-stack=2MiB"));
        let desc = format!("F5deep:compression-layers={depth}/algo={algo}/wrap=0/thread-stack=2MiB/decompress-until-literal-then-read");
        let o = run_case(
            ctx,
            "F5",
            &desc,
            || json!({"api": "on a 2 MiB thread: Message::from_bytes -> decompress() x depth -> read_to_end -> drop", "depth": depth, "algo": algo, "input_len": inner.len()}),
            || on_thread(2 << 20, "Message::from_bytes -> decompress x depth -> read on a worker thread", || f5_drive(&inner, 0, &e, depth as u64 * 2, depth + 8)),
        );
        if let Some(Some(o)) = o {
            o.tally(ctx, "F5deep");
            if o.read_ok > 0 {
                ctx.tally("F5deep.fully_read", 1);
            }
        }
    }
    // nested encryption containers (same session key at every level)
    for &depth in &[10usize, 100, 1000] {
        for kind in [1u8, 2] {
            if !ctx.mine() {
                continue;
            }
            core::describe_case(&format!("F5deep:generator/encryption-layers={depth}/wrap={kind}"));
            let mut rng = ctx.rng("F5deep-enc", (depth as u64) << 4 | kind as u64);
            let mut inner = lit.clone();
            for _ in 0..depth {
                inner = if kind == 2 {
                    // 64 KiB chunks: one AEAD call per layer in the generator
                    let mut salt = [0u8; 32];
                    rng.fill_bytes(&mut salt);
                    pkt(18, &rfc::sym::seipd_v2_encrypt(7, 2, 10, &salt, &e.key16, &inner).unwrap_or_default())
                } else {
                    wrap(kind, &inner, &e, &mut rng)
                };
            }
            ctx.cover(&("F5deep-enc", depth, kind));
            ctx.seen("F5.deep", format!("encryption-depth{depth}-wrap{kind}"));
            let desc = format!("F5deep:encryption-layers={depth}/wrap={kind}/decrypt-until-literal-then-read");
            let o = run_case(
                ctx,
                "F5",
                &desc,
                || json!({"api": "Message::from_bytes -> decrypt x depth -> read_to_end -> drop", "depth": depth, "input_len": inner.len()}),
                || f5_drive(&inner, kind, &e, 0, depth + 8),
            );
            if let Some(o) = o {
                o.tally(ctx, "F5deep");
                if o.read_ok > 0 {
                    ctx.tally("F5deep.fully_read", 1);
                }
            }
        }
    }
    // signature / OPS nesting
    let doc = b"deep";
    let created = rfc::sig::encode_subpacket(2, false, &[0x65, 0, 0, 0], 0);
    let Some((sig4, rs4)) = crafted_signature(e.signer4, doc, 0, created.clone(), vec![], vec![]) else {
        ctx.inconclusive("F5deep: cannot craft signature");
        return;
    };
    for &depth in &[10usize, 1000, 10_000] {
        for form in 0..4u8 {
            if !ctx.mine() {
                continue;
            }
            core::describe_case(&format!("F5deep:generator/signature-layers={depth}/form={form}"));
            let mut rng = ctx.rng("F5deep-sig", (depth as u64) << 4 | form as u64);
            let mut b = vec![];
            match form {
                0 => {
                    // OPS x n, literal, SIG x n
                    for i in 0..depth {
                        b.extend(pkt(4, &ops_for(&rs4, e.signer4, (i + 1 == depth) as u8)));
                    }
                    b.extend_from_slice(&lit);
                    for _ in 0..depth {
                        b.extend(pkt(2, &sig4));
                    }
                }
                1 => {
                    for _ in 0..depth {
                        b.extend(pkt(2, &sig4));
                    }
                    b.extend_from_slice(&lit);
                }
                2 => {
                    // alternating signature / compression layers
                    let mut inner = lit.clone();
                    for _ in 0..depth.min(2000) {
                        inner = [pkt(2, &sig4), compressed_pkt(0, &inner)].concat();
                    }
                    b = inner;
                }
                _ => {
                    // OPS x n without any signature
                    for _ in 0..depth {
                        b.extend(pkt(4, &ops_for(&rs4, e.signer4, 0)));
                    }
                    b.extend_from_slice(&lit);
                }
            }
            let kind = [0u8, 1, 2][(depth + form as usize) % 3];
            let bytes = wrap(kind, &b, &e, &mut rng);
            ctx.cover(&("F5deep-sig", depth, form));
            ctx.seen("F5.deep", format!("signature-form{form}-depth{depth}"));
            let desc = format!("F5deep:signature-layers={depth}/form={form}/wrap={kind}");
            let o = run_case(
                ctx,
                "F5",
                &desc,
                || json!({"api": "Message::from_bytes -> [decrypt] -> read_to_end -> verify", "depth": depth, "form": form, "input_len": bytes.len()}),
                || f5_drive(&bytes, kind, &e, depth as u64 * 2, 4100),
            );
            if let Some(o) = o {
                o.tally(ctx, "F5deep");
            }
        }
    }
}

/// Runs `f` on a freshly spawned thread with the given stack size (what a worker thread of an
/// application has: Rust's default for spawned threads is 2 MiB). A panic inside is handed back
/// to the case runner of the calling thread.
fn on_thread<T: Send>(stack: usize, name: &'static str, f: impl FnOnce() -> T + Send) -> Option<T> {
    let r = std::thread::scope(|s| {
        std::thread::Builder::new()
            .stack_size(stack)
            .spawn_scoped(s, || core::guard(f))
            .ok()
            .and_then(|h| h.join().ok())
    });
    match r {
        Some(Ok(v)) => Some(v),
        Some(Err(p)) => {
            SUBPANICS.with(|v| v.borrow_mut().push((p, name)));
            None
        }
        None => None,
    }
}

/// Embedded Signature subpackets nested `depth` times: the subpacket parser recurses once per
/// level (and so do clone / drop / serialisation of the parsed value).
fn f5_deep_embedded(ctx: &mut Ctx, env: &Env) {
    let Some(e) = f5_env(env) else { return };
    let lit = literal(b"deep");
    // (depth, stack of the thread that parses: None = main thread, 8 MiB by default ulimit)
    // depths are chosen well away from the overflow threshold (about 1.8 KiB of stack per level)
    // so that the outcome does not depend on small frame size differences between builds
    let mut plan: Vec<(usize, Option<usize>)> = vec![(10, None), (100, None), (1000, None), (3000, None), (300, Some(2 << 20)), (1500, Some(2 << 20))];
    if !ctx.quick() {
        plan.push((6000, None));
    }
    for &(depth, stack) in &plan {
        for v6 in [false, true] {
            for hashed_area in [true, false] {
                if !v6 && depth > 3000 {
                    continue; // does not fit the 2-octet area length
                }
                if (stack.is_some() || depth > 3000) && !hashed_area {
                    continue;
                }
                if !ctx.mine() {
                    continue;
                }
                core::describe_case(&format!("F5deep:generator/embedded-signature-depth={depth}"));
                let sig = nested_embedded_sig(depth, v6, hashed_area);
                let ver = if v6 { 6 } else { 4 };
                let area = if hashed_area { "hashed" } else { "unhashed" };
                let st = match stack {
                    None => "main-thread".to_string(),
                    Some(n) => format!("thread-stack={}MiB", n >> 20),
                };
                ctx.cover(&("F5deep-emb", depth, v6, hashed_area, stack));
                ctx.seen("F5.deep", format!("embedded-signature-v{ver}-{area}-depth{depth}-{st}"));
                // (a) as a detached signature: parse, accessors, serialise, verify, clone, drop
                let desc = format!("F5deep:embedded-signature-depth={depth}/v{ver}/{area}/{st}/detached");
                let sb = pkt5(2, &sig);
                let (p4, p6) = (e.pub4, e.pub6);
                let work = || {
                    let mut o = Obs::default();
                    match DetachedSignature::from_bytes(&sb[..]) {
                        Ok(s) => {
                            exercise_detached(&s, &[p4, p6], b"deep", &mut o);
                            let c = s.clone();
                            let _ = c == s;
                            drop(c);
                        }
                        Err(_) => o.errs += 1,
                    }
                    o
                };
                let o = run_case(
                    ctx,
                    "F5",
                    &desc,
                    || json!({"api": "DetachedSignature::from_bytes -> accessors / to_bytes / verify / clone / drop", "depth": depth, "input_len": sb.len(), "stack": st, "input": if sb.len() < 70_000 { hexfull(&sb) } else { String::from("(nested_embedded_sig, see generator)") }}),
                    || match stack {
                        None => Some(work()),
                        Some(n) => on_thread(n, "DetachedSignature::from_bytes on a worker thread", work),
                    },
                );
                if let Some(Some(o)) = o {
                    o.tally(ctx, "F5deep");
                    if o.parsed > 0 {
                        ctx.tally("F5deep.embedded_parsed", 1);
                    }
                }
                if stack.is_some() {
                    continue;
                }
                // (b) in front of a literal inside a message
                let desc = format!("F5deep:embedded-signature-depth={depth}/v{ver}/{area}/{st}/message");
                let mut rng = ctx.rng("F5deep-emb", depth as u64);
                let bytes = wrap(if depth % 2 == 0 { 0 } else { 1 }, &[pkt5(2, &sig), lit.clone()].concat(), &e, &mut rng);
                let o = run_case(
                    ctx,
                    "F5",
                    &desc,
                    || json!({"api": "Message::from_bytes -> read -> verify", "depth": depth, "input_len": bytes.len()}),
                    || f5_drive(&bytes, if depth % 2 == 0 { 0 } else { 1 }, &e, 0, 8),
                );
                if let Some(o) = o {
                    o.tally(ctx, "F5deep");
                }
                // (c) through the packet parser
                let desc = format!("F5deep:embedded-signature-depth={depth}/v{ver}/{area}/{st}/packet-parser");
                let o = run_case(
                    ctx,
                    "F5",
                    &desc,
                    || json!({"api": "PacketParser -> to_writer / write_len", "depth": depth, "input_len": sb.len()}),
                    || {
                        let mut o = Obs::default();
                        exercise_packets(&sb, 10, &mut o);
                        o
                    },
                );
                if let Some(o) = o {
                    o.tally(ctx, "F5deep");
                }
            }
        }
    }
}

/// F5e: what the message object does when it is used *after* a read returned an error
/// (accessors, another read, verify). Reported under its own family so that it can be judged
/// separately from panics during parsing / reading proper.
/// Nested Embedded Signature subpackets with complete leaf siblings at every level (a depth counter that is
/// reset or mis-counted by a finished sibling lets the nesting through).
fn f5_deep_embedded_siblings(ctx: &mut Ctx, env: &Env) {
    let Some(e) = f5_env(env) else { return };
    for &(depth, stack) in &[(17usize, None), (40, None), (300, Some(2usize << 20)), (1500, Some(2 << 20)), (3000, None)] {
        for siblings in [1u8, 2, 3] {
            for v6 in [true, false] {
                if !v6 && depth > 300 {
                    continue; // does not fit the 2-octet area length
                }
                if !ctx.mine() {
                    continue;
                }
                let sig = nested_embedded_sig_shape(depth, v6, true, siblings);
                let ver = if v6 { 6 } else { 4 };
                let st = match stack {
                    None => "main-thread".to_string(),
                    Some(n) => format!("thread-stack={}MiB", n >> 20),
                };
                let shape = ["", "leaf-first", "leaf-last", "leaf-both"][siblings as usize];
                ctx.cover(&("F5deep-emb-sib", depth, v6, siblings));
                ctx.seen("F5.deep.siblings", format!("v{ver}-{shape}-depth{depth}-{st}"));
                let desc = format!("F5deep:embedded-signature-depth={depth}/v{ver}/hashed/{shape}/{st}/detached");
                let sb = pkt5(2, &sig);
                let (p4, p6) = (e.pub4, e.pub6);
                let work = || {
                    let mut o = Obs::default();
                    match DetachedSignature::from_bytes(&sb[..]) {
                        Ok(s) => {
                            exercise_detached(&s, &[p4, p6], b"deep", &mut o);
                            let c = s.clone();
                            let _ = c == s;
                            drop(c);
                        }
                        Err(_) => o.errs += 1,
                    }
                    o
                };
                let o = run_case(
                    ctx,
                    "F5",
                    &desc,
                    || json!({"api": "DetachedSignature::from_bytes -> accessors / to_bytes / verify / clone / drop", "depth": depth, "shape": shape, "input_len": sb.len(), "stack": st}),
                    || match stack {
                        None => Some(work()),
                        Some(n) => on_thread(n, "DetachedSignature::from_bytes on a worker thread", work),
                    },
                );
                if let Some(Some(o)) = o {
                    o.tally(ctx, "F5deep");
                    // the documented nesting limit is 16: deeper input is refused, not parsed
                    if o.parsed > 0 && depth > 16 {
                        ctx.tally("F5deep.siblings.parsed-beyond-16-levels", 1);
                    }
                }
            }
        }
    }
}

fn f5_after_error(ctx: &mut Ctx, e: &F5Env<'_>, streams: &[(String, Vec<u8>)]) {
    const ACCESSORS: [&str; 9] = [
        "packet_header", "literal_data_header", "is_one_pass_signed", "verify", "read-again", "fill_buf-again", "verify_nested", "decompress", "drop",
    ];
    let mut picked = 0usize;
    for (name, stream) in streams {
        if picked >= 60 {
            break;
        }
        if !(name.starts_with("trunc/") || name.starts_with("ops/") || name.starts_with("len/")) {
            continue;
        }
        // does a read fail on it at all?
        for kind in [0u8, 1, 2] {
            let mut rng = Ctx::fixed_rng("F5e", picked as u64);
            let bytes = wrap(kind, stream, e, &mut rng);
            let fails = core::guard(|| {
                let mut means = f5_means(e);
                if kind == 2 {
                    means.session.swap(0, 1);
                }
                let Ok(mut m) = Message::from_bytes(&bytes[..]) else { return false };
                if m.is_encrypted() {
                    let ring = TheRing { session_keys: means.session.clone(), ..Default::default() };
                    match m.decrypt_the_ring(ring, true) {
                        Ok((x, _)) => m = x,
                        Err(_) => return false,
                    }
                }
                if m.is_compressed() {
                    return false;
                }
                let mut v = Vec::new();
                m.read_to_end(&mut v).is_err()
            });
            if !matches!(fails, Ok(true)) {
                continue;
            }
            picked += 1;
            if !ctx.mine() {
                continue;
            }
            for (ai, acc) in ACCESSORS.iter().enumerate() {
                let desc = format!("F5e:after-read-error/{}/wrap={kind}/then={acc}", name.split('@').next().unwrap_or(name));
                ctx.cover(&("F5e", name, kind, ai));
                let verifier = e.pub4;
                let _ = run_case(
                    ctx,
                    "F5e",
                    &desc,
                    || json!({"api": format!("Message::from_bytes -> [decrypt] -> read_to_end (Err) -> {acc}"), "input": hexs(&bytes), "session_key": hexs(&e.key16)}),
                    || {
                        let mut means = f5_means(e);
                        if kind == 2 {
                            means.session.swap(0, 1);
                        }
                        let Ok(mut m) = Message::from_bytes(&bytes[..]) else { return };
                        if m.is_encrypted() {
                            let ring = TheRing { session_keys: means.session.clone(), ..Default::default() };
                            match m.decrypt_the_ring(ring, true) {
                                Ok((x, _)) => m = x,
                                Err(_) => return,
                            }
                        }
                        let mut v = Vec::new();
                        if m.read_to_end(&mut v).is_ok() {
                            return;
                        }
                        match ai {
                            0 => {
                                let _ = m.packet_header();
                            }
                            1 => {
                                let _ = m.literal_data_header();
                            }
                            2 => {
                                let _ = m.is_one_pass_signed();
                            }
                            3 => {
                                let _ = m.verify(verifier);
                            }
                            4 => {
                                let mut b = [0u8; 16];
                                let _ = m.read(&mut b);
                            }
                            5 => {
                                let _ = m.fill_buf().map(|b| b.len());
                            }
                            6 => {
                                let _ = m.verify_nested(&[verifier as &dyn VerifyingKey]);
                            }
                            7 => {
                                let _ = m.decompress();
                            }
                            _ => drop(m),
                        }
                    },
                );
            }
            break;
        }
    }
    ctx.tally("F5e.streams_with_read_error", picked as u64);
}

fn f5(ctx: &mut Ctx, env: &Env) {
    let Some(e) = f5_env(env) else {
        ctx.inconclusive("F5: signer keys missing");
        return;
    };
    let mut rng0 = Ctx::fixed_rng("F5", 0);
    let streams = f5_streams(&e, &mut rng0, !ctx.quick());
    f5_after_error(ctx, &e, &streams);
    ctx.tally("F5.streams_per_shard", streams.len() as u64);
    let group = 8usize;
    for (gi, chunk) in streams.chunks(group).enumerate() {
        if !ctx.mine() {
            continue;
        }
        let mut rng = ctx.rng("F5", gi as u64);
        let mut obs = Obs::default();
        for (si, (name, stream)) in chunk.iter().enumerate() {
            let idx = gi * group + si;
            let class = name.split('/').next().unwrap_or("");
            ctx.seen("F5.stream_class", class.to_string());
            // every stream: bare + two rotating wrappers (thorough: all)
            let kinds: Vec<u8> = if ctx.quick() { vec![0, 1 + (idx % 6) as u8, 1 + ((idx / 6 + 3) % 6) as u8] } else { (0..=6).collect() };
            for kind in kinds {
                let bytes = wrap(kind, stream, &e, &mut rng);
                ctx.cover(&("F5", name, kind));
                let desc = format!("F5:{name}/wrap={kind}");
                let o = run_case(
                    ctx,
                    "F5",
                    &desc,
                    || json!({"api": "Message::from_bytes -> decrypt_the_ring(session key) -> decompress -> read -> verify", "input": hexs(&bytes), "inner_stream": hexs(stream), "session_key": hexs(&e.key16)}),
                    || {
                        let mut o = f5_drive(&bytes, kind, &e, idx as u64 + kind as u64, 24);
                        if kind == 0 && idx % 4 == 0 {
                            exercise_packets(&bytes, 20_000, &mut o);
                        }
                        o
                    },
                );
                if let Some(o) = o {
                    if name.starts_with("valid/") && o.verified_ok == 0 && !name.ends_with("/lit") {
                        ctx.inconclusive(format!("F5: anchor stream {name} wrap {kind} did not verify"));
                    }
                    if name.starts_with("subpkt/") && o.verified_ok > 0 {
                        ctx.tally("F5.crafted_subpacket_sig_verified", 1);
                    }
                    obs.merge(&o);
                }
            }
        }
        obs.tally(ctx, "F5");
    }
}

// ------------------------------------------------------------------------------------------
// F6: byte mutation of fixtures and library-made artefacts through every public entry point

#[derive(Clone, Copy, PartialEq, Eq, Debug)]
enum Kind {
    Msg,
    PubKey,
    SecKey,
    Sig,
    Cleartext,
    Unknown,
}

struct Item {
    name: String,
    kind: Kind,
    data: Vec<u8>,
}

fn walk_fixtures(dir: &std::path::Path, out: &mut Vec<std::path::PathBuf>) {
    let Ok(rd) = std::fs::read_dir(dir) else { return };
    let mut entries: Vec<_> = rd.filter_map(|e| e.ok()).map(|e| e.path()).collect();
    entries.sort();
    for p in entries {
        if p.is_dir() {
            walk_fixtures(&p, out);
        } else {
            out.push(p);
        }
    }
}

fn fixture_items(ctx: &mut Ctx) -> Vec<Item> {
    let mut paths = vec![];
    walk_fixtures(std::path::Path::new("/repo/tests"), &mut paths);
    let mut items = vec![];
    for p in paths {
        let ext = p.extension().and_then(|e| e.to_str()).unwrap_or("").to_ascii_lowercase();
        if matches!(ext.as_str(), "rs" | "json" | "md" | "scm" | "toml" | "pem" | "sh" | "py") {
            continue;
        }
        let Ok(md) = std::fs::metadata(&p) else { continue };
        if md.len() > 256 * 1024 || md.len() == 0 {
            continue;
        }
        let Ok(data) = std::fs::read(&p) else { continue };
        let name = p.strip_prefix("/repo/tests").unwrap_or(&p).to_string_lossy().to_string();
        let low = name.to_ascii_lowercase();
        let head = String::from_utf8_lossy(&data[..data.len().min(200)]).to_string();
        let kind = if head.contains("BEGIN PGP SIGNED MESSAGE") {
            Kind::Cleartext
        } else if head.contains("BEGIN PGP PUBLIC KEY") {
            Kind::PubKey
        } else if head.contains("BEGIN PGP PRIVATE KEY") {
            Kind::SecKey
        } else if head.contains("BEGIN PGP SIGNATURE") {
            Kind::Sig
        } else if head.contains("BEGIN PGP MESSAGE") {
            Kind::Msg
        } else if low.ends_with(".sig") {
            Kind::Sig
        } else if low.contains("sec") || low.contains("priv") {
            Kind::SecKey
        } else if low.contains("pub") || low.ends_with(".key") || low.ends_with(".cert") {
            Kind::PubKey
        } else if low.ends_with(".msg") || low.ends_with(".enc") || low.ends_with(".gpg") || low.ends_with(".pgp") {
            Kind::Msg
        } else {
            Kind::Unknown
        };
        items.push(Item { name: format!("fixture{name}"), kind, data });
    }
    ctx.tally("F6.fixtures_found_per_shard", items.len() as u64);
    items
}

fn library_items(ctx: &mut Ctx, env: &Env) -> Vec<Item> {
    let mut items: Vec<Item> = vec![];
    let mut rng = Ctx::fixed_rng("F6lib", 0);
    let mut fail = 0u32;
    // keys
    let pick_signers = ["v4-Ed25519Legacy", "v6-Ed25519", "v4-EcdsaP256", "v4-Rsa2048", "v6-Ed448", "v4-Dsa2048", "v4-EcdsaK256", "v6-EcdsaP521"];
    for (name, sk, pk) in &env.signers {
        if !pick_signers.contains(&name.as_str()) {
            continue;
        }
        match sk.to_bytes() {
            Ok(b) => items.push(Item { name: format!("lib/tsk/{name}"), kind: Kind::SecKey, data: b }),
            Err(_) => fail += 1,
        }
        match pk.to_bytes() {
            Ok(b) => items.push(Item { name: format!("lib/tpk/{name}"), kind: Kind::PubKey, data: b }),
            Err(_) => fail += 1,
        }
        if let Ok(s) = sk.to_armored_string(ArmorOptions::default()) {
            items.push(Item { name: format!("lib/tsk-armored/{name}"), kind: Kind::SecKey, data: s.into_bytes() });
        }
        if let Ok(s) = pk.to_armored_string(ArmorOptions::default()) {
            items.push(Item { name: format!("lib/tpk-armored/{name}"), kind: Kind::PubKey, data: s.into_bytes() });
        }
    }
    for r in &env.recipients {
        match r.sk.to_bytes() {
            Ok(b) => items.push(Item { name: format!("lib/tsk/enc-{}", r.name), kind: Kind::SecKey, data: b }),
            Err(_) => fail += 1,
        }
        // locked with a cheap S2K and the harness password
        let mut k = r.sk.clone();
        let mut salt = [0u8; 8];
        rng.fill_bytes(&mut salt);
        let v6 = u8::from(k.version()) == 6;
        let params = if v6 {
            S2kParams::Aead {
                sym_alg: SymmetricKeyAlgorithm::AES128,
                aead_mode: AeadAlgorithm::Ocb,
                s2k: StringToKey::IteratedAndSalted { hash_alg: HashAlgorithm::Sha256, salt, count: 0 },
                nonce: rnd_bytes(&mut rng, 15).into(),
            }
        } else {
            S2kParams::Cfb {
                sym_alg: SymmetricKeyAlgorithm::AES128,
                s2k: StringToKey::IteratedAndSalted { hash_alg: HashAlgorithm::Sha256, salt, count: 0 },
                iv: rnd_bytes(&mut rng, 16).into(),
            }
        };
        let pwd = Password::from(PW);
        let ok1 = k.primary_key.set_password_with_s2k(&pwd, params.clone()).is_ok();
        let ok2 = k.secret_subkeys.iter_mut().all(|s| s.key.set_password_with_s2k(&pwd, params.clone()).is_ok());
        if ok1 && ok2 {
            if let Ok(b) = k.to_bytes() {
                items.push(Item { name: format!("lib/tsk-locked/enc-{}", r.name), kind: Kind::SecKey, data: b });
            }
            if let Ok(s) = k.to_armored_string(ArmorOptions::default()) {
                items.push(Item { name: format!("lib/tsk-locked-armored/enc-{}", r.name), kind: Kind::SecKey, data: s.into_bytes() });
            }
        } else {
            fail += 1;
        }
    }
    // messages
    let payload: Vec<u8> = (0..700u32).map(|i| b"The quick brown fox\r\n"[(i % 21) as usize]).collect();
    let s4 = env.signers.iter().find(|(n, _, _)| n == "v4-Ed25519Legacy");
    let s6 = env.signers.iter().find(|(n, _, _)| n == "v6-Ed25519");
    let sp = env.signers.iter().find(|(n, _, _)| n == "v4-EcdsaP256");
    let mk = |name: &str, items: &mut Vec<Item>, r: pgp::errors::Result<Vec<u8>>, fail: &mut u32| match r {
        Ok(b) => items.push(Item { name: format!("lib/msg/{name}"), kind: Kind::Msg, data: b }),
        Err(_) => *fail += 1,
    };
    {
        let b = MessageBuilder::from_bytes("lit.txt", payload.clone());
        mk("literal", &mut items, b.to_vec(&mut rng), &mut fail);
        for (cn, c) in [("zip", CompressionAlgorithm::ZIP), ("zlib", CompressionAlgorithm::ZLIB), ("bzip2", CompressionAlgorithm::BZip2), ("uncompressed", CompressionAlgorithm::Uncompressed)] {
            let mut b = MessageBuilder::from_bytes("c.txt", payload.clone());
            b.compression(c);
            mk(&format!("compressed-{cn}"), &mut items, b.to_vec(&mut rng), &mut fail);
        }
        let mut b = MessageBuilder::from_reader("partial.bin", &payload[..]);
        let _ = b.partial_chunk_size(512);
        mk("literal-partial", &mut items, b.to_vec(&mut rng), &mut fail);
        for (sn, s) in [("v4", s4), ("v6", s6), ("p256", sp)] {
            let Some((_, sk, _)) = s else { continue };
            let ha = if sn == "v6" { HashAlgorithm::Sha512 } else { HashAlgorithm::Sha256 };
            let mut b = MessageBuilder::from_bytes("s.txt", payload.clone());
            b.sign(&sk.primary_key, Password::empty(), ha);
            mk(&format!("signed-{sn}"), &mut items, b.to_vec(&mut rng), &mut fail);
            let mut b = MessageBuilder::from_bytes("s.txt", payload.clone());
            b.sign(&sk.primary_key, Password::empty(), ha);
            b.compression(CompressionAlgorithm::ZLIB);
            mk(&format!("signed-compressed-{sn}"), &mut items, b.to_vec(&mut rng), &mut fail);
            let mut b = MessageBuilder::from_bytes("s.txt", payload.clone());
            b.sign(&sk.primary_key, Password::empty(), ha);
            if let Ok(s) = b.to_armored_string(&mut rng, ArmorOptions::default()) {
                items.push(Item { name: format!("lib/msg-armored/signed-{sn}"), kind: Kind::Msg, data: s.into_bytes() });
            }
        }
        if let (Some((_, a, _)), Some((_, b6, _))) = (s4, sp) {
            let mut b = MessageBuilder::from_bytes("s2.txt", payload.clone());
            b.sign(&a.primary_key, Password::empty(), HashAlgorithm::Sha256);
            b.sign(&b6.primary_key, Password::empty(), HashAlgorithm::Sha384);
            b.sign_text();
            mk("signed-two-text", &mut items, b.to_vec(&mut rng), &mut fail);
        }
        for r in &env.recipients {
            let Some(sub) = r.pk.public_subkeys.first() else { continue };
            let v6 = u8::from(r.sk.version()) == 6;
            {
                let mut b = MessageBuilder::from_bytes("e.txt", payload.clone()).seipd_v1(&mut rng, SymmetricKeyAlgorithm::AES128);
                if b.encrypt_to_key(&mut rng, sub).is_ok() {
                    mk(&format!("seipd1-to-{}", r.name), &mut items, b.to_vec(&mut rng), &mut fail);
                } else {
                    fail += 1;
                }
            }
            if v6 {
                let mut b = MessageBuilder::from_bytes("e.txt", payload.clone()).seipd_v2(&mut rng, SymmetricKeyAlgorithm::AES256, AeadAlgorithm::Ocb, ChunkSize::C64B);
                if let Some((_, sk, _)) = s6 {
                    b.sign(&sk.primary_key, Password::empty(), HashAlgorithm::Sha512);
                }
                b.compression(CompressionAlgorithm::ZIP);
                if b.encrypt_to_key(&mut rng, sub).is_ok() {
                    mk(&format!("seipd2-signed-zip-to-{}", r.name), &mut items, b.to_vec(&mut rng), &mut fail);
                } else {
                    fail += 1;
                }
            }
        }
        let s2k = StringToKey::new_iterated(&mut rng, HashAlgorithm::Sha256, 0);
        let mut b = MessageBuilder::from_bytes("p.txt", payload.clone()).seipd_v1(&mut rng, SymmetricKeyAlgorithm::AES256);
        if b.encrypt_with_password(s2k.clone(), &Password::from(MSG_PW)).is_ok() {
            mk("seipd1-password", &mut items, b.to_vec(&mut rng), &mut fail);
        }
        for aead in [AeadAlgorithm::Eax, AeadAlgorithm::Ocb, AeadAlgorithm::Gcm] {
            let mut b = MessageBuilder::from_bytes("p.txt", payload.clone()).seipd_v2(&mut rng, SymmetricKeyAlgorithm::AES128, aead, ChunkSize::C64B);
            if b.encrypt_with_password(&mut rng, s2k.clone(), &Password::from(MSG_PW)).is_ok() {
                mk(&format!("seipd2-password-{aead:?}"), &mut items, b.to_vec(&mut rng), &mut fail);
            }
        }
        let mut b = MessageBuilder::from_bytes("p.txt", payload.clone()).seipd_v2(&mut rng, SymmetricKeyAlgorithm::AES128, AeadAlgorithm::Gcm, ChunkSize::C64B);
        if b.encrypt_with_password(&mut rng, s2k.clone(), &Password::from(MSG_PW)).is_ok() {
            if let Ok(s) = b.to_armored_string(&mut rng, ArmorOptions::default()) {
                items.push(Item { name: "lib/msg-armored/seipd2-password".into(), kind: Kind::Msg, data: s.into_bytes() });
            }
        }
    }
    // detached signatures and cleartext
    for (sn, s) in [("v4", s4), ("v6", s6), ("p256", sp)] {
        let Some((_, sk, _)) = s else { continue };
        let ha = if sn == "v6" { HashAlgorithm::Sha512 } else { HashAlgorithm::Sha256 };
        if let Ok(sig) = DetachedSignature::sign_binary_data(&mut rng, &sk.primary_key, &Password::empty(), ha, &payload[..]) {
            if let Ok(b) = sig.to_bytes() {
                items.push(Item { name: format!("lib/sig/binary-{sn}"), kind: Kind::Sig, data: b });
            }
            if let Ok(a) = sig.to_armored_string(ArmorOptions::default()) {
                items.push(Item { name: format!("lib/sig-armored/binary-{sn}"), kind: Kind::Sig, data: a.into_bytes() });
            }
        } else {
            fail += 1;
        }
        if let Ok(sig) = DetachedSignature::sign_text_data(&mut rng, &sk.primary_key, &Password::empty(), ha, &payload[..]) {
            if let Ok(b) = sig.to_bytes() {
                items.push(Item { name: format!("lib/sig/text-{sn}"), kind: Kind::Sig, data: b });
            }
        }
        let text = "- dash line\nHello  \t\nFrom here\r\n\r\n-----not a header\nend";
        if let Ok(c) = CleartextSignedMessage::sign(&mut rng, text, &sk.primary_key, &Password::empty()) {
            if let Ok(a) = c.to_armored_string(ArmorOptions::default()) {
                items.push(Item { name: format!("lib/cleartext/{sn}"), kind: Kind::Cleartext, data: a.into_bytes() });
            }
        } else {
            fail += 1;
        }
    }
    if fail > 0 {
        ctx.inconclusive(format!("F6: {fail} library artefacts could not be built"));
    }
    ctx.tally("F6.library_artefacts_per_shard", items.len() as u64);
    items
}

const INTERESTING: [u8; 12] = [0x00, 0x01, 0x7F, 0x80, 0xFF, 0xC0, 0xBF, 0xFE, 0xE0, 0x0A, 0x0D, 0x2D];

/// binary mutation operators; returns the operator name
fn mutate_bytes(d: &mut Vec<u8>, other: &[u8], rng: &mut ChaCha8Rng, op: u32) -> &'static str {
    let n = d.len();
    if n == 0 {
        d.extend(rnd_bytes(rng, 4));
        return "fill-empty";
    }
    match op % 12 {
        0 => {
            for _ in 0..rng.gen_range(1..=3) {
                let p = rng.gen_range(0..n);
                d[p] ^= 1 << rng.gen_range(0..8);
            }
            "bitflip"
        }
        1 => {
            let p = rng.gen_range(0..n);
            d[p] = INTERESTING[rng.gen_range(0..INTERESTING.len())];
            "byte-interesting"
        }
        2 => {
            let p = rng.gen_range(0..n);
            d[p] = rng.gen();
            "byte-random"
        }
        3 => {
            let p = rng.gen_range(0..n);
            d.truncate(p);
            "truncate"
        }
        4 => {
            // splice: prefix of this + suffix of the other
            let p = rng.gen_range(0..=n);
            let q = if other.is_empty() { 0 } else { rng.gen_range(0..other.len()) };
            d.truncate(p);
            d.extend_from_slice(&other[q..]);
            "splice"
        }
        5 => {
            // length-field maximisation at a packet boundary (if the input deframes), else at a
            // random position
            let mut done = false;
            if d[0] & 0x80 != 0 {
                if let Ok(pk) = rfc::frame::deframe(d) {
                    if !pk.is_empty() {
                        let x = &pk[rng.gen_range(0..pk.len())];
                        let hdr_len = x.encoded_len - x.body.len();
                        let which = rng.gen_range(0..5);
                        let new_hdr: Vec<u8> = match which {
                            0 => vec![0xC0 | x.tag, 0xFF, 0xFF, 0xFF, 0xFF, 0xFF],
                            1 => vec![0xC0 | x.tag, 0xFF, 0x7F, 0xFF, 0xFF, 0xFF],
                            2 => vec![0xC0 | x.tag, 0xE0 + rng.gen_range(0..31)],
                            3 => vec![0x80 | ((x.tag & 0x0F) << 2) | 3],
                            _ => vec![0x80 | ((x.tag & 0x0F) << 2) | 2, 0xFF, 0xFF, 0xFF, 0xFF],
                        };
                        if x.partial_chunks.is_empty() && hdr_len <= x.encoded_len && x.offset + hdr_len <= d.len() {
                            d.splice(x.offset..x.offset + hdr_len, new_hdr);
                            done = true;
                        }
                    }
                }
            }
            if !done {
                let p = rng.gen_range(0..n);
                for i in 0..5 {
                    if p + i < d.len() {
                        d[p + i] = 0xFF;
                    }
                }
            }
            "length-max"
        }
        6 => {
            let p = rng.gen_range(0..=n);
            let k = rng.gen_range(1..=8);
            let ins = rnd_bytes(rng, k);
            d.splice(p..p, ins);
            "insert"
        }
        7 => {
            let p = rng.gen_range(0..n);
            let l = rng.gen_range(1..=16).min(n - p);
            d.drain(p..p + l);
            "delete"
        }
        8 => {
            let p = rng.gen_range(0..n);
            let l = rng.gen_range(1..=64).min(n - p);
            let seg = d[p..p + l].to_vec();
            d.splice(p..p, seg);
            "duplicate"
        }
        9 => {
            // several random byte substitutions
            for _ in 0..rng.gen_range(2..=8) {
                let p = rng.gen_range(0..n);
                d[p] = rng.gen();
            }
            "bytes-random-multi"
        }
        10 => {
            // a one-octet field near a packet start: all the small values
            let p = rng.gen_range(0..n.min(24));
            d[p] = rng.gen_range(0..=24);
            "head-field-small"
        }
        _ => {
            // swap two blocks
            let a = rng.gen_range(0..n);
            let b = rng.gen_range(0..n);
            let l = rng.gen_range(1..=32).min(n - a.max(b));
            for i in 0..l {
                d.swap(a + i, b + i);
            }
            "swap-blocks"
        }
    }
}

fn mutate_armor_text(d: &mut Vec<u8>, rng: &mut ChaCha8Rng, op: u32) -> &'static str {
    let text = String::from_utf8_lossy(d).to_string();
    let mut lines: Vec<String> = text.split('\n').map(|l| l.to_string()).collect();
    if lines.is_empty() {
        return "armor-none";
    }
    let li = rng.gen_range(0..lines.len());
    let name = match op % 10 {
        0 => {
            lines.remove(li);
            "armor-remove-line"
        }
        1 => {
            let l = lines[li].clone();
            lines.insert(li, l);
            "armor-duplicate-line"
        }
        2 => {
            lines.insert(li, String::new());
            "armor-insert-blank-line"
        }
        3 => {
            for l in lines.iter_mut() {
                l.push('\r');
            }
            "armor-crlf"
        }
        4 => {
            lines[li].push_str(&"A".repeat(rng.gen_range(1..200)));
            "armor-long-line"
        }
        5 => {
            lines[li].push_str(["=", "==", "=AAAA", " ", "\t", "-", "\u{00e9}"][rng.gen_range(0..7)]);
            "armor-append-token"
        }
        6 => {
            // header / footer label tampering
            for l in lines.iter_mut() {
                if l.starts_with("-----") && rng.gen_bool(0.5) {
                    *l = l.replace("PGP", ["PGP", "PG", "PGP PGP", ""][rng.gen_range(0..4)]).replace("MESSAGE", ["MESSAGE", "MESSAGE, PART 1/2", "MESSAGE, PART 1", "SIGNATURE", "PUBLIC KEY BLOCK", "PRIVATE KEY BLOCK", "SIGNED MESSAGE"][rng.gen_range(0..7)]);
                }
            }
            "armor-label"
        }
        7 => {
            lines.insert(1.min(lines.len()), ["Version: x", "Hash: SHA256", "Hash: nope", "Comment", ": v", "Hash: SHA256,SHA512, MD5", "Charset: \u{00e9}"][rng.gen_range(0..7)].to_string());
            "armor-header-line"
        }
        8 => {
            // checksum line tampering
            for l in lines.iter_mut() {
                if l.starts_with('=') && l.len() <= 6 {
                    *l = ["=", "=AAAA", "=AAA", "=AAAAA", "====", "=!!!!"][rng.gen_range(0..6)].to_string();
                }
            }
            "armor-crc-line"
        }
        _ => {
            let keep = rng.gen_range(0..=lines.len());
            lines.truncate(keep);
            "armor-truncate-lines"
        }
    };
    *d = lines.join("\n").into_bytes();
    name
}

fn f6_means<'a>(env: &'a Env) -> Means<'a> {
    let mut m = Means::none();
    for r in &env.recipients {
        m.keys.push(&r.sk);
    }
    for (_, _, pk) in &env.signers {
        m.verifiers.push(pk);
    }
    m.read_cap = 1 << 20;
    m.max_layers = 12;
    m
}

/// All public entry points on one input, each under its own panic capture. `wide`: also the
/// entry points that do not fit the original kind of the artefact.
fn drive_input(d: &[u8], kind: Kind, wide: bool, means: &Means<'_>, variant: u64) -> Obs {
    let mut o_owned = Obs::default();
    let o = std::cell::RefCell::new(&mut o_owned);
    let armored = d.first().map(|b| b & 0x80 == 0).unwrap_or(true);
    let verifiers: Vec<&SignedPublicKey> = means.verifiers.iter().take(3).copied().collect();
    let pws = [Password::from(PW), Password::empty()];
    let content: Vec<u8> = (0..700u32).map(|i| b"The quick brown fox\r\n"[(i % 21) as usize]).collect();
    let want = |k: Kind| wide || kind == k || kind == Kind::Unknown;
    let small = d.len() <= 64 * 1024;

    if !armored {
        if want(Kind::Msg) {
            step("Message::from_bytes -> decrypt/decompress/read/verify", || match Message::from_bytes(d) {
                Ok(m) => drive_message(m, means, variant, &mut o.borrow_mut()),
                Err(_) => o.borrow_mut().errs += 1,
            });
        }
        if want(Kind::PubKey) {
            let mut parsed = None;
            step("SignedPublicKey::from_bytes", || match SignedPublicKey::from_bytes(d) {
                Ok(k) => parsed = Some(k),
                Err(_) => o.borrow_mut().errs += 1,
            });
            if let Some(k) = parsed {
                if small {
                    exercise_public_key(&k, &mut o.borrow_mut())
                } else {
                    o.borrow_mut().parsed += 1
                }
            }
            if variant % 3 == 0 {
                step("SignedPublicKey::from_bytes_many (iterate, fingerprint, verify_bindings)", || {
                    if let Ok(it) = SignedPublicKey::from_bytes_many(d) {
                        for k in it.take(20) {
                            match k {
                                Ok(k) => {
                                    o.borrow_mut().parsed += 1;
                                    let _ = k.fingerprint();
                                    let _ = k.verify_bindings();
                                }
                                Err(_) => o.borrow_mut().errs += 1,
                            }
                        }
                    }
                });
            }
        }
        if want(Kind::SecKey) {
            let mut parsed = None;
            step("SignedSecretKey::from_bytes", || match SignedSecretKey::from_bytes(d) {
                Ok(k) => parsed = Some(k),
                Err(_) => o.borrow_mut().errs += 1,
            });
            if let Some(k) = parsed {
                if small {
                    exercise_secret_key_opts(&k, &pws, variant, false, 0x90, &mut o.borrow_mut())
                } else {
                    o.borrow_mut().parsed += 1
                }
            }
            if variant % 3 == 1 {
                step("SignedSecretKey::from_bytes_many (iterate)", || {
                    if let Ok(it) = SignedSecretKey::from_bytes_many(d) {
                        for k in it.take(20) {
                            match k {
                                Ok(k) => {
                                    o.borrow_mut().parsed += 1;
                                    let _ = k.fingerprint();
                                    let _ = k.to_public_key();
                                }
                                Err(_) => o.borrow_mut().errs += 1,
                            }
                        }
                    }
                });
            }
        }
        if want(Kind::Sig) {
            step("DetachedSignature::from_bytes -> verify / accessors", || match DetachedSignature::from_bytes(d) {
                Ok(s) => exercise_detached(&s, &verifiers, &content, &mut o.borrow_mut()),
                Err(_) => o.borrow_mut().errs += 1,
            });
            if variant % 3 == 2 {
                step("DetachedSignature::from_bytes_many (iterate)", || {
                    if let Ok(it) = DetachedSignature::from_bytes_many(d) {
                        for s in it.take(50) {
                            match s {
                                Ok(s) => exercise_signature_packet(&s.signature, &mut o.borrow_mut()),
                                Err(_) => o.borrow_mut().errs += 1,
                            }
                        }
                    }
                });
            }
        }
        if wide || variant % 2 == 0 {
            step("PacketParser (iterate, to_writer, write_len, decompress)", || exercise_packets(d, 2000, &mut o.borrow_mut()));
        }
        if wide {
            // binary fed to the armor readers
            step("Dearmor::read_to_end on binary input", || {
                let mut out = Vec::new();
                let _ = Dearmor::new(d).read_to_end(&mut out);
            });
            step("Message::from_reader", || {
                let _ = Message::from_reader(d).map(|_| ());
            });
        }
    } else {
        // armored / text input
        if want(Kind::Msg) {
            step("Message::from_armor -> decrypt/decompress/read/verify", || match Message::from_armor(d) {
                Ok((m, h)) => {
                    let _ = h.len();
                    drive_message(m, means, variant, &mut o.borrow_mut())
                }
                Err(_) => o.borrow_mut().errs += 1,
            });
            if variant % 4 == 0 {
                step("Message::from_reader -> decrypt/decompress/read/verify", || match Message::from_reader(d) {
                    Ok((m, _)) => drive_message(m, means, variant + 1, &mut o.borrow_mut()),
                    Err(_) => o.borrow_mut().errs += 1,
                });
            }
        }
        if want(Kind::PubKey) {
            let mut parsed = None;
            step("SignedPublicKey::from_armor_single", || match SignedPublicKey::from_armor_single(d) {
                Ok((k, _)) => parsed = Some(k),
                Err(_) => o.borrow_mut().errs += 1,
            });
            if let Some(k) = parsed {
                if small {
                    exercise_public_key(&k, &mut o.borrow_mut())
                } else {
                    o.borrow_mut().parsed += 1
                }
            }
            if variant % 3 == 0 {
                step("SignedPublicKey::from_armor_many (keeps iterating after an Err item)", || {
                    if let Ok((it, _)) = SignedPublicKey::from_armor_many(d) {
                        for k in it.take(20) {
                            match k {
                                Ok(k) => {
                                    o.borrow_mut().parsed += 1;
                                    let _ = k.verify_bindings();
                                }
                                Err(_) => o.borrow_mut().errs += 1,
                            }
                        }
                    }
                });
                step("SignedPublicKey::from_armor_many (stop at first Err)", || {
                    if let Ok((it, _)) = SignedPublicKey::from_armor_many(d) {
                        for k in it.take(20) {
                            if k.is_err() {
                                break;
                            }
                        }
                    }
                });
                step("SignedPublicKey::from_reader_single", || {
                    let _ = SignedPublicKey::from_reader_single(d).map(|_| ());
                });
            }
        }
        if want(Kind::SecKey) {
            let mut parsed = None;
            step("SignedSecretKey::from_armor_single", || match SignedSecretKey::from_armor_single(d) {
                Ok((k, _)) => parsed = Some(k),
                Err(_) => o.borrow_mut().errs += 1,
            });
            if let Some(k) = parsed {
                if small {
                    exercise_secret_key_opts(&k, &pws, variant, false, 0x90, &mut o.borrow_mut())
                } else {
                    o.borrow_mut().parsed += 1
                }
            }
        }
        if want(Kind::Sig) {
            step("DetachedSignature::from_armor_single -> verify / accessors", || match DetachedSignature::from_armor_single(d) {
                Ok((s, _)) => exercise_detached(&s, &verifiers, &content, &mut o.borrow_mut()),
                Err(_) => o.borrow_mut().errs += 1,
            });
        }
        if want(Kind::Cleartext) {
            step("CleartextSignedMessage::from_armor -> verify / accessors", || match CleartextSignedMessage::from_armor(d) {
                Ok((m, _)) => exercise_cleartext(&m, &verifiers, &mut o.borrow_mut()),
                Err(_) => o.borrow_mut().errs += 1,
            });
        }
        if let Ok(st) = std::str::from_utf8(d) {
            if want(Kind::Cleartext) {
                step("CleartextSignedMessage::from_string -> verify / accessors", || match CleartextSignedMessage::from_string(st) {
                    Ok((m, _)) => exercise_cleartext(&m, &verifiers, &mut o.borrow_mut()),
                    Err(_) => o.borrow_mut().errs += 1,
                });
            }
            if variant % 2 == 1 {
                step("Any::from_string -> exercise", || match Any::from_string(st) {
                    Ok((a, _)) => {
                        o.borrow_mut().parsed += 1;
                        match a {
                            Any::Cleartext(m) => exercise_cleartext(&m, &verifiers, &mut o.borrow_mut()),
                            Any::PublicKey(k) => {
                                let _ = k.verify_bindings();
                            }
                            Any::SecretKey(k) => {
                                let _ = k.verify_bindings();
                            }
                            Any::Message(m) => drive_message(m, means, variant, &mut o.borrow_mut()),
                            Any::Signature(s) => exercise_detached(&s, &verifiers, &content, &mut o.borrow_mut()),
                        }
                    }
                    Err(_) => o.borrow_mut().errs += 1,
                });
                step("SignedPublicKey::from_string", || {
                    let _ = SignedPublicKey::from_string(st).map(|_| ());
                });
                step("SignedSecretKey::from_string", || {
                    let _ = SignedSecretKey::from_string(st).map(|_| ());
                });
                step("DetachedSignature::from_string", || {
                    let _ = DetachedSignature::from_string(st).map(|_| ());
                });
                step("Message::from_string", || {
                    let _ = Message::from_string(st).map(|_| ());
                });
                step("SignedPublicKey::from_string_many (keeps iterating after an Err item)", || {
                    if let Ok((it, _)) = SignedPublicKey::from_string_many(st) {
                        for k in it.take(10) {
                            if k.is_err() {
                                o.borrow_mut().errs += 1;
                            }
                        }
                    }
                });
            }
        } else if variant % 2 == 1 {
            step("Any::from_armor", || match Any::from_armor(d) {
                Ok(_) => o.borrow_mut().parsed += 1,
                Err(_) => o.borrow_mut().errs += 1,
            });
        }
        // the dearmor reader itself, with and without CRC check / limit, different read sizes
        for (i, opt) in [
            DearmorOptions::new(),
            DearmorOptions::new().enable_crc24_check(),
            DearmorOptions::new().set_limit(64),
            DearmorOptions::new().set_limit(0),
        ]
        .into_iter()
        .enumerate()
        {
            if i >= 2 && variant % 4 != 0 {
                continue;
            }
            step("Dearmor::with_options -> read_header / read to end / crc24_status / into_parts", || {
                let mut o = o.borrow_mut();
                let mut de = Dearmor::with_options(BufReader::with_capacity(1 + (variant as usize * 7) % 300, d), opt);
                let mut out = Vec::new();
                if variant % 2 == 0 && de.read_header().is_err() {
                    // an errored reader is not used any further (probed separately, family F6e)
                    o.read_err += 1;
                    return;
                }
                let mut buf = [0u8; 97];
                let k = 1 + (variant as usize % 97);
                let mut done = false;
                loop {
                    match de.read(&mut buf[..k]) {
                        Ok(0) => {
                            o.read_ok += 1;
                            done = true;
                            break;
                        }
                        Ok(n) => {
                            out.extend_from_slice(&buf[..n]);
                            if out.len() > (4 << 20) {
                                break;
                            }
                        }
                        Err(_) => {
                            o.read_err += 1;
                            break;
                        }
                    }
                }
                let _ = de.crc24_status();
                let _ = de.typ;
                let _ = de.max_buffer_limit();
                if done {
                    let _ = de.into_parts();
                }
                o.bytes += out.len() as u64;
            });
        }
        if wide {
            // text fed to the binary entry points
            step("Message::from_bytes / PacketParser on text input", || {
                let _ = Message::from_bytes(d).map(|_| ());
                exercise_packets(d, 200, &mut o.borrow_mut());
            });
        }
    }
    drop(o);
    o_owned
}

fn f6(ctx: &mut Ctx, env: &Env) {
    core::describe_case("F6:corpus-setup");
    let mut items = fixture_items(ctx);
    let n_fix = items.len();
    if n_fix < 100 {
        ctx.inconclusive(format!("F6: only {n_fix} fixtures found under /repo/tests"));
    }
    items.extend(library_items(ctx, env));
    let means = f6_means(env);
    // unmutated corpus first: every item through every entry point
    for (ii, it) in items.iter().enumerate() {
        if !ctx.mine() {
            continue;
        }
        ctx.cover(&("F6-orig", &it.name));
        let desc = format!("F6:{}/unmutated", it.name);
        let o = run_case(
            ctx,
            "F6",
            &desc,
            || json!({"api": "all entry points", "item": it.name, "input": hexs(&it.data)}),
            || drive_input(&it.data, it.kind, true, &means, ii as u64),
        );
        if let Some(o) = o {
            o.tally(ctx, "F6orig");
            if it.name.starts_with("lib/") && o.parsed == 0 {
                ctx.inconclusive(format!("F6: library artefact {} did not parse", it.name));
            }
        }
    }
    // F6e: the dearmor reader used again after it returned an error
    for (ii, it) in items.iter().enumerate().filter(|(_, it)| it.name.starts_with("lib/") && it.name.contains("armored")).take(12) {
        if !ctx.mine() {
            continue;
        }
        for (vi, variant) in ["read-after-failed-read_header", "read-after-failed-read", "read_header-after-failed-read"].iter().enumerate() {
            let mut d = it.data.clone();
            // break the footer / body so that reading fails late, or the header so that it fails early
            let desc = format!("F6e:dearmor/{variant}");
            if vi == 1 || vi == 2 {
                let n = d.len();
                if n > 40 {
                    d[n / 2] = b'!';
                }
            }
            ctx.cover(&("F6e", ii, vi));
            let _ = run_case(
                ctx,
                "F6e",
                &desc,
                || json!({"api": format!("Dearmor: {variant}"), "input": hexs(&d)}),
                || {
                    let mut buf = [0u8; 64];
                    match vi {
                        0 => {
                            let mut de = Dearmor::with_options(&d[..], DearmorOptions::new().set_limit(8));
                            if de.read_header().is_err() {
                                let _ = de.read(&mut buf);
                            }
                        }
                        1 => {
                            let mut de = Dearmor::new(&d[..]);
                            loop {
                                match de.read(&mut buf) {
                                    Ok(0) => break,
                                    Ok(_) => {}
                                    Err(_) => {
                                        let _ = de.read(&mut buf);
                                        break;
                                    }
                                }
                            }
                        }
                        _ => {
                            let mut de = Dearmor::new(&d[..]);
                            loop {
                                match de.read(&mut buf) {
                                    Ok(0) => break,
                                    Ok(_) => {}
                                    Err(_) => {
                                        let _ = de.read_header();
                                        break;
                                    }
                                }
                            }
                        }
                    }
                },
            );
        }
    }
    // mutation rounds
    let (fix_stride, fix_rounds, lib_rounds) = if ctx.quick() { (2usize, 40u64, 260u64) } else { (1usize, 2400u64, 12000u64) };
    for (ii, it) in items.iter().enumerate() {
        let is_fix = ii < n_fix;
        if is_fix && ii % fix_stride != 0 {
            continue;
        }
        // larger inputs get fewer rounds (cost is linear in size)
        // (fixtures that are expensive by construction - an 8192-bit RSA key, a 4 GiB
        // decompression bomb - get few rounds: each of their cases costs seconds)
        let heavy = it.name.contains("rsa8k") || it.name.contains("4gb-packet");
        let scale = if heavy { 24 } else if it.data.len() > 32 * 1024 { 8 } else if it.data.len() > 8 * 1024 { 3 } else { 1 };
        let rounds = (if is_fix { fix_rounds } else { lib_rounds }) / scale;
        let group = 10u64;
        let armored = it.data.first().map(|b| b & 0x80 == 0).unwrap_or(true);
        // for armored items: the dearmored payload, so that mutations reach the packet layer
        // behind a valid armor (re-encoded with a correct checksum)
        let parsed_armor = if armored {
            std::str::from_utf8(&it.data).ok().and_then(|s| rfc::armor::armor_parse_strict(&s.replace("\r\n", "\n")).ok())
        } else {
            None
        };
        for g in 0..rounds.div_ceil(group) {
            if !ctx.mine() {
                continue;
            }
            let mut obs = Obs::default();
            for r in g * group..((g + 1) * group).min(rounds) {
                let mut rng = ctx.rng("F6", (ii as u64) << 24 | r);
                let other = &items[rng.gen_range(0..items.len())];
                let op: u32 = rng.gen_range(0..1000);
                let mut d = it.data.clone();
                let mut mut_name: String;
                if armored {
                    match (&parsed_armor, op % 4) {
                        (Some(pa), 0 | 1) => {
                            let mut bin = pa.data.clone();
                            let other_bin = if other.data.first().map(|b| b & 0x80 != 0).unwrap_or(false) { &other.data[..] } else { &[][..] };
                            let m = mutate_bytes(&mut bin, other_bin, &mut rng, op / 4);
                            let crlf = rng.gen_bool(0.2);
                            d = rfc::armor::armor_encode(&pa.typ, &pa.headers, &bin, rng.gen_bool(0.8), if crlf { "\r\n" } else { "\n" }).into_bytes();
                            if !pa.rest.is_empty() || it.kind == Kind::Cleartext {
                                // keep what precedes / follows (cleartext framework): fall back to raw
                                d = it.data.clone();
                                let m2 = mutate_bytes(&mut d, &other.data, &mut rng, op / 4);
                                mut_name = format!("raw-{m2}");
                            } else {
                                mut_name = format!("rearmored-{m}");
                            }
                        }
                        (_, 2) => {
                            mut_name = mutate_armor_text(&mut d, &mut rng, op / 4).to_string();
                        }
                        _ => {
                            let m = mutate_bytes(&mut d, &other.data, &mut rng, op / 4);
                            mut_name = format!("raw-{m}");
                        }
                    }
                } else {
                    let m = mutate_bytes(&mut d, &other.data, &mut rng, op / 4);
                    mut_name = m.to_string();
                    if rng.gen_bool(0.15) {
                        let op2: u32 = rng.gen();
                        let m2 = mutate_bytes(&mut d, &other.data, &mut rng, op2);
                        mut_name = format!("{m}+{m2}");
                    }
                    if rng.gen_bool(0.08) {
                        // armor the mutated binary under each label
                        let label = ["PGP MESSAGE", "PGP PUBLIC KEY BLOCK", "PGP PRIVATE KEY BLOCK", "PGP SIGNATURE"][rng.gen_range(0..4)];
                        d = rfc::armor::armor_encode(label, &[], &d, true, "\n").into_bytes();
                        mut_name = format!("{mut_name}+armored");
                    }
                }
                if d.len() > 512 * 1024 {
                    d.truncate(512 * 1024);
                }
                let wide = r % 5 == 0;
                ctx.cover(&("F6", &it.name, r));
                ctx.seen("F6.mutators", mut_name.split('+').next().unwrap_or("").to_string());
                let desc = format!("F6:{}/{mut_name}", it.name);
                let o = run_case(
                    ctx,
                    "F6",
                    &desc,
                    || json!({"api": "Message/SignedPublicKey/SignedSecretKey/DetachedSignature/CleartextSignedMessage/Any::from_*, Dearmor, PacketParser + post-parse exercise", "item": it.name, "mutation": mut_name, "input": hexfull(&d)}),
                    || drive_input(&d, it.kind, wide, &means, r),
                );
                if let Some(o) = o {
                    obs.merge(&o);
                }
            }
            obs.tally(ctx, if is_fix { "F6fix" } else { "F6lib" });
        }
        if !is_fix && it.data.len() <= 400 && !ctx.quick() {
            // small library artefacts: every truncation and every single bit flip (thorough)
            if !ctx.mine() {
                continue;
            }
            let mut obs = Obs::default();
            for cut in 0..it.data.len() {
                let d = &it.data[..cut];
                let desc = format!("F6:{}/truncate-every", it.name);
                let o = run_case(ctx, "F6", &desc, || json!({"item": it.name, "input": hexs(d)}), || drive_input(d, it.kind, false, &means, cut as u64));
                if let Some(o) = o {
                    obs.merge(&o);
                }
            }
            for bit in 0..it.data.len() * 8 {
                let mut d = it.data.clone();
                d[bit / 8] ^= 1 << (bit % 8);
                let desc = format!("F6:{}/bitflip-every", it.name);
                ctx.cover(&("F6-bit", &it.name, bit));
                let o = run_case(ctx, "F6", &desc, || json!({"item": it.name, "input": hexs(&d)}), || drive_input(&d, it.kind, false, &means, bit as u64));
                if let Some(o) = o {
                    obs.merge(&o);
                }
            }
            obs.tally(ctx, "F6lib");
        }
    }
}

/// F1r — ESK plaintext behind an *honest, reference-made* ECDH / X25519 / X448 key agreement.
/// The library's own `encrypt` always pads validly and always wraps well-formed key data; a
/// hostile sender does the agreement, KDF and AES key wrap correctly but chooses the wrapped
/// octets freely (padding octet larger than the plaintext, inconsistent padding, odd lengths).
fn f1r(ctx: &mut Ctx) {
    use crate::rfc::frame::{frame, LenForm};
    use crate::rfc::key::{ecdh_kek, ecdh_shared_sender, parse_ecdh_material, x25519_wrap, x448_wrap, RefPub};
    let specs = [
        zoo::Spec::simple(false, zoo::Alg::Ed25519Legacy, Some(zoo::Alg::EcdhCv25519)),
        zoo::Spec::simple(false, zoo::Alg::Ed25519Legacy, Some(zoo::Alg::EcdhP256)),
        zoo::Spec::simple(true, zoo::Alg::Ed25519, Some(zoo::Alg::EcdhP256)),
        zoo::Spec::simple(false, zoo::Alg::Ed25519Legacy, Some(zoo::Alg::EcdhP384)),
        zoo::Spec::simple(true, zoo::Alg::Ed25519, Some(zoo::Alg::EcdhP521)),
        zoo::Spec::simple(false, zoo::Alg::Ed25519Legacy, Some(zoo::Alg::X25519)),
        zoo::Spec::simple(true, zoo::Alg::Ed25519, Some(zoo::Alg::X25519)),
        zoo::Spec::simple(true, zoo::Alg::Ed25519, Some(zoo::Alg::X448)),
    ];
    let lasts: Vec<u8> = if ctx.quick() { vec![0, 1, 2, 7, 8, 9, 15, 16, 17, 24, 25, 39, 40, 41, 128, 255] } else { (0..=255).collect() };
    for (si, spec) in specs.iter().enumerate() {
        let key = zoo::key(spec, 0);
        let Some(sub) = key.secret_subkeys.first() else { continue };
        let Ok(pub_body) = sub.key.public_key().to_bytes() else { continue };
        let Some((rp, _)) = RefPub::parse_prefix(&pub_body) else { continue };
        let fp = rp.fingerprint();
        let kid = rp.key_id();
        for v6 in [false, true] {
            for len in [8usize, 16, 24, 32, 40, 48] {
                if !ctx.mine() {
                    continue;
                }
                core::describe_case(&format!("F1r:{}:pkesk-v{}:len={len}", spec.name(), if v6 { 6 } else { 3 }));
                let mut rng = ctx.rng("F1r", (si * 1000 + len * 2 + v6 as usize) as u64);
                for (li, last) in lasts.iter().enumerate() {
                    for fill in 0..3u8 {
                        // raw wrapped octets: random / all equal to `last` / session-key-like with bad padding
                        let mut raw = vec![0u8; len];
                        rng.fill_bytes(&mut raw);
                        match fill {
                            1 => raw.iter_mut().for_each(|b| *b = *last),
                            2 => {
                                raw[0] = 7;
                            }
                            _ => {}
                        }
                        raw[len - 1] = *last;
                        let mut seed = [0u8; 32];
                        rng.fill_bytes(&mut seed);
                        let fields: Option<Vec<u8>> = match rp.alg {
                            18 => (|| {
                                let ek = parse_ecdh_material(&rp.material)?;
                                let (eph, shared) = ecdh_shared_sender(&ek.oid, &ek.point, &seed)?;
                                let kek = ecdh_kek(&ek, &fp, &shared)?;
                                let wrapped = rfc::sym::aes_kw_wrap(&kek, &raw)?;
                                let mut o = rfc::mpi(&eph);
                                o.push(wrapped.len() as u8);
                                o.extend(wrapped);
                                Some(o)
                            })(),
                            25 => (|| {
                                if len < 16 {
                                    return None;
                                }
                                let rpk: [u8; 32] = rp.material.get(..32)?.try_into().ok()?;
                                let (eph, wrapped) = x25519_wrap(&rpk, &seed, &raw)?;
                                let mut o = eph;
                                if v6 {
                                    o.push(wrapped.len() as u8);
                                } else {
                                    o.push(wrapped.len() as u8 + 1);
                                    o.push(*last);
                                }
                                o.extend(wrapped);
                                Some(o)
                            })(),
                            26 => (|| {
                                if len < 16 {
                                    return None;
                                }
                                let rpk: [u8; 56] = rp.material.get(..56)?.try_into().ok()?;
                                let mut s56 = [0u8; 56];
                                rng.fill_bytes(&mut s56);
                                let (eph, wrapped) = x448_wrap(&rpk, &s56, &raw)?;
                                let mut o = eph;
                                if v6 {
                                    o.push(wrapped.len() as u8);
                                } else {
                                    o.push(wrapped.len() as u8 + 1);
                                    o.push(*last);
                                }
                                o.extend(wrapped);
                                Some(o)
                            })(),
                            _ => None,
                        };
                        let Some(fields) = fields else { continue };
                        let mut pk = vec![];
                        if v6 {
                            pk.push(6u8);
                            pk.push(fp.len() as u8 + 1);
                            pk.push(rp.version);
                            pk.extend(&fp);
                        } else {
                            pk.push(3u8);
                            pk.extend(kid);
                        }
                        pk.push(rp.alg);
                        pk.extend(fields);
                        let mut msg = frame(1, &pk, &LenForm::NewMin).unwrap();
                        // container: the session key (whatever the recipient derives) will not match;
                        // what matters is that deriving it does not panic
                        let sk = [0x11u8; 16];
                        let lit = frame(11, &[b'b', 0, 0, 0, 0, 0, b'h', b'i'], &LenForm::NewMin).unwrap();
                        if v6 {
                            let body = rfc::sym::seipd_v2_encrypt(7, 2, 0, &[5u8; 32], &sk, &lit).unwrap();
                            msg.extend(frame(18, &body, &LenForm::NewMin).unwrap());
                        } else {
                            let mut body = vec![1u8];
                            body.extend(rfc::sym::seipd_v1_encrypt(7, &sk, &[9u8; 16], &lit).unwrap());
                            msg.extend(frame(18, &body, &LenForm::NewMin).unwrap());
                        }
                        let replay = || json!({"family": "F1r", "key": spec.name(), "pkesk_v6": v6, "wrapped_plain": hexs(&raw), "msg": hexs(&msg)});
                        ctx.eval();
                        ctx.cover(&("F1r", si, v6, len, *last, fill));
                        let _ = ctx.guarded("C04/F1r", replay, || {
                            if let Ok(m) = Message::from_bytes(&msg[..]) {
                                if let Ok(mut d) = m.decrypt(&Password::empty(), &key) {
                                    let mut out = vec![];
                                    let _ = d.read_to_end(&mut out);
                                }
                            }
                        });
                        let _ = li;
                    }
                }
                ctx.seen("F1r.recipients", format!("alg{}-pkesk-v{}", rp.alg, if v6 { 6 } else { 3 }));
            }
        }
    }
}

// ------------------------------------------------------------------------------------------
// F7: attacker-chosen signature *values* behind a well-formed signature packet

/// For every signing algorithm and key version the harness holds: a signature packet whose hashed area,
/// salt and digest prefix are right for the document (so verification gets as far as the public-key
/// primitive) and whose algorithm-specific value is attacker-chosen: every combination of MPI octet
/// lengths from a boundary list (0, 1, around the field size of every curve, RSA/DSA sizes, oversized),
/// wrong MPI counts, native values of wrong length. Driven through `Signature::verify`, the detached and the
/// inline path and the packet re-serialisation.
fn f7(ctx: &mut Ctx, env: &Env) {
    use crate::rfc::frame::{frame, LenForm};
    let doc: &[u8] = b"signed by a hostile peer\r\n";
    let lens_small: Vec<usize> = vec![0, 1, 2, 19, 20, 21, 27, 28, 29, 31, 32, 33, 34, 47, 48, 49, 50, 55, 56, 57, 63, 64, 65, 66, 67, 68, 70, 113, 114, 115, 128, 255, 256, 257, 300, 512, 1024, 2048];
    let lens_quick: Vec<usize> = vec![0, 1, 20, 31, 32, 33, 34, 47, 48, 49, 65, 66, 67, 70, 114, 256, 257, 300];
    let lens = if ctx.quick() { lens_quick } else { lens_small };
    for (si, (name, sk, pk)) in env.signers.iter().enumerate() {
        let v6 = u8::from(sk.version()) == 6;
        let mut rng0 = ctx.rng("F7", si as u64);
        let salt = if v6 { rnd_bytes(&mut rng0, 32) } else { vec![] };
        let mut hashed = rfc::sig::encode_subpacket(2, false, &[0x65, 0, 0, 0], 0);
        hashed.extend(rfc::sig::encode_subpacket(33, false, &[&[u8::from(sk.version())][..], sk.fingerprint().as_bytes()].concat(), 0));
        let unhashed = if v6 { vec![] } else { rfc::sig::encode_subpacket(16, false, sk.legacy_key_id().as_ref(), 0) };
        // SHA-512 suits every key's hash-strength policy (P-384/P-521/Ed448 refuse SHA-256); v6 salt 32
        let Some((_, rs)) = crafted_signature_h(sk, doc, 0, hashed, unhashed, salt, Some(10)) else {
            ctx.inconclusive(format!("F7: cannot craft a signature for {name}"));
            continue;
        };
        let alg = rs.pub_alg;
        // the value variants: (label, octets)
        let mpi_of = |rng: &mut ChaCha8Rng, n: usize, top: u8| -> Vec<u8> {
            let mut v = rnd_bytes(rng, n);
            if n > 0 {
                v[0] = top;
            }
            // hostile: bit count as for a minimal MPI, octets exactly as chosen
            let bits = if n == 0 { 0 } else { (n * 8) as u32 - v[0].leading_zeros().min(7) };
            let mut o = (bits as u16).to_be_bytes().to_vec();
            o.extend(v);
            o
        };
        let mut cases: Vec<(String, Vec<u8>)> = vec![];
        for (ai, &a) in lens.iter().enumerate() {
            // one MPI only
            cases.push((format!("one-mpi:{a}"), mpi_of(&mut rng0, a, 0x80)));
            for (bi, &b) in lens.iter().enumerate() {
                // all pairs on the small lengths, a diagonal band plus the extremes above
                if !(a <= 70 && b <= 70) && ai != bi && ai != 0 && bi != 0 && a != 1024 && b != 1024 {
                    continue;
                }
                for top in [0x80u8, 0x01] {
                    if top == 0x01 && (ai + bi) % 3 != 0 {
                        continue;
                    }
                    let mut v = mpi_of(&mut rng0, a, top);
                    v.extend(mpi_of(&mut rng0, b, top));
                    cases.push((format!("two-mpis:{a}+{b}:top={top:#x}"), v));
                }
            }
            // three MPIs / native octets of that length
            let mut v = mpi_of(&mut rng0, a, 0x80);
            v.extend(mpi_of(&mut rng0, a, 0x80));
            v.extend(mpi_of(&mut rng0, a, 0x80));
            cases.push((format!("three-mpis:{a}"), v));
            cases.push((format!("native:{a}"), rnd_bytes(&mut rng0, a)));
        }
        // the genuine value with r and s swapped, doubled, and with a lying bit count
        cases.push(("genuine-doubled".into(), [rs.sig_data.clone(), rs.sig_data.clone()].concat()));
        if rs.sig_data.len() > 2 {
            let mut v = rs.sig_data.clone();
            v[0] = 0xFF;
            v[1] = 0xFF;
            cases.push(("genuine-bitcount-ffff".into(), v));
            cases.push(("genuine-truncated".into(), rs.sig_data[..rs.sig_data.len() - 1].to_vec()));
        }
        for (ci, (label, value)) in cases.iter().enumerate() {
            if !ctx.mine() {
                continue;
            }
            let mut r2 = rs.clone();
            r2.sig_data = value.clone();
            let body = r2.encode();
            let desc = format!("F7:{name}:alg={alg}:{label}");
            let class = label.split(':').next().unwrap_or("").to_string();
            let pkb = pk.clone();
            let obs = run_case(ctx, "F7", &desc, || json!({"family": "F7", "signer": name, "value": label, "signature_body": hexfull(&body)}), || {
                let mut obs = Obs::default();
                let hdr = pgp::packet::PacketHeader::new_fixed(pgp::types::Tag::Signature, body.len() as u32);
                stage("Signature::try_from_reader");
                if let Ok(sig) = pgp::packet::Signature::try_from_reader(hdr, &body[..]) {
                    obs.parsed += 1;
                    step("Signature::verify", || {
                        match sig.verify(&pkb.primary_key, doc) {
                            Ok(()) => obs.verified_ok += 1,
                            Err(_) => obs.verified_err += 1,
                        }
                    });
                    step("Signature::to_bytes", || {
                        if sig.to_bytes().is_ok() {
                            obs.serialized += 1;
                        }
                    });
                    exercise_signature_packet(&sig, &mut obs);
                } else {
                    obs.errs += 1;
                }
                // inline: [signature][literal]
                let mut lit = vec![b'b', 0, 0, 0, 0, 0];
                lit.extend_from_slice(doc);
                let mut msg = frame(2, &body, &LenForm::NewMin).unwrap_or_default();
                msg.extend(frame(11, &lit, &LenForm::NewMin).unwrap_or_default());
                stage("Message::from_bytes");
                if let Ok(mut m) = Message::from_bytes(&msg[..]) {
                    let mut out = vec![];
                    step("Message::read_to_end", || {
                        let _ = m.read_to_end(&mut out);
                    });
                    step("Message::verify", || {
                        match m.verify(&pkb.primary_key) {
                            Ok(_) => obs.verified_ok += 1,
                            Err(_) => obs.verified_err += 1,
                        }
                    });
                }
                // detached
                stage("DetachedSignature::from_bytes");
                if let Ok(ds) = DetachedSignature::from_bytes(&frame(2, &body, &LenForm::NewMin).unwrap_or_default()[..]) {
                    step("DetachedSignature::verify", || {
                        let _ = ds.verify(&pkb.primary_key, doc);
                    });
                }
                obs
            });
            if let Some(o) = obs {
                o.tally(ctx, "F7");
                ctx.cover(&("F7", name, ci));
                ctx.seen("F7.alg x value-class", format!("{alg}/{class}"));
                if o.verified_ok > 0 && !label.starts_with("genuine") {
                    ctx.tally("F7.hostile-value-verified", o.verified_ok as u64);
                }
            }
        }
        if si < 2 {
            ctx.sample(json!({"family": "F7", "signer": name, "alg": alg, "value_variants": cases.len()}));
        }
    }
}

pub fn run(ctx: &mut Ctx) {
    let only = std::env::var("VERIF_C04_ONLY").unwrap_or_default();
    let want = |f: &str| only.is_empty() || only.split(',').any(|x| x == f);
    let env = Env::new();
    if want("F5") {
        // first: cases that may take the process down
        f5_deep(ctx, &env);
        f5_deep_embedded(ctx, &env);
        f5_deep_embedded_siblings(ctx, &env);
    }
    if want("F1") {
        f1(ctx, &env);
        f1r(ctx);
    }
    if want("F2") {
        f2(ctx);
        f2_v1_short(ctx);
    }
    if want("F3") {
        f3(ctx);
    }
    if want("F4") {
        f4(ctx, &env);
        f4c(ctx);
    }
    if want("F5") {
        f5(ctx, &env);
    }
    if want("F6") {
        f6(ctx, &env);
    }
    if want("F7") {
        f7(ctx, &env);
    }
}
