//! C01 — message round trip: what the builder emits, the reader returns unchanged.
//!
//! Deciding oracle (public API boundary): `MessageBuilder` output is parsed by
//! `Message::from_bytes` / `from_armor`, decrypted through every recipient / password / the
//! session key, decompressed, drained with a consumer pattern; bytes, literal header and every
//! embedded signature are compared with what was requested. Independent cross-check: the emitted
//! packets are deframed by `rfc::frame`, the SEIPD container is opened by `rfc::sym`
//! (never calling `pgp`), compressed layers by flate2, and the literal body must equal the payload.
//! Hooks give conservation invariants and state coverage.

use std::collections::BTreeMap;
use std::io::Read;
use std::path::PathBuf;

use pgp::composed::{
    ArmorOptions, DecryptionOptions, Encryption, Message, MessageBuilder, NoEncryption,
    PlainSessionKey, SignedPublicKey, SignedSecretKey, TheRing, VerificationResult,
};
use pgp::crypto::aead::{AeadAlgorithm, ChunkSize};
use pgp::crypto::hash::HashAlgorithm;
use pgp::crypto::sym::SymmetricKeyAlgorithm;
use pgp::composed::SubpacketConfig;
use pgp::packet::{DataMode, Subpacket, SubpacketData};
use pgp::types::{CompressionAlgorithm, KeyDetails, Password, Seipdv1ReadMode, StringToKey, Timestamp};
use rand::{Rng, RngCore, SeedableRng};
use rand_chacha::ChaCha8Rng;
use serde_json::{json, Value};

use crate::core::{describe_case, hexs, Ctx};
use crate::hooks::{self, Ev};
use crate::rfc;
use crate::shim::{drain, Consume, Sched, SchedReader, SchedWriter};
use crate::zoo::{self, Alg, Spec};

// ------------------------------------------------------------------------------------------
// configuration space

const D_SRC: usize = 0;
const D_MODE: usize = 1;
const D_NAME: usize = 2;
const D_COMP: usize = 3;
const D_CHUNK: usize = 4;
const D_NSIGN: usize = 5;
const D_SKEY: usize = 6;
const D_STYP: usize = 7;
const D_HASH: usize = 8;
const D_ENC: usize = 9;
const D_AEADCS: usize = 10;
const D_NPW: usize = 11;
const D_S2K: usize = 12;
const D_NKEY: usize = 13;
const D_PKALG: usize = 14;
const D_ANON: usize = 15;
const D_ARMOR: usize = 16;
const D_CONS: usize = 17;
const D_SINK: usize = 18;
const D_SK: usize = 19;
const D_DATA: usize = 20;
const D_V1MODE: usize = 21;
const ND: usize = 22;

type Cfg = [u8; ND];

const DIM_NAMES: [&str; ND] = [
    "src", "mode", "name", "comp", "chunk", "nsign", "skey", "styp", "hash", "enc", "aeadcs", "npw",
    "s2k", "nkey", "pkalg", "anon", "armor", "cons", "sink", "sk", "data", "v1mode",
];

const SRC_NAMES: [&str; 7] = ["bytes", "file", "rd-all", "rd-1", "rd-cycle", "rd-rand700", "rd-rand9000"];
const COMP_NAMES: [&str; 5] = ["none", "uncompressed", "zip", "zlib", "bzip2"];
const CHUNKS: [u32; 8] = [0, 512, 1024, 2048, 4096, 8192, 65536, 1 << 20]; // 0 = builder default
const HASHES: [(HashAlgorithm, usize, &str); 6] = [
    (HashAlgorithm::Sha256, 32, "sha256"),
    (HashAlgorithm::Sha384, 48, "sha384"),
    (HashAlgorithm::Sha512, 64, "sha512"),
    (HashAlgorithm::Sha3_256, 32, "sha3-256"),
    (HashAlgorithm::Sha3_512, 64, "sha3-512"),
    (HashAlgorithm::Sha224, 28, "sha224"),
];
const V1_CIPHERS: [SymmetricKeyAlgorithm; 11] = [
    SymmetricKeyAlgorithm::IDEA,
    SymmetricKeyAlgorithm::TripleDES,
    SymmetricKeyAlgorithm::CAST5,
    SymmetricKeyAlgorithm::Blowfish,
    SymmetricKeyAlgorithm::AES128,
    SymmetricKeyAlgorithm::AES192,
    SymmetricKeyAlgorithm::AES256,
    SymmetricKeyAlgorithm::Twofish,
    SymmetricKeyAlgorithm::Camellia128,
    SymmetricKeyAlgorithm::Camellia192,
    SymmetricKeyAlgorithm::Camellia256,
];
const V2_AEADS: [AeadAlgorithm; 3] = [AeadAlgorithm::Eax, AeadAlgorithm::Ocb, AeadAlgorithm::Gcm];
const V2_SYMS: [SymmetricKeyAlgorithm; 3] = [
    SymmetricKeyAlgorithm::AES128,
    SymmetricKeyAlgorithm::AES192,
    SymmetricKeyAlgorithm::AES256,
];
const CONS_NAMES: [&str; 10] = [
    "as_data_vec", "ToEnd", "Read1", "Read7", "Read4096", "ReadCycle", "Buf1", "Buf5", "BufAll", "Mixed3",
];

#[derive(Clone, Copy, Debug, PartialEq, Eq)]
enum Enc {
    None,
    V1(SymmetricKeyAlgorithm),
    V2(SymmetricKeyAlgorithm, AeadAlgorithm),
}

fn enc_of(v: u8) -> Enc {
    match v {
        0 => Enc::None,
        1..=11 => Enc::V1(V1_CIPHERS[v as usize - 1]),
        _ => {
            let i = v as usize - 12;
            Enc::V2(V2_SYMS[i % 3], V2_AEADS[i / 3])
        }
    }
}

fn enc_name(v: u8) -> String {
    match enc_of(v) {
        Enc::None => "none".into(),
        Enc::V1(a) => format!("v1-{a:?}"),
        Enc::V2(a, m) => format!("v2-{m:?}-{a:?}"),
    }
}

/// Sizes of the dimensions (number of values, value 0 is "n/a" for dependent dimensions)
struct Space {
    card: [u8; ND],
    /// per signer-spec value (1-based): minimum digest length accepted by the library for that key
    signer_min_digest: Vec<usize>,
    offs: [usize; ND],
    total_vals: usize,
}

impl Space {
    fn new(quick: bool, nsigners: usize, nrecips: usize, signer_min_digest: Vec<usize>) -> Self {
        let mut card = [0u8; ND];
        card[D_SRC] = 7;
        card[D_MODE] = 2;
        card[D_NAME] = 3;
        card[D_COMP] = 5;
        card[D_CHUNK] = if quick { 5 } else { 8 };
        card[D_NSIGN] = 4;
        card[D_SKEY] = 1 + nsigners as u8;
        card[D_STYP] = 3;
        card[D_HASH] = 1 + HASHES.len() as u8;
        card[D_ENC] = 21;
        // every chunk-size octet 0..=16 (64 octets .. 4 MiB) in both tiers
        let _ = quick;
        card[D_AEADCS] = 1 + 17;
        card[D_NPW] = 3;
        card[D_S2K] = 4;
        card[D_NKEY] = 3;
        card[D_PKALG] = 1 + nrecips as u8;
        card[D_ANON] = 3;
        card[D_ARMOR] = 4;
        card[D_CONS] = 10;
        card[D_SINK] = 3;
        card[D_SK] = 3;
        card[D_DATA] = 3;
        card[D_V1MODE] = 3;
        let mut offs = [0usize; ND];
        let mut t = 0;
        for d in 0..ND {
            offs[d] = t;
            t += card[d] as usize;
        }
        Space { card, signer_min_digest, offs, total_vals: t }
    }

    /// which dimensions may carry the n/a value 0 (all others start at 0 as a real value)
    fn na_dim(d: usize) -> bool {
        matches!(d, D_SKEY | D_STYP | D_HASH | D_AEADCS | D_S2K | D_PKALG | D_ANON | D_SK | D_V1MODE)
    }

    /// is the dimension relevant under the controllers of this config?
    fn relevant(c: &Cfg, d: usize) -> bool {
        let enc = enc_of(c[D_ENC]);
        match d {
            D_SKEY | D_STYP | D_HASH => c[D_NSIGN] > 0,
            D_AEADCS => matches!(enc, Enc::V2(..)),
            D_V1MODE => matches!(enc, Enc::V1(..)),
            D_SK => enc != Enc::None,
            D_S2K => enc != Enc::None && c[D_NPW] > 0,
            D_PKALG | D_ANON => enc != Enc::None && c[D_NKEY] > 0,
            _ => true,
        }
    }

    fn valid(&self, c: &Cfg) -> bool {
        for d in 0..ND {
            if c[d] >= self.card[d] {
                return false;
            }
            if Self::na_dim(d) {
                let rel = Self::relevant(c, d);
                if rel != (c[d] != 0) {
                    return false;
                }
            }
        }
        if enc_of(c[D_ENC]) == Enc::None && (c[D_NPW] != 0 || c[D_NKEY] != 0) {
            return false;
        }
        if c[D_NSIGN] > 0 {
            let need = self.signer_min_digest[c[D_SKEY] as usize - 1];
            if HASHES[c[D_HASH] as usize - 1].1 < need {
                return false;
            }
        }
        true
    }

    /// random valid config honouring `fixed`; None if the fixed values cannot be completed
    fn random(&self, rng: &mut ChaCha8Rng, fixed: &[(usize, u8)]) -> Option<Cfg> {
        'outer: for _ in 0..60 {
            let mut c = [0u8; ND];
            let mut is_fixed = [false; ND];
            for d in 0..ND {
                c[d] = rng.gen_range(0..self.card[d]);
            }
            for (d, v) in fixed {
                c[*d] = *v;
                is_fixed[*d] = true;
            }
            if enc_of(c[D_ENC]) == Enc::None {
                for d in [D_NPW, D_NKEY] {
                    if c[d] != 0 {
                        if is_fixed[d] {
                            continue 'outer;
                        }
                        c[d] = 0;
                    }
                }
            }
            for d in 0..ND {
                if !Self::na_dim(d) {
                    continue;
                }
                let rel = Self::relevant(&c, d);
                if !rel && c[d] != 0 {
                    if is_fixed[d] {
                        continue 'outer;
                    }
                    c[d] = 0;
                } else if rel && c[d] == 0 {
                    if is_fixed[d] {
                        continue 'outer;
                    }
                    c[d] = rng.gen_range(1..self.card[d]);
                }
            }
            if c[D_NSIGN] > 0 {
                let need = self.signer_min_digest[c[D_SKEY] as usize - 1];
                if HASHES[c[D_HASH] as usize - 1].1 < need {
                    if !is_fixed[D_HASH] {
                        // pick a compatible hash
                        let ok: Vec<u8> = (1..=HASHES.len() as u8).filter(|h| HASHES[*h as usize - 1].1 >= need).collect();
                        c[D_HASH] = ok[rng.gen_range(0..ok.len())];
                    } else if !is_fixed[D_SKEY] {
                        let hl = HASHES[c[D_HASH] as usize - 1].1;
                        let ok: Vec<u8> = (1..self.card[D_SKEY]).filter(|k| self.signer_min_digest[*k as usize - 1] <= hl).collect();
                        c[D_SKEY] = ok[rng.gen_range(0..ok.len())];
                    } else {
                        continue 'outer;
                    }
                }
            }
            if self.valid(&c) {
                return Some(c);
            }
        }
        None
    }

    fn pair_index(&self, d1: usize, v1: u8, d2: usize, v2: u8) -> usize {
        debug_assert!(d1 < d2);
        (self.offs[d1] + v1 as usize) * self.total_vals + self.offs[d2] + v2 as usize
    }
}

/// Pair bookkeeping: which (dim,value)x(dim,value) pairs are feasible / covered
struct Pairs {
    feasible: Vec<bool>,
    covered: Vec<bool>,
    nfeasible: usize,
    ncovered: usize,
}

impl Pairs {
    fn new(sp: &Space, rng: &mut ChaCha8Rng) -> Self {
        let n = sp.total_vals * sp.total_vals;
        let mut feasible = vec![false; n];
        let mut nfeasible = 0;
        for d1 in 0..ND {
            for d2 in d1 + 1..ND {
                for v1 in 0..sp.card[d1] {
                    for v2 in 0..sp.card[d2] {
                        if sp.random(rng, &[(d1, v1), (d2, v2)]).is_some() {
                            feasible[sp.pair_index(d1, v1, d2, v2)] = true;
                            nfeasible += 1;
                        }
                    }
                }
            }
        }
        Pairs { feasible, covered: vec![false; n], nfeasible, ncovered: 0 }
    }

    fn gain(&self, sp: &Space, c: &Cfg) -> usize {
        let mut g = 0;
        for d1 in 0..ND {
            for d2 in d1 + 1..ND {
                let i = sp.pair_index(d1, c[d1], d2, c[d2]);
                if !self.covered[i] {
                    g += 1;
                }
            }
        }
        g
    }

    /// marks the pairs of `c`; returns how many were new
    fn mark(&mut self, sp: &Space, c: &Cfg) -> usize {
        let mut g = 0;
        for d1 in 0..ND {
            for d2 in d1 + 1..ND {
                let i = sp.pair_index(d1, c[d1], d2, c[d2]);
                if !self.covered[i] {
                    self.covered[i] = true;
                    if self.feasible[i] {
                        g += 1;
                    } else {
                        // a pair the feasibility sampling missed: count it as feasible now
                        self.feasible[i] = true;
                        self.nfeasible += 1;
                        g += 1;
                    }
                }
            }
        }
        self.ncovered += g;
        g
    }
}

/// Greedy (AETG style) pairwise covering array
fn covering_array(sp: &Space, pairs: &Pairs, rng: &mut ChaCha8Rng) -> Vec<Cfg> {
    let mut work = Pairs {
        feasible: pairs.feasible.clone(),
        covered: vec![false; pairs.covered.len()],
        nfeasible: pairs.nfeasible,
        ncovered: 0,
    };
    let mut rows = vec![];
    // list of feasible pairs in a fixed order
    let mut todo: Vec<(usize, u8, usize, u8)> = vec![];
    for d1 in 0..ND {
        for d2 in d1 + 1..ND {
            for v1 in 0..sp.card[d1] {
                for v2 in 0..sp.card[d2] {
                    if work.feasible[sp.pair_index(d1, v1, d2, v2)] {
                        todo.push((d1, v1, d2, v2));
                    }
                }
            }
        }
    }
    // larger domains first: they dominate the row count
    todo.sort_by_key(|(d1, _, d2, _)| std::cmp::Reverse(sp.card[*d1] as usize * sp.card[*d2] as usize));
    let mut pos = 0;
    while pos < todo.len() {
        let (d1, v1, d2, v2) = todo[pos];
        if work.covered[sp.pair_index(d1, v1, d2, v2)] {
            pos += 1;
            continue;
        }
        let mut best: Option<(usize, Cfg)> = None;
        for _ in 0..24 {
            if let Some(c) = sp.random(rng, &[(d1, v1), (d2, v2)]) {
                let g = work.gain(sp, &c);
                if best.as_ref().map_or(true, |b| g > b.0) {
                    best = Some((g, c));
                }
            }
        }
        match best {
            Some((_, c)) => {
                work.mark(sp, &c);
                rows.push(c);
            }
            None => {
                // could not be completed this time: treat as covered to guarantee progress
                let i = sp.pair_index(d1, v1, d2, v2);
                work.covered[i] = true;
            }
        }
        pos += 1;
    }
    rows
}

// ------------------------------------------------------------------------------------------
// keys

struct SignerK {
    name: String,
    slow: bool,
    min_digest: usize,
    sk: SignedSecretKey,
    pk: SignedPublicKey,
    /// public key of a different key (same algorithm family where one is available cheaply)
    other: SignedPublicKey,
}

struct RecipK {
    name: String,
    slow: bool,
    sk: SignedSecretKey,
    /// encrypt to the primary key (RSA with encryption capability) instead of subkey 0
    primary: bool,
}

struct Env {
    signers: Vec<SignerK>,
    recips: Vec<RecipK>,
    tmp: PathBuf,
}

fn min_digest(a: &Alg) -> usize {
    match a {
        Alg::Ed25519Legacy | Alg::Ed25519 | Alg::EcdsaP256 | Alg::EcdsaK256 => 32,
        Alg::EcdsaP384 => 48,
        Alg::EcdsaP521 | Alg::Ed448 => 64,
        _ => 0,
    }
}

impl Env {
    fn new(ctx: &Ctx) -> Self {
        let mut signers = vec![];
        let rsa_alt4 = zoo::key(&Spec::simple(false, Alg::Rsa2048, Some(Alg::Rsa2048)), 0);
        let rsa_alt6 = zoo::key(&Spec::simple(true, Alg::Rsa2048, Some(Alg::Rsa2048)), 0);
        let ed_alt = zoo::key(&Spec::simple(false, Alg::Ed25519Legacy, None), 1);
        for spec in zoo::signer_specs(true) {
            let sk = zoo::key(&spec, 0);
            let pk = sk.to_public_key();
            let other = if spec.primary == Alg::Rsa2048 {
                if spec.v6 { rsa_alt6.to_public_key() } else { rsa_alt4.to_public_key() }
            } else if spec.primary.is_slow() {
                ed_alt.to_public_key()
            } else {
                zoo::key(&spec, 1).to_public_key()
            };
            signers.push(SignerK {
                name: format!("{}-{:?}", if spec.v6 { "v6" } else { "v4" }, spec.primary),
                slow: spec.primary.is_slow(),
                min_digest: min_digest(&spec.primary),
                sk,
                pk,
                other,
            });
        }
        let mut recips = vec![];
        for spec in zoo::encryptor_specs(true) {
            let sk = if spec.primary == Alg::Rsa2048 {
                if spec.v6 { rsa_alt6.clone() } else { rsa_alt4.clone() }
            } else {
                zoo::key(&spec, 0)
            };
            recips.push(RecipK {
                name: format!("{}-{:?}", if spec.v6 { "v6" } else { "v4" }, spec.enc_sub.as_ref().unwrap()),
                slow: spec.enc_sub.as_ref().is_some_and(|a| a.is_slow()),
                sk,
                primary: false,
            });
        }
        // RSA primary key with encryption capability (v4)
        recips.push(RecipK {
            name: "v4-Rsa2048-primary".into(),
            slow: true,
            sk: zoo::key(&Spec::simple(false, Alg::Rsa2048, None), 0),
            primary: true,
        });
        // temp dir below <verif>/target/tmp
        let base = std::env::current_exe()
            .ok()
            .and_then(|p| p.ancestors().nth(3).map(|a| a.to_path_buf()))
            .filter(|p| p.file_name().is_some_and(|n| n == "target"))
            .unwrap_or_else(|| PathBuf::from("/verif/target"));
        let tmp = base.join("tmp").join(format!("c01-{}-{}", std::process::id(), ctx.shard));
        let _ = std::fs::create_dir_all(&tmp);
        Env { signers, recips, tmp }
    }
}

// ------------------------------------------------------------------------------------------
// plan: a decoded configuration plus the per-case random draws

#[derive(Clone, Debug)]
struct Plan {
    cfg: Cfg,
    sched: Option<Sched>,
    utf8: bool,
    name: Vec<u8>,
    comp: Option<CompressionAlgorithm>,
    chunk: Option<u32>,
    signers: Vec<usize>,
    sign_text: bool,
    hash: HashAlgorithm,
    enc: Enc,
    chunk_size: ChunkSize,
    pws: Vec<(String, u8)>,
    keys: Vec<(usize, bool)>,
    armor: u8,
    cons: u8,
    sink: u8,
    set_sk: bool,
    streaming: bool,
    seed: u64,
}

fn consumer(i: u8) -> Option<Consume> {
    Some(match i {
        0 => return None,
        1 => Consume::ToEnd,
        2 => Consume::Read(1),
        3 => Consume::Read(7),
        4 => Consume::Read(4096),
        5 => Consume::ReadCycle(vec![1, 13, 512, 3, 8191, 8192]),
        6 => Consume::Buf(1),
        7 => Consume::Buf(5),
        8 => Consume::BufAll,
        _ => Consume::Mixed(3),
    })
}

fn make_plan(env: &Env, c: &Cfg, rng: &mut ChaCha8Rng) -> Plan {
    let seed: u64 = rng.gen();
    let sched = match c[D_SRC] {
        0 | 1 => None,
        2 => Some(Sched::All),
        3 => Some(Sched::Fixed(1)),
        4 => Some(Sched::Cycle(vec![511, 1, 2, 4096, 3])),
        5 => Some(Sched::Random(seed, 700)),
        _ => Some(Sched::Random(seed, 9000)),
    };
    let name: Vec<u8> = match c[D_NAME] {
        0 => {
            if c[D_SRC] == 1 {
                b"c01-input.bin".to_vec()
            } else {
                vec![]
            }
        }
        1 => b"n".to_vec(),
        _ => (0..255).map(|i| b'a' + (i % 26) as u8).collect(),
    };
    let comp = match c[D_COMP] {
        0 => None,
        1 => Some(CompressionAlgorithm::Uncompressed),
        2 => Some(CompressionAlgorithm::ZIP),
        3 => Some(CompressionAlgorithm::ZLIB),
        _ => Some(CompressionAlgorithm::BZip2),
    };
    let chunk = match CHUNKS[c[D_CHUNK] as usize] {
        0 => None,
        v => Some(v),
    };
    let mut signers = vec![];
    let mut hash = HashAlgorithm::Sha256;
    if c[D_NSIGN] > 0 {
        let (h, hl, _) = HASHES[c[D_HASH] as usize - 1];
        hash = h;
        signers.push(c[D_SKEY] as usize - 1);
        // further signers: fast keys compatible with the hash, all distinct
        let pool: Vec<usize> = (0..env.signers.len())
            .filter(|i| !env.signers[*i].slow && env.signers[*i].min_digest <= hl && *i != signers[0])
            .collect();
        while signers.len() < c[D_NSIGN] as usize && !pool.is_empty() {
            let k = pool[rng.gen_range(0..pool.len())];
            if !signers.contains(&k) {
                signers.push(k);
            }
        }
    }
    let enc = enc_of(c[D_ENC]);
    let chunk_size = if c[D_AEADCS] > 0 {
        ChunkSize::try_from(c[D_AEADCS] - 1).expect("chunk size")
    } else {
        ChunkSize::default()
    };
    let mut pws = vec![];
    for i in 0..c[D_NPW] {
        // first password uses the S2K of the dimension, the second one another kind
        let kind = if i == 0 { c[D_S2K] } else { 1 + (c[D_S2K] + i) % 3 };
        pws.push((format!("pw-{}-{}", i, rng.gen::<u32>()), kind));
    }
    let mut keys = vec![];
    if c[D_NKEY] > 0 {
        keys.push((c[D_PKALG] as usize - 1, c[D_ANON] == 2));
        let pool: Vec<usize> = (0..env.recips.len()).filter(|i| !env.recips[*i].slow && *i != keys[0].0).collect();
        while keys.len() < c[D_NKEY] as usize {
            let k = pool[rng.gen_range(0..pool.len())];
            if !keys.iter().any(|(j, _)| *j == k) {
                keys.push((k, rng.gen_bool(0.3)));
            }
        }
    }
    Plan {
        cfg: *c,
        sched,
        utf8: c[D_MODE] == 1,
        name,
        comp,
        chunk,
        signers,
        sign_text: c[D_STYP] == 2,
        hash,
        enc,
        chunk_size,
        pws,
        keys,
        armor: c[D_ARMOR],
        cons: c[D_CONS],
        sink: c[D_SINK],
        set_sk: c[D_SK] == 2,
        streaming: c[D_V1MODE] == 2,
        seed,
    }
}

const S2K_NAMES: [&str; 4] = ["", "salted", "iterated", "argon2"];
const ARMOR_NAMES: [&str; 4] = ["off", "crc", "nocrc", "crc+headers"];
const SINK_NAMES: [&str; 3] = ["vec", "writer-short", "file"];

fn cfg_json(env: &Env, p: &Plan) -> Value {
    let c = &p.cfg;
    json!({
        "src": SRC_NAMES[c[D_SRC] as usize],
        "mode": if p.utf8 { "utf8" } else { "binary" },
        "name_len": p.name.len(),
        "comp": COMP_NAMES[c[D_COMP] as usize],
        "partial_chunk": p.chunk,
        "signers": p.signers.iter().map(|i| env.signers[*i].name.clone()).collect::<Vec<_>>(),
        "sign_type": if p.sign_text { "text" } else { "binary" },
        "hash": format!("{:?}", p.hash),
        "enc": enc_name(c[D_ENC]),
        "aead_chunk": if matches!(p.enc, Enc::V2(..)) { Some(p.chunk_size.as_byte_size()) } else { None },
        "passwords": p.pws.iter().map(|(_, k)| S2K_NAMES[*k as usize]).collect::<Vec<_>>(),
        "recipients": p.keys.iter().map(|(i, a)| format!("{}{}", env.recips[*i].name, if *a { "(anon)" } else { "" })).collect::<Vec<_>>(),
        "armor": ARMOR_NAMES[p.armor as usize],
        "consumer": CONS_NAMES[p.cons as usize],
        "sink": SINK_NAMES[p.sink as usize],
        "set_session_key": p.set_sk,
        "seipdv1_streaming": p.streaming,
        "data": c[D_DATA],
        "seed": p.seed,
        "vector": c.to_vec(),
    })
}

// ------------------------------------------------------------------------------------------
// payloads

fn gen_payload(seed: u64, n: usize, utf8: bool, kind: u8) -> Vec<u8> {
    let mut rng = ChaCha8Rng::seed_from_u64(seed ^ 0x5eed_c01);
    if !utf8 {
        let mut v = vec![0u8; n];
        match kind {
            0 => rng.fill_bytes(&mut v),
            1 => {
                // text-like with bare CR / LF / CRLF (exercises text signatures over binary literals)
                const A: &[u8] = b"abcdefghij klmnop\r\n\n\rqrstuvwxyz";
                let mut i = 0;
                while i < n {
                    let w = rng.next_u64().to_le_bytes();
                    for b in w {
                        if i < n {
                            v[i] = A[b as usize % A.len()];
                            i += 1;
                        }
                    }
                }
            }
            _ => {
                // highly compressible: a short motif repeated, a random byte now and then
                let motif: Vec<u8> = (0..37).map(|_| rng.gen()).collect();
                for (i, b) in v.iter_mut().enumerate() {
                    *b = motif[i % 37];
                }
                let mut p = 0usize;
                while p < n {
                    v[p] = rng.gen();
                    p += rng.gen_range(50..4000);
                }
            }
        }
        return v;
    }
    let mut v = Vec::with_capacity(n);
    match kind {
        0 => {
            while v.len() < n {
                let rem = n - v.len();
                let r = rng.gen_range(0..32);
                match r {
                    0 | 1 if rem >= 2 => v.extend_from_slice(b"\r\n"),
                    2 | 3 if rem >= 2 => v.extend_from_slice("é".as_bytes()),
                    4 if rem >= 3 => v.extend_from_slice("€".as_bytes()),
                    5 if rem >= 4 => v.extend_from_slice("😀".as_bytes()),
                    _ => v.push(b'a' + (r as u8 % 26)),
                }
            }
        }
        1 => {
            const LINE: &[u8] = "Zwölf Boxkämpfer jagen Viktor quer über den großen Sylter Deich.\r\n".as_bytes();
            while v.len() + LINE.len() <= n {
                v.extend_from_slice(LINE);
            }
            while v.len() < n {
                v.push(b'.');
            }
        }
        _ => v.resize(n, b'a'),
    }
    v
}

/// Makes a Utf8-mode payload non-conforming (guaranteed): returns a description
fn spoil_utf8(v: &mut [u8], rng: &mut ChaCha8Rng, near: &[usize]) -> &'static str {
    let n = v.len();
    let pos = if !near.is_empty() && rng.gen_bool(0.7) {
        let b = near[rng.gen_range(0..near.len())];
        (b + rng.gen_range(0..5)).saturating_sub(2).min(n - 1)
    } else {
        rng.gen_range(0..n)
    };
    match rng.gen_range(0..3) {
        0 => {
            v[pos] = 0xFF;
            "0xFF octet"
        }
        1 => {
            v[pos] = b'\n';
            if pos > 0 {
                v[pos - 1] = b'x';
            }
            "bare LF"
        }
        _ => {
            v[n - 1] = 0xC3;
            "truncated multi-octet sequence at the end"
        }
    }
}

// ------------------------------------------------------------------------------------------
// building a message with the library

struct Built {
    out: Vec<u8>,
    session_key: Option<Vec<u8>>,
}

fn s2k_for(kind: u8, rng: &mut ChaCha8Rng) -> StringToKey {
    match kind {
        1 => {
            let mut salt = [0u8; 8];
            rng.fill_bytes(&mut salt);
            StringToKey::Salted { hash_alg: HashAlgorithm::Sha256, salt }
        }
        2 => {
            let h = [HashAlgorithm::Sha256, HashAlgorithm::Sha512, HashAlgorithm::Sha224][rng.gen_range(0..3)];
            let count = rng.gen_range(0..24u8);
            StringToKey::new_iterated(rng, h, count)
        }
        _ => StringToKey::new_argon2(rng, 1, 1, ARGON2_M_ENC),
    }
}

/// encoded Argon2 memory exponent: 2^4 KiB (the minimum allowed for p = 1 is 3)
const ARGON2_M_ENC: u8 = 4;

fn armor_headers() -> pgp::armor::Headers {
    let mut h = BTreeMap::new();
    h.insert("Comment".to_string(), vec!["c01 round trip".to_string()]);
    h.insert("Version".to_string(), vec!["mon 1".to_string()]);
    h
}

fn file_path(env: &Env, tag: &str, name: &[u8]) -> PathBuf {
    let n = String::from_utf8_lossy(name).to_string();
    env.tmp.join(tag).join(n)
}

fn finish<R: Read, E: Encryption>(
    b: MessageBuilder<'_, R, E>,
    env: &Env,
    p: &Plan,
    rng: &mut ChaCha8Rng,
) -> pgp::errors::Result<Vec<u8>> {
    let headers = armor_headers();
    let opts = match p.armor {
        1 => Some(ArmorOptions { headers: None, include_checksum: true }),
        2 => Some(ArmorOptions { headers: None, include_checksum: false }),
        3 => Some(ArmorOptions { headers: Some(&headers), include_checksum: true }),
        _ => None,
    };
    match (opts, p.sink) {
        (None, 0) => b.to_vec(rng),
        (Some(o), 0) => b.to_armored_string(rng, o).map(|s| s.into_bytes()),
        (o, 1) => {
            let w = SchedWriter::new(Sched::Random(p.seed, 300));
            let h = w.handle();
            match o {
                None => b.to_writer(rng, w)?,
                Some(o) => b.to_armored_writer(rng, o, w)?,
            }
            let v = h.borrow().clone();
            Ok(v)
        }
        (o, _) => {
            let path = env.tmp.join("out").join("msg.pgp");
            let r = match o {
                None => b.to_file(rng, &path),
                Some(o) => b.to_armored_file(rng, &path, o),
            };
            let data = std::fs::read(&path);
            let _ = std::fs::remove_file(&path);
            r?;
            data.map_err(|e| pgp::errors::Error::from(format!("harness: reading output file: {e}")))
        }
    }
}

fn configure_and_finish<'a, R: Read>(
    mut b: MessageBuilder<'a, R, NoEncryption>,
    env: &'a Env,
    p: &Plan,
) -> pgp::errors::Result<Built> {
    let mut rng = ChaCha8Rng::seed_from_u64(p.seed);
    if p.utf8 {
        b.data_mode(DataMode::Utf8)?;
    } else if p.seed % 2 == 0 {
        b.data_mode(DataMode::Binary)?;
    }
    if let Some(c) = p.chunk {
        b.partial_chunk_size(c)?;
    }
    if let Some(c) = p.comp {
        b.compression(c);
    }
    if p.sign_text {
        b.sign_text();
    } else if p.seed % 3 == 0 {
        b.sign_binary();
    }
    for (k, i) in p.signers.iter().enumerate() {
        let key = &env.signers[*i].sk.primary_key;
        if (p.seed >> 8) % 4 == k as u64 {
            // caller-provided subpacket areas (same content as the default hashed area)
            let hashed = vec![
                Subpacket::regular(SubpacketData::IssuerFingerprint(key.fingerprint()))?,
                Subpacket::regular(SubpacketData::SignatureCreationTime(Timestamp::now()))?,
            ];
            b.sign_with_subpackets(key, Password::empty(), p.hash, SubpacketConfig::UserDefined { hashed, unhashed: vec![] });
        } else {
            b.sign(key, Password::empty(), p.hash);
        }
    }
    match p.enc {
        Enc::None => {
            let out = finish(b, env, p, &mut rng)?;
            Ok(Built { out, session_key: None })
        }
        Enc::V1(alg) => {
            let mut b = b.seipd_v1(&mut rng, alg);
            if p.set_sk {
                let mut sk = vec![0u8; alg.key_size()];
                rng.fill_bytes(&mut sk);
                b.set_session_key(sk.into())?;
            }
            for (pw, kind) in &p.pws {
                let s2k = s2k_for(*kind, &mut rng);
                b.encrypt_with_password(s2k, &Password::from(pw.as_str()))?;
            }
            for (k, anon) in &p.keys {
                let r = &env.recips[*k];
                match (r.primary, *anon) {
                    (true, false) => b.encrypt_to_key(&mut rng, r.sk.primary_key.public_key())?,
                    (true, true) => b.encrypt_to_key_anonymous(&mut rng, r.sk.primary_key.public_key())?,
                    (false, false) => b.encrypt_to_key(&mut rng, &r.sk.secret_subkeys[0].public_key())?,
                    (false, true) => b.encrypt_to_key_anonymous(&mut rng, &r.sk.secret_subkeys[0].public_key())?,
                };
            }
            let sk = b.session_key().as_ref().to_vec();
            let out = finish(b, env, p, &mut rng)?;
            Ok(Built { out, session_key: Some(sk) })
        }
        Enc::V2(alg, aead) => {
            let mut b = b.seipd_v2(&mut rng, alg, aead, p.chunk_size);
            if p.set_sk {
                let mut sk = vec![0u8; alg.key_size()];
                rng.fill_bytes(&mut sk);
                b.set_session_key(sk.into())?;
            }
            for (pw, kind) in &p.pws {
                let s2k = s2k_for(*kind, &mut rng);
                b.encrypt_with_password(&mut rng, s2k, &Password::from(pw.as_str()))?;
            }
            for (k, anon) in &p.keys {
                let r = &env.recips[*k];
                match (r.primary, *anon) {
                    (true, false) => b.encrypt_to_key(&mut rng, r.sk.primary_key.public_key())?,
                    (true, true) => b.encrypt_to_key_anonymous(&mut rng, r.sk.primary_key.public_key())?,
                    (false, false) => b.encrypt_to_key(&mut rng, &r.sk.secret_subkeys[0].public_key())?,
                    (false, true) => b.encrypt_to_key_anonymous(&mut rng, &r.sk.secret_subkeys[0].public_key())?,
                };
            }
            let sk = b.session_key().as_ref().to_vec();
            let out = finish(b, env, p, &mut rng)?;
            Ok(Built { out, session_key: Some(sk) })
        }
    }
}

fn build(env: &Env, p: &Plan, payload: &[u8]) -> pgp::errors::Result<Built> {
    match (&p.sched, p.cfg[D_SRC]) {
        (Some(s), _) => {
            let rd = SchedReader::new(payload.to_vec(), s.clone());
            configure_and_finish(MessageBuilder::from_reader(p.name.clone(), rd), env, p)
        }
        (None, 1) => {
            let path = file_path(env, "in", &p.name);
            if let Some(d) = path.parent() {
                let _ = std::fs::create_dir_all(d);
            }
            std::fs::write(&path, payload)
                .map_err(|e| pgp::errors::Error::from(format!("harness: writing input file: {e}")))?;
            let r = configure_and_finish(MessageBuilder::from_file(&path), env, p);
            let _ = std::fs::remove_file(&path);
            r
        }
        _ => configure_and_finish(MessageBuilder::from_bytes(p.name.clone(), payload.to_vec()), env, p),
    }
}

/// Length of the stream that the encryption layer consumes (= output of the same configuration
/// without encryption and armor). None if the builder refuses.
fn inner_len(env: &Env, p: &Plan, payload: &[u8]) -> Option<usize> {
    let mut q = p.clone();
    q.enc = Enc::None;
    q.pws.clear();
    q.keys.clear();
    q.armor = 0;
    q.sink = 0;
    if q.sched.is_some() {
        q.sched = Some(Sched::All);
    } else {
        q.cfg[D_SRC] = 0;
    }
    build(env, &q, payload).ok().map(|b| b.out.len())
}

// ------------------------------------------------------------------------------------------
// independent reference: open the emitted packets without the library

struct RefLit {
    mode: u8,
    name: Vec<u8>,
    date: u32,
    data: Vec<u8>,
    n_ops: usize,
    n_sig: usize,
    /// body length of the outermost compressed packet, if any
    compressed_body: Option<usize>,
    /// compression algorithms met from the outside in
    comp_algs: Vec<u8>,
}

enum RefErr {
    /// the reference cannot judge (bzip2)
    Skip(&'static str),
    Bad(String),
}

fn ref_open_plain(stream: &[u8], depth: usize) -> Result<RefLit, RefErr> {
    let pkts = rfc::frame::deframe(stream).map_err(|e| RefErr::Bad(format!("deframe: {e}")))?;
    rfc::frame::check_written(&pkts).map_err(|e| RefErr::Bad(format!("written form: {e}")))?;
    if pkts.len() == 1 && pkts[0].tag == 8 {
        if depth > 3 {
            return Err(RefErr::Bad("compression nested too deep".into()));
        }
        let body = &pkts[0].body;
        if body.is_empty() {
            return Err(RefErr::Bad("empty compressed packet".into()));
        }
        let inner: Vec<u8> = match body[0] {
            0 => body[1..].to_vec(),
            1 => {
                let mut v = vec![];
                flate2::read::DeflateDecoder::new(&body[1..])
                    .read_to_end(&mut v)
                    .map_err(|e| RefErr::Bad(format!("inflate: {e}")))?;
                v
            }
            2 => {
                let mut v = vec![];
                flate2::read::ZlibDecoder::new(&body[1..])
                    .read_to_end(&mut v)
                    .map_err(|e| RefErr::Bad(format!("zlib: {e}")))?;
                v
            }
            3 => return Err(RefErr::Skip("bzip2")),
            a => return Err(RefErr::Bad(format!("compression algorithm {a}"))),
        };
        let mut r = ref_open_plain(&inner, depth + 1)?;
        if depth == 0 || r.compressed_body.is_none() {
            r.compressed_body = Some(body.len());
        }
        r.comp_algs.insert(0, body[0]);
        return Ok(r);
    }
    let mut i = 0;
    let mut n_ops = 0;
    while i < pkts.len() && pkts[i].tag == 4 {
        n_ops += 1;
        i += 1;
    }
    if i >= pkts.len() || pkts[i].tag != 11 {
        return Err(RefErr::Bad(format!(
            "expected literal packet after {n_ops} OPS, tags are {:?}",
            pkts.iter().map(|p| p.tag).collect::<Vec<_>>()
        )));
    }
    let lit = &pkts[i].body;
    i += 1;
    let mut n_sig = 0;
    while i < pkts.len() && pkts[i].tag == 2 {
        n_sig += 1;
        i += 1;
    }
    if i != pkts.len() {
        return Err(RefErr::Bad(format!("trailing packets, tags are {:?}", pkts.iter().map(|p| p.tag).collect::<Vec<_>>())));
    }
    if lit.len() < 6 || lit.len() < 6 + lit[1] as usize {
        return Err(RefErr::Bad("literal packet shorter than its header".into()));
    }
    let nl = lit[1] as usize;
    Ok(RefLit {
        mode: lit[0],
        name: lit[2..2 + nl].to_vec(),
        date: u32::from_be_bytes([lit[2 + nl], lit[3 + nl], lit[4 + nl], lit[5 + nl]]),
        data: lit[6 + nl..].to_vec(),
        n_ops,
        n_sig,
        compressed_body: None,
        comp_algs: vec![],
    })
}

struct RefOpened {
    lit: Result<RefLit, RefErr>,
    /// inner (plaintext) stream length of the encryption container
    inner_len: Option<usize>,
    seipd_body_len: Option<usize>,
    skesk_bodies: Vec<Vec<u8>>,
}

fn sym_id(a: SymmetricKeyAlgorithm) -> u8 {
    u8::from(a)
}

fn ref_open(bin: &[u8], p: &Plan, sk: Option<&[u8]>) -> Result<RefOpened, String> {
    if p.enc == Enc::None {
        return Ok(RefOpened { lit: ref_open_plain(bin, 0), inner_len: None, seipd_body_len: None, skesk_bodies: vec![] });
    }
    let pkts = rfc::frame::deframe(bin).map_err(|e| format!("deframe: {e}"))?;
    rfc::frame::check_written(&pkts).map_err(|e| format!("written form: {e}"))?;
    let tags: Vec<u8> = pkts.iter().map(|p| p.tag).collect();
    let mut want = vec![3u8; p.pws.len()];
    want.extend(vec![1u8; p.keys.len()]);
    want.push(18);
    if tags != want {
        return Err(format!("packet sequence {tags:?}, expected {want:?}"));
    }
    let skesk_bodies: Vec<Vec<u8>> = pkts.iter().filter(|p| p.tag == 3).map(|p| p.body.clone()).collect();
    let body = &pkts.last().unwrap().body;
    let sk = sk.ok_or("no session key known")?;
    let inner = match p.enc {
        Enc::V1(alg) => {
            if body.first() != Some(&1) {
                return Err(format!("SEIPD version octet {:?}, expected 1", body.first()));
            }
            rfc::sym::seipd_v1_decrypt(sym_id(alg), sk, &body[1..]).map_err(|e| format!("SEIPDv1 reference decryption: {e:?}"))?
        }
        Enc::V2(alg, aead) => {
            if body.len() < 4 || body[0] != 2 || body[1] != sym_id(alg) || body[2] != u8::from(aead) || body[3] != u8::from(p.chunk_size) {
                return Err(format!(
                    "SEIPDv2 header {:?}, expected [2, {}, {}, {}]",
                    &body[..body.len().min(4)],
                    sym_id(alg),
                    u8::from(aead),
                    u8::from(p.chunk_size)
                ));
            }
            rfc::sym::seipd_v2_decrypt(body, sk).map_err(|e| format!("SEIPDv2 reference decryption: {e:?}"))?
        }
        Enc::None => unreachable!(),
    };
    Ok(RefOpened {
        lit: ref_open_plain(&inner, 0),
        inner_len: Some(inner.len()),
        seipd_body_len: Some(body.len()),
        skesk_bodies,
    })
}

// ------------------------------------------------------------------------------------------
// the library's own reader

#[derive(Clone, Debug)]
enum Access {
    Plain,
    Password(usize),
    Key(usize),
    SessionKey,
}

impl Access {
    fn class(&self) -> &'static str {
        match self {
            Access::Plain => "plain",
            Access::Password(_) => "password",
            Access::Key(_) => "key",
            Access::SessionKey => "session-key",
        }
    }
}

/// A failed step of the round trip: (stable symptom, detail)
type Fail = (String, String);

struct ReadOk {
    data_len: usize,
}

fn lib_roundtrip(env: &Env, p: &Plan, out: &[u8], payload: &[u8], sk: Option<&[u8]>, access: &Access, full_verify: bool, wire: Option<&(u8, Vec<u8>, u32)>) -> Result<ReadOk, Fail> {
    let f = |s: &str, d: String| -> Fail { (s.to_string(), d) };
    let mut msg = if p.armor > 0 {
        let (m, headers) = Message::from_armor(out).map_err(|e| f("parse-error", format!("from_armor: {e}")))?;
        let want = if p.armor == 3 { armor_headers() } else { BTreeMap::new() };
        if headers != want {
            return Err(f("armor-headers-changed", format!("headers {headers:?}, written {want:?}")));
        }
        m
    } else {
        Message::from_bytes(out).map_err(|e| f("parse-error", format!("from_bytes: {e}")))?
    };
    if msg.is_encrypted() != (p.enc != Enc::None) {
        return Err(f("layer-mismatch", format!("is_encrypted() = {} for enc {:?}", msg.is_encrypted(), p.enc)));
    }
    if p.enc != Enc::None {
        let opts = if p.streaming {
            DecryptionOptions::new().set_seipdv1_read_mode(Seipdv1ReadMode::Streaming)
        } else {
            DecryptionOptions::new()
        };
        let psk = || match p.enc {
            Enc::V1(alg) => PlainSessionKey::V3_4 { sym_alg: alg, key: sk.unwrap_or(&[]).into() },
            _ => PlainSessionKey::V6 { key: sk.unwrap_or(&[]).into() },
        };
        let sym = format!("decrypt-error/{}", access.class());
        let empty = Password::empty();
        msg = match access {
            Access::Plain => unreachable!(),
            Access::Password(i) => {
                let pw = Password::from(p.pws[*i].0.as_str());
                if p.streaming {
                    let ring = TheRing { message_password: vec![&pw], decrypt_options: opts, ..Default::default() };
                    msg.decrypt_the_ring(ring, true).map(|r| r.0)
                } else {
                    msg.decrypt_with_password(&pw)
                }
            }
            Access::Key(i) => {
                let key = &env.recips[p.keys[*i].0].sk;
                if p.streaming {
                    let ring = TheRing { secret_keys: vec![key], key_passwords: vec![&empty], decrypt_options: opts, ..Default::default() };
                    msg.decrypt_the_ring(ring, true).map(|r| r.0)
                } else {
                    msg.decrypt(&empty, key)
                }
            }
            Access::SessionKey => {
                if p.streaming {
                    let ring = TheRing { session_keys: vec![psk()], decrypt_options: opts, ..Default::default() };
                    msg.decrypt_the_ring(ring, true).map(|r| r.0)
                } else {
                    msg.decrypt_with_session_key(psk())
                }
            }
        }
        .map_err(|e| f(&sym, format!("{access:?}: {e}")))?;
    }
    if msg.is_compressed() != p.comp.is_some() {
        return Err(f("layer-mismatch", format!("is_compressed() = {} for compression {:?}", msg.is_compressed(), p.comp)));
    }
    let mut rounds = 0;
    while msg.is_compressed() {
        msg = msg.decompress().map_err(|e| f("decompress-error", format!("{e}")))?;
        rounds += 1;
        if rounds > 4 {
            return Err(f("layer-mismatch", "more than 4 compression layers".into()));
        }
    }
    if msg.is_signed() != !p.signers.is_empty() {
        return Err(f("layer-mismatch", format!("is_signed() = {} for {} signers", msg.is_signed(), p.signers.len())));
    }
    if p.signers.is_empty() && !msg.is_literal() {
        return Err(f("layer-mismatch", "innermost message is not a literal".into()));
    }
    let check_header = |msg: &Message<'_>, when: &str| -> Result<(), Fail> {
        let Some(h) = msg.literal_data_header() else {
            return Err(f("header-missing", format!("literal_data_header() is None {when}")));
        };
        let want_mode = if p.utf8 { DataMode::Utf8 } else { DataMode::Binary };
        if h.mode() != want_mode {
            return Err(f("header-mode", format!("mode {:?} {when}, requested {:?}", h.mode(), want_mode)));
        }
        // the builder does not carry the file name (it writes an empty name; the repository's
        // tests pin this): the name read back must be what was requested or empty
        if !h.file_name().is_empty() && h.file_name().as_ref() != &p.name[..] {
            return Err(f("header-name", format!("file name {:?} {when}, requested {:?}", h.file_name(), String::from_utf8_lossy(&p.name))));
        }
        // the reader returns the header that is on the wire (as parsed by the reference)
        if let Some((m, name, date)) = wire {
            if u8::from(h.mode()) != *m || h.file_name().as_ref() != &name[..] || h.created().as_secs() != *date {
                return Err(f(
                    "header-differs-from-wire",
                    format!("reader: mode {:?} name {:?} date {}; wire: mode {:?} name {:?} date {}", h.mode(), h.file_name(), h.created().as_secs(), *m as char, String::from_utf8_lossy(name), date),
                ));
            }
        }
        Ok(())
    };
    check_header(&msg, "before reading")?;
    let data = match consumer(p.cons) {
        None => msg.as_data_vec().map_err(|e| f("read-error", format!("as_data_vec: {e}")))?,
        Some(pat) => {
            let d = drain(&mut msg, &pat);
            if let Some(e) = d.err {
                return Err(f("read-error", format!("{pat:?} after {} of {} bytes: {e}", d.data.len(), payload.len())));
            }
            d.data
        }
    };
    if data != payload {
        let first = data.iter().zip(payload.iter()).position(|(a, b)| a != b);
        let sym = if data.len() < payload.len() && first.is_none() {
            "content/truncated"
        } else if data.len() > payload.len() && first.is_none() {
            "content/extended"
        } else {
            "content/differs"
        };
        return Err(f(sym, format!("read {} bytes, payload has {}; first difference at {:?}", data.len(), payload.len(), first)));
    }
    check_header(&msg, "after reading")?;
    // reading on after the end stays at the end
    let mut one = [0u8; 1];
    match msg.read(&mut one) {
        Ok(0) => {}
        Ok(_) => return Err(f("content/extended", "read() after EOF returned data".into())),
        Err(e) => return Err(f("read-error", format!("read() after EOF: {e}"))),
    }
    // signatures
    let n = p.signers.len();
    if n == 0 {
        if msg.verify(&env.signers[0].pk.primary_key).is_ok() {
            return Err(f("verify/unsigned-accepted", "verify() is Ok on an unsigned message".into()));
        }
    } else {
        for (i, s) in p.signers.iter().enumerate() {
            let sg = &env.signers[*s];
            if let Err(e) = msg.verify_nested_explicit(i, &sg.pk.primary_key) {
                return Err(f("verify/signer-rejected", format!("signature {i} of {n} ({}, {:?}, text={}): {e}", sg.name, p.hash, p.sign_text)));
            }
            if !full_verify {
                continue;
            }
            if msg.verify_nested_explicit(i, &sg.other.primary_key).is_ok() {
                return Err(f("verify/non-signer-accepted", format!("signature {i} verifies under a different key than {}", sg.name)));
            }
            if n > 1 {
                let j = (i + 1) % n;
                if msg.verify_nested_explicit(i, &env.signers[p.signers[j]].pk.primary_key).is_ok() {
                    return Err(f("verify/non-signer-accepted", format!("signature {i} verifies under the key of signer {j}")));
                }
            }
        }
        if msg.verify_nested_explicit(n, &env.signers[p.signers[0]].pk.primary_key).is_ok() {
            return Err(f("verify/extra-signature", format!("signature index {n} exists for {n} signers")));
        }
        if full_verify {
            if let Err(e) = msg.verify(&env.signers[p.signers[0]].pk.primary_key) {
                return Err(f("verify/signer-rejected", format!("verify() with the first signer: {e}")));
            }
            let mut keys: Vec<&dyn pgp::types::VerifyingKey> = vec![];
            for s in &p.signers {
                keys.push(&env.signers[*s].pk.primary_key);
            }
            keys.push(&env.signers[p.signers[0]].other.primary_key);
            let res = msg.verify_nested(&keys).map_err(|e| f("verify/nested-error", format!("{e}")))?;
            for (i, r) in res.iter().enumerate() {
                let valid = matches!(r, VerificationResult::Valid(_));
                if valid != (i < n) {
                    return Err(f(
                        if i < n { "verify/signer-rejected" } else { "verify/non-signer-accepted" },
                        format!("verify_nested result {i} of {} is valid={valid}", res.len()),
                    ));
                }
            }
        }
    }
    Ok(ReadOk { data_len: data.len() })
}

/// `verify_read` (drain + verify in one call) on a fresh parse of an unencrypted signed message
fn lib_verify_read(env: &Env, p: &Plan, out: &[u8]) -> Result<(), Fail> {
    let f = |s: &str, d: String| -> Fail { (s.to_string(), d) };
    let mut msg = if p.armor > 0 {
        Message::from_armor(out).map_err(|e| f("parse-error", format!("from_armor: {e}")))?.0
    } else {
        Message::from_bytes(out).map_err(|e| f("parse-error", format!("from_bytes: {e}")))?
    };
    let mut rounds = 0;
    while msg.is_compressed() && rounds < 4 {
        msg = msg.decompress().map_err(|e| f("decompress-error", format!("{e}")))?;
        rounds += 1;
    }
    let sg = &env.signers[p.signers[0]];
    msg.verify_read(&sg.pk.primary_key)
        .map(|_| ())
        .map_err(|e| f("verify/signer-rejected", format!("verify_read with {}: {e}", sg.name)))?;
    if msg.verify_read(&sg.other.primary_key).is_ok() {
        return Err(f("verify/non-signer-accepted", "verify_read accepts a different key".into()));
    }
    Ok(())
}

// ------------------------------------------------------------------------------------------
// size targets

#[derive(Clone, Copy, Debug, Hash, PartialEq, Eq)]
enum Layer {
    /// payload length
    P,
    /// length of the stream fed to the encryption layer (OPS + literal/compressed packet + signatures)
    I,
    /// body length of the SEIPD packet (config octets + ciphertext + tags/MDC)
    E,
}

#[derive(Clone, Debug, Hash, PartialEq, Eq)]
struct Target {
    layer: Layer,
    /// 0 free size, 1 partial chunk size, 2 AEAD chunk size, 3 internal 8 KiB buffer, 4 length-encoding threshold
    kind: u8,
    block: u32,
    k: u32,
    d: i32,
}

impl Target {
    fn free(n: usize) -> Self {
        Target { layer: Layer::P, kind: 0, block: n as u32, k: 0, d: 0 }
    }
    fn value(&self) -> usize {
        if self.kind == 0 {
            self.block as usize
        } else {
            (self.k as i64 * self.block as i64 + self.d as i64).max(0) as usize
        }
    }
    fn name(&self) -> String {
        if self.kind == 0 {
            format!("size={}", self.block)
        } else {
            format!(
                "{:?}:{}{}={}*{}{:+}",
                self.layer,
                ["", "partial", "aead", "buf", "lenform"][self.kind as usize],
                self.block,
                self.k,
                self.block,
                self.d
            )
        }
    }
}

const DMIN: i32 = -38; // -(largest header 36 + 2)
const DMAX: i32 = 2;

fn targets(quick: bool) -> Vec<Target> {
    let mut v = vec![];
    let partial: &[u32] = if quick { &[512, 1024, 2048, 4096] } else { &[512, 1024, 2048, 4096, 8192, 65536, 1 << 20] };
    let aead: &[u32] = if quick { &[64, 128, 256, 512, 1024, 4096] } else { &[64, 128, 256, 512, 1024, 2048, 4096, 8192, 16384, 65536] };
    let sweep = |layer: Layer, kind: u8, block: u32, v: &mut Vec<Target>| {
        let big = block >= 65536;
        for k in 1..=4u32 {
            // the framing octets of a partial compressed packet come on top of the chunk edge
            let dmax = if layer == Layer::I && kind == 1 { DMAX + 6 } else { DMAX };
            for d in DMIN..=dmax {
                if big && !(d >= -1 && d <= 1 || d == -6 || d == -7 || d == -22 || d == -36 || d == -37 || d == -16 || d == -18) {
                    continue;
                }
                v.push(Target { layer, kind, block, k, d });
            }
        }
    };
    for b in partial {
        sweep(Layer::P, 1, *b, &mut v);
        sweep(Layer::I, 1, *b, &mut v);
        sweep(Layer::E, 1, *b, &mut v);
    }
    for b in aead {
        sweep(Layer::I, 2, *b, &mut v);
    }
    for l in [Layer::P, Layer::I, Layer::E] {
        sweep(l, 3, 8192, &mut v);
    }
    // the thresholds of the new-format length encoding (one / two / five octets: 192 and 8384): a packet body or a
    // final partial chunk of exactly that size, on every layer (the sweep of d walks over the header sizes)
    for l in [Layer::P, Layer::I, Layer::E] {
        for block in [192u32, 8384] {
            for d in DMIN..=DMAX + 6 {
                v.push(Target { layer: l, kind: 4, block, k: 1, d });
            }
        }
    }
    if !quick {
        // very large AEAD chunks: only the immediate neighbourhood of one and two chunks
        for b in [1u32 << 20, 1 << 22] {
            for k in 1..=2 {
                for d in [-1, 0, 1] {
                    v.push(Target { layer: Layer::I, kind: 2, block: b, k, d });
                }
            }
        }
    } else {
        // quick: one chunk of the large sizes (the decryptor's read-ahead must hold a whole chunk)
        for (b, d) in [(1u32 << 20, -1), (1 << 20, 0), (1 << 20, 1), (1 << 21, 0), (1 << 22, 0)] {
            v.push(Target { layer: Layer::I, kind: 2, block: b, k: 1, d });
        }
    }
    v
}

/// Adapts a configuration so that the targeted chunker / buffer is really in the data path.
fn apply_target(sp: &Space, c: &Cfg, t: &Target, rng: &mut ChaCha8Rng) -> Cfg {
    let mut c = *c;
    let chunk_idx = |b: u32| CHUNKS.iter().position(|x| *x == b).unwrap_or(0) as u8;
    // exact placement on the inner layers needs a size-preserving compression layer
    if t.layer != Layer::P && t.kind != 0 && c[D_COMP] >= 2 && rng.gen_bool(0.7) {
        c[D_COMP] = rng.gen_range(0..2);
    }
    // the plain (unencrypted) path is one value of 21 in the array: give it more weight here
    if (t.layer == Layer::P || t.kind == 1 && t.layer == Layer::I) && rng.gen_bool(0.3) {
        c[D_ENC] = 0;
    }
    match (t.layer, t.kind) {
        (Layer::P, 1) => {
            c[D_CHUNK] = chunk_idx(t.block);
            if c[D_SRC] < 2 {
                c[D_SRC] = rng.gen_range(2..7);
            }
        }
        (Layer::I, 1) => {
            c[D_CHUNK] = chunk_idx(t.block);
            if c[D_COMP] == 0 {
                c[D_COMP] = 1;
            }
        }
        (Layer::I, 2) => {
            if !matches!(enc_of(c[D_ENC]), Enc::V2(..)) {
                c[D_ENC] = rng.gen_range(12..21);
            }
            c[D_AEADCS] = (t.block.trailing_zeros() - 6 + 1) as u8;
        }
        (Layer::P, 4) => {
            // a sized source gives a fixed-length literal packet (a reader source a final partial chunk)
            if rng.gen_bool(0.6) {
                c[D_SRC] = rng.gen_range(0..2);
            }
            if rng.gen_bool(0.5) {
                c[D_COMP] = 0;
            }
        }
        (Layer::I, 3) => {
            if !matches!(enc_of(c[D_ENC]), Enc::V1(..)) {
                c[D_ENC] = rng.gen_range(1..12);
            }
        }
        (Layer::E, 1) => {
            c[D_CHUNK] = chunk_idx(t.block);
            if c[D_ENC] == 0 {
                c[D_ENC] = rng.gen_range(1..21);
            }
        }
        (Layer::E, _) => {
            if c[D_ENC] == 0 {
                c[D_ENC] = rng.gen_range(1..21);
            }
        }
        _ => {}
    }
    // large payloads: keep 1-byte source schedules and 1-byte consumers away (cost only)
    if t.value() > 300_000 {
        // the non-AES ciphers run at a few MB/s in the checked build profile
        if matches!(c[D_ENC], 1..=4 | 8..=11) {
            c[D_ENC] = 5 + (c[D_ENC] % 3);
        }
        if c[D_SRC] == 3 {
            c[D_SRC] = 4;
        }
        if matches!(c[D_CONS], 2 | 6 | 7 | 9 | 3) {
            c[D_CONS] = 4;
        }
    }
    repair(sp, &mut c, rng);
    c
}

/// Re-establishes the n/a conventions after controller dimensions were changed
fn repair(sp: &Space, c: &mut Cfg, rng: &mut ChaCha8Rng) {
    if enc_of(c[D_ENC]) == Enc::None {
        c[D_NPW] = 0;
        c[D_NKEY] = 0;
    }
    for d in 0..ND {
        if !Space::na_dim(d) {
            continue;
        }
        let rel = Space::relevant(c, d);
        if !rel {
            c[d] = 0;
        } else if c[d] == 0 {
            c[d] = rng.gen_range(1..sp.card[d]);
        }
    }
    if c[D_NSIGN] > 0 {
        let need = sp.signer_min_digest[c[D_SKEY] as usize - 1];
        if HASHES[c[D_HASH] as usize - 1].1 < need {
            let ok: Vec<u8> = (1..=HASHES.len() as u8).filter(|h| HASHES[*h as usize - 1].1 >= need).collect();
            c[D_HASH] = ok[rng.gen_range(0..ok.len())];
        }
    }
    debug_assert!(sp.valid(c));
}

fn block_size_of(alg: SymmetricKeyAlgorithm) -> usize {
    alg.block_size()
}

/// inner stream length that gives a SEIPD body of `t` octets (nearest reachable one)
fn inner_for_body(p: &Plan, t: usize) -> usize {
    match p.enc {
        Enc::V1(alg) => t.saturating_sub(1 + block_size_of(alg) + 2 + 22),
        Enc::V2(..) => {
            let cs = p.chunk_size.as_byte_size() as usize;
            let avail = t.saturating_sub(36 + 16);
            let mut m = avail / (cs + 16);
            loop {
                let i = avail.saturating_sub(16 * m);
                let need = i.div_ceil(cs);
                if need <= m || avail < 16 * (m + 1) {
                    return i;
                }
                m += 1;
            }
        }
        Enc::None => t,
    }
}

/// Chooses the payload length that puts the targeted layer on its target value.
fn solve_size(env: &Env, p: &Plan, t: &Target, kind: u8) -> (usize, u32) {
    let tv = t.value();
    if t.layer == Layer::P || t.kind == 0 {
        return (tv, 0);
    }
    let mut tv = tv;
    let mut probes = 0;
    let mut n = 0;
    for _round in 0..2 {
        let want_inner = if t.layer == Layer::E { inner_for_body(p, tv) } else { tv };
        n = want_inner.saturating_sub(64);
        let mut unreachable = 0usize;
        for _ in 0..3 {
            let payload = gen_payload(p.seed, n, p.utf8, kind);
            let Some(i) = inner_len(env, p, &payload) else { break };
            probes += 1;
            if i == want_inner {
                break;
            }
            if n == 0 && i > want_inner {
                unreachable = i - want_inner;
                break;
            }
            let nn = (n as i64 + want_inner as i64 - i as i64).max(0) as usize;
            if nn == n {
                break;
            }
            n = nn;
        }
        if unreachable == 0 {
            break;
        }
        // the layers around the payload are already longer than the target: move the target up
        // by whole blocks, which keeps its position relative to the block edge
        tv += (t.block as usize) * unreachable.div_ceil(t.block as usize);
    }
    (n, probes)
}

// ------------------------------------------------------------------------------------------
// hook evaluation

fn phase(e: &Ev) -> &'static str {
    match (e.a, e.c, e.b) {
        (1, 0, _) => "first-fixed",
        (1, 1, _) => "first-partial",
        (0, 1, _) => "mid-partial",
        (0, 0, 0) => "final-zero",
        _ => "final-fixed",
    }
}

fn sum_b(ev: &[Ev], site: &str) -> u64 {
    ev.iter().filter(|e| e.site == site).map(|e| e.b).sum()
}

// ------------------------------------------------------------------------------------------
// one case

struct CaseSpec {
    plan: Plan,
    target: Target,
    /// make the payload non-conforming (Utf8 mode only): the builder must refuse
    spoil: bool,
    fam: &'static str,
}

fn run_case(ctx: &mut Ctx, env: &Env, cs: &CaseSpec) {
    let p = &cs.plan;
    let kind = p.cfg[D_DATA];
    let t_case = crate::core::thread_cpu_s();
    describe_case(&format!("C01 {} {} cfg={:?}", cs.fam, cs.target.name(), p.cfg));
    let t0 = crate::core::thread_cpu_s();
    let (n, probes) = solve_size(env, p, &cs.target, kind);
    ctx.tally("cpu_us.solve", ((crate::core::thread_cpu_s() - t0) * 1e6) as u64);
    ctx.evals_add(probes as u64);
    let mut payload = gen_payload(p.seed, n, p.utf8, kind);
    let mut spoiled = None;
    if cs.spoil && p.utf8 && n > 0 {
        let mut r = ChaCha8Rng::seed_from_u64(p.seed ^ 0x51);
        let c = p.chunk.unwrap_or(1 << 19) as usize;
        let near = [c - 6, c, 2 * c - 6, 8192, n.saturating_sub(1)];
        let near: Vec<usize> = near.iter().copied().filter(|x| *x < n).collect();
        spoiled = Some(spoil_utf8(&mut payload, &mut r, &near));
    }
    let replay = || {
        json!({
            "family": cs.fam,
            "target": cs.target.name(),
            "payload_len": n,
            "payload": hexs(&payload),
            "config": cfg_json(env, p),
            "spoiled": spoiled,
        })
    };

    // ---- build
    let t0 = crate::core::thread_cpu_s();
    let built = ctx.guarded("C01/build", replay, || hooks::record(|| build(env, p, &payload)));
    ctx.tally("cpu_us.build", ((crate::core::thread_cpu_s() - t0) * 1e6) as u64);
    ctx.eval();
    let Some((built, bev)) = built else { return };
    let built = match built {
        Ok(b) => {
            if let Some(why) = spoiled {
                ctx.violation(
                    "C01/build/accepts-nonconforming-utf8",
                    format!("Utf8 literal with {why} was accepted by the builder ({} bytes)", n),
                    replay(),
                );
                return;
            }
            b
        }
        Err(e) => {
            if spoiled.is_some() {
                ctx.tally("skipped.documented-reject.utf8", 1);
            } else if e.to_string().starts_with("harness:") {
                ctx.inconclusive(format!("temp file I/O failed: {e}"));
            } else {
                ctx.violation("C01/build/unexpected-error", format!("builder refused a valid input: {e}"), replay());
            }
            return;
        }
    };
    let out = &built.out;
    let sk = built.session_key.as_deref();

    // ---- binary form through the reference de-armorer
    let bin: Vec<u8> = if p.armor > 0 {
        let parsed = std::str::from_utf8(out).map_err(|e| e.to_string()).and_then(rfc::armor::armor_parse_strict);
        match parsed {
            Ok(a) => {
                let want_crc = p.armor != 2;
                let crc_ok = match a.crc {
                    Some(c) => want_crc && c == rfc::armor::crc24(&a.data),
                    None => !want_crc,
                };
                let want_headers: Vec<(String, String)> = if p.armor == 3 {
                    armor_headers().into_iter().map(|(k, v)| (k, v[0].clone())).collect()
                } else {
                    vec![]
                };
                if a.typ != "PGP MESSAGE" || !crc_ok || a.headers != want_headers || !a.rest.trim_end_matches('\n').is_empty() {
                    ctx.violation(
                        "C01/ref/armor-form",
                        format!("armor type {:?} crc {:?} (wanted: {}) headers {:?} rest {:?}", a.typ, a.crc, want_crc, a.headers, a.rest),
                        replay(),
                    );
                }
                a.data
            }
            Err(e) => {
                ctx.violation("C01/ref/armor-unparseable", format!("reference de-armorer: {e}"), replay());
                return;
            }
        }
    } else {
        out.clone()
    };

    // ---- independent reference
    let t0 = crate::core::thread_cpu_s();
    let opened = match ref_open(&bin, p, sk) {
        Ok(o) => Some(o),
        Err(e) => {
            ctx.violation("C01/ref/container", e, replay());
            None
        }
    };
    ctx.tally("cpu_us.ref", ((crate::core::thread_cpu_s() - t0) * 1e6) as u64);
    let mut ref_judged = false;
    if let Some(o) = &opened {
        match &o.lit {
            Ok(l) => {
                ref_judged = true;
                let want_mode = if p.utf8 { b'u' } else { b'b' };
                let want_algs: Vec<u8> = p.comp.iter().map(|c| u8::from(*c)).collect();
                if l.data != payload {
                    ctx.violation(
                        "C01/ref/literal-body",
                        format!("literal body on the wire has {} bytes, payload {}", l.data.len(), payload.len()),
                        replay(),
                    );
                } else if l.mode != want_mode || (!l.name.is_empty() && l.name != p.name) || l.n_ops != p.signers.len() || l.n_sig != p.signers.len() || l.comp_algs != want_algs {
                    ctx.violation(
                        "C01/ref/structure",
                        format!(
                            "wire: mode {:?} name {:?} date {} ops {} sigs {} compression {:?}; requested mode {:?} signers {} compression {:?}",
                            l.mode as char,
                            String::from_utf8_lossy(&l.name),
                            l.date,
                            l.n_ops,
                            l.n_sig,
                            l.comp_algs,
                            want_mode as char,
                            p.signers.len(),
                            want_algs
                        ),
                        replay(),
                    );
                }
                if l.name.is_empty() && !p.name.is_empty() {
                    ctx.tally("note.file-name-not-emitted", 1);
                }
            }
            Err(RefErr::Skip(w)) => ctx.tally(&format!("ref.skipped.{w}"), 1),
            Err(RefErr::Bad(e)) => ctx.violation("C01/ref/plaintext-structure", e.clone(), replay()),
        }
    }
    if ref_judged {
        ctx.tally("ref.judged", 1);
    }

    // ---- hook invariants and coverage of the write side
    // the library's event log keeps at most 2^20 events per recording (text-mode hashing of a
    // 1-byte-read source emits one per octet and signer): a saturated log proves nothing
    let saturated = bev.len() >= (1 << 20);
    if saturated {
        ctx.tally("hook.log-saturated", 1);
    }
    if hooks::available() && !saturated {
        let lit: Vec<&Ev> = bev.iter().filter(|e| e.site == "lit.chunk").collect();
        if p.sched.is_some() {
            if sum_b(&bev, "lit.chunk") != payload.len() as u64 || lit.is_empty() {
                ctx.violation(
                    "C01/hook/lit-conservation",
                    format!("literal chunker emitted {} body bytes in {} chunks for a payload of {}", sum_b(&bev, "lit.chunk"), lit.len(), payload.len()),
                    replay(),
                );
            }
        } else if !lit.is_empty() {
            ctx.violation("C01/hook/lit-conservation", "partial literal generator used for a source of known length".to_string(), replay());
        }
        for site in ["lit.chunk", "cmp.chunk", "enc.chunk"] {
            let evs: Vec<&Ev> = bev.iter().filter(|e| e.site == site).collect();
            for (i, e) in evs.iter().enumerate() {
                ctx.seen(&format!("hook.{}.phase", &site[..3]), phase(e));
                let last = i + 1 == evs.len();
                // exactly the last event is non-partial; only the first is flagged first
                if (e.c == 0) != last || (e.a == 1) != (i == 0) {
                    ctx.violation(
                        format!("C01/hook/{}-sequence", &site[..3]),
                        format!("chunk {i} of {}: first={} partial={} bytes={}", evs.len(), e.a, e.c, e.b),
                        replay(),
                    );
                }
            }
        }
        if let Some(o) = &opened {
            if let (Some(il), Some(bl)) = (o.inner_len, o.seipd_body_len) {
                let cfg_len = if matches!(p.enc, Enc::V2(..)) { 36 } else { 1 };
                if sum_b(&bev, "enc.chunk") + cfg_len != bl as u64 {
                    ctx.violation(
                        "C01/hook/enc-conservation",
                        format!("encrypt_write emitted {} bytes, SEIPD body on the wire has {} incl. {} config", sum_b(&bev, "enc.chunk"), bl, cfg_len),
                        replay(),
                    );
                }
                if let Enc::V2(..) = p.enc {
                    let fin: Vec<&Ev> = bev.iter().filter(|e| e.site == "aead.enc.final").collect();
                    let chunks: Vec<&Ev> = bev.iter().filter(|e| e.site == "aead.enc.chunk").collect();
                    let s = sum_b(&bev, "aead.enc.chunk");
                    let seq_ok = chunks.iter().enumerate().all(|(i, e)| e.a == i as u64);
                    if fin.len() != 1 || fin[0].a != s || s != il as u64 || fin[0].b != chunks.len() as u64 || !seq_ok {
                        ctx.violation(
                            "C01/hook/aead-conservation",
                            format!("AEAD encryptor: {} chunks sum {} final {:?}, reference inner length {}", chunks.len(), s, fin.first().map(|f| (f.a, f.b)), il),
                            replay(),
                        );
                    }
                    let csz = p.chunk_size.as_byte_size() as u64;
                    let lastc = chunks.last().map(|e| e.b).unwrap_or(0);
                    ctx.seen(
                        "hook.aead.enc.last-chunk",
                        if chunks.is_empty() { "none" } else if lastc == csz { "full" } else if lastc == 1 { "one" } else if lastc == csz - 1 { "full-1" } else { "other" },
                    );
                    ctx.seen("hook.aead.enc.chunks", match chunks.len() { 0 => "0", 1 => "1", 2 => "2", _ => "3+" });
                }
            }
            if let Ok(l) = &o.lit {
                if let Some(cb) = l.compressed_body {
                    if sum_b(&bev, "cmp.chunk") + 1 != cb as u64 {
                        ctx.violation(
                            "C01/hook/cmp-conservation",
                            format!("compressed chunker emitted {} bytes, packet body on the wire has {}", sum_b(&bev, "cmp.chunk"), cb),
                            replay(),
                        );
                    }
                }
            }
        }
    }

    // ---- target bookkeeping (measured)
    if cs.target.kind != 0 {
        let measured = match cs.target.layer {
            Layer::P => Some(payload.len()),
            Layer::I => opened.as_ref().and_then(|o| o.inner_len).or(if p.enc == Enc::None { Some(bin.len()) } else { None }),
            Layer::E => opened.as_ref().and_then(|o| o.seipd_body_len),
        };
        if let Some(m) = measured {
            // position relative to the nearest edge of the targeted block size
            let b = cs.target.block as i64;
            let mut off = (m as i64 - cs.target.value() as i64).rem_euclid(b);
            if off > b / 2 {
                off -= b;
            }
            let cls = if off == 0 { "exact" } else if off.abs() <= 4 { "within4" } else { "off" };
            ctx.tally(&format!("target.{:?}.{cls}", cs.target.layer), 1);

        }
    }

    // ---- the library's reader, through every way in
    let mut accesses = vec![];
    if p.enc == Enc::None {
        accesses.push(Access::Plain);
    } else {
        let heavy = payload.len() > 200_000;
        for i in 0..p.pws.len() {
            if !heavy || i == 0 {
                accesses.push(Access::Password(i));
            }
        }
        for i in 0..p.keys.len() {
            if !heavy || i == 0 {
                accesses.push(Access::Key(i));
            }
        }
        if accesses.is_empty() || (!heavy && p.seed % 3 == 0) {
            accesses.push(Access::SessionKey);
        }
    }
    let mut all_ok = true;
    let wire: Option<(u8, Vec<u8>, u32)> = opened.as_ref().and_then(|o| o.lit.as_ref().ok()).map(|l| (l.mode, l.name.clone(), l.date));
    let t0 = crate::core::thread_cpu_s();
    for (ai, a) in accesses.iter().enumerate() {
        let r = ctx.guarded("C01/read", replay, || hooks::record(|| lib_roundtrip(env, p, out, &payload, sk, a, ai == 0, wire.as_ref())));
        ctx.eval();
        let Some((r, rev)) = r else {
            all_ok = false;
            continue;
        };
        for e in &rev {
            match e.site {
                "aead.dec.chunk" => ctx.seen("hook.aead.dec.index", match e.a { 0 => "0", 1 => "1", _ => "2+" }),
                "cfb.dec.avail" => ctx.seen(
                    "hook.cfb.dec",
                    match (e.a, e.c) {
                        (0, _) => "checkfirst",
                        (1, 0) => "streaming-more",
                        (1, _) => "streaming-last",
                        _ => "sed",
                    },
                ),
                "body.new" => ctx.seen("hook.body.kind", match e.a { 0 => "fixed", 1 => "indeterminate", _ => "partial" }),
                _ => {}
            }
        }
        match r {
            Ok(ok) => {
                debug_assert_eq!(ok.data_len, payload.len());
                ctx.tally(&format!("roundtrip.ok.{}", a.class()), 1);
            }
            Err((sym, detail)) => {
                // v4 SKESK carries no integrity check: a wrong password opens another SKESK of
                // the message to a plausible (algorithm, key) pair with probability ~2^-6 and the
                // library then refuses the conflicting session keys. Inherent to the format.
                if let (Access::Password(j), Enc::V1(_), Some(o)) = (a, p.enc, &opened) {
                    if sym.starts_with("decrypt-error") {
                        let pw = p.pws[*j].0.as_bytes();
                        let ambiguous = o.skesk_bodies.iter().enumerate().any(|(i, b)| {
                            i != *j
                                && rfc::sym::skesk_v4_decrypt(b, pw)
                                    .is_some_and(|(alg, key)| rfc::sym::key_size(alg) == Some(key.len()))
                        });
                        if ambiguous {
                            ctx.tally("skipped.skesk-v4-wrong-password-plausible", 1);
                            continue;
                        }
                    }
                }
                all_ok = false;
                ctx.violation(format!("C01/roundtrip/{sym}"), format!("[{}] {detail}", a.class()), replay());
            }
        }
    }

    if p.enc == Enc::None && !p.signers.is_empty() {
        let r = ctx.guarded("C01/read", replay, || lib_verify_read(env, p, out));
        ctx.eval();
        match r {
            Some(Ok(())) => ctx.tally("roundtrip.ok.verify_read", 1),
            Some(Err((sym, detail))) => {
                all_ok = false;
                ctx.violation(format!("C01/roundtrip/{sym}"), format!("[verify_read] {detail}"), replay());
            }
            None => all_ok = false,
        }
    }
    ctx.tally("cpu_us.read", ((crate::core::thread_cpu_s() - t0) * 1e6) as u64);
    let dt_case = crate::core::thread_cpu_s() - t_case;
    if dt_case > 3.0 {
        ctx.note(format!("slow case {:.1}s cpu: {} n={} {}", dt_case, cs.target.name(), n, cfg_json(env, p)));
    }
    // ---- accounting
    let trivial = payload.is_empty() && p.comp.is_none() && p.signers.is_empty() && p.enc == Enc::None;
    if !trivial {
        ctx.cover(&(&cs.target, &p.cfg));
    }
    ctx.tally(&format!("cases.{}", cs.fam), 1);
    if all_ok {
        ctx.tally("cases.all-paths-ok", 1);
    }
    ctx.seen("sizes.class", match payload.len() { 0 => "0", 1..=3 => "1-3", 4..=511 => "<512", 512..=8191 => "<8Ki", 8192..=65535 => "<64Ki", 65536..=1048575 => "<1Mi", _ => ">=1Mi" });
    if ctx.samples.len() < 4 && n > 0 && (ctx.case_id() / ctx.nshards) % 97 == 3 {
        ctx.sample(json!({
            "family": cs.fam, "target": cs.target.name(), "payload_len": n, "output_len": out.len(),
            "config": cfg_json(env, p), "paths": accesses.iter().map(|a| a.class()).collect::<Vec<_>>(),
            "payload_head": hex::encode(&payload[..payload.len().min(32)]),
        }));
    }
}

// ------------------------------------------------------------------------------------------
// driver

pub fn run(ctx: &mut Ctx) {
    let t00 = crate::core::thread_cpu_s();
    let env = Env::new(ctx);
    let quick = ctx.quick();
    let sp = Space::new(quick, env.signers.len(), env.recips.len(), env.signers.iter().map(|s| s.min_digest).collect());
    let mut prng = ctx.rng("pairs", 0);
    let mut pairs = Pairs::new(&sp, &mut prng);
    let rows = covering_array(&sp, &pairs, &mut prng);
    let tg = targets(quick);
    ctx.tally("cpu_us.setup", ((crate::core::thread_cpu_s() - t00) * 1e6) as u64);
    if ctx.shard == 0 {
        ctx.tally("array.rows", rows.len() as u64);
        ctx.tally("targets", tg.len() as u64);
    }

    // slow public-key algorithms are rationed in the size sweep (not in the covering array)
    let slow_signer: Vec<bool> = env.signers.iter().map(|s| s.slow).collect();
    let slow_recip: Vec<bool> = env.recips.iter().map(|s| s.slow).collect();
    let ration = |c: &mut Cfg, rng: &mut ChaCha8Rng, keep: f64| {
        if c[D_NSIGN] > 0 && slow_signer[c[D_SKEY] as usize - 1] && !rng.gen_bool(keep) {
            // Ed25519 v4 / v6, accept every hash of the table except SHA-224
            c[D_SKEY] = 1 + rng.gen_range(0..3);
            if c[D_HASH] == 6 {
                c[D_HASH] = 1;
            }
        }
        if c[D_NKEY] > 0 && slow_recip[c[D_PKALG] as usize - 1] && !rng.gen_bool(keep) {
            c[D_PKALG] = 1 + rng.gen_range(0..3);
        }
        if c[D_NPW] > 0 && c[D_S2K] == 3 && !rng.gen_bool(keep) {
            c[D_S2K] = 2;
        }
    };

    let mut case_no = 0u64;
    let mut do_case = |ctx: &mut Ctx, pairs: &mut Pairs, cfg: Cfg, target: Target, fam: &'static str, spoil: bool| {
        let idx = case_no;
        case_no += 1;
        let gained = if spoil { 0 } else { pairs.mark(&sp, &cfg) };
        if !ctx.mine() {
            return;
        }
        ctx.tally("pairs.covered", gained as u64);
        let mut rng = ctx.rng("plan", idx);
        let plan = make_plan(&env, &cfg, &mut rng);
        let cs = CaseSpec { plan, target, spoil, fam };
        run_case(ctx, &env, &cs);
    };

    // ---- family A: the covering array itself, each row with a few sizes
    let base_sizes: [usize; 16] = [0, 1, 2, 3, 100, 505, 506, 511, 512, 513, 1000, 4096, 8191, 8192, 8193, 20000];
    let reps_a = ctx.qt(3usize, 8usize);
    for (ri, row) in rows.iter().enumerate() {
        for r in 0..reps_a {
            let mut rng = ctx.rng("A", (ri * 64 + r) as u64);
            let n = if r == reps_a - 1 { rng.gen_range(0..65536) } else { base_sizes[(ri * 5 + r * 7) % base_sizes.len()] };
            do_case(ctx, &mut pairs, *row, Target::free(n), "array", false);
        }
    }

    // ---- family B: boundary sweep, every target with several configurations of the array
    let reps_b = ctx.qt(4usize, 40usize);
    for (ti, t) in tg.iter().enumerate() {
        let big = t.value() > 300_000;
        let reps = if big { 2 } else if t.value() > 30_000 { reps_b.min(6) } else { reps_b };
        for r in 0..reps {
            let mut rng = ctx.rng("B", (ti * 64 + r) as u64);
            let mut c = rows[(ti * reps_b + r * 131 + ti / 7) % rows.len()];
            ration(&mut c, &mut rng, if big { 0.0 } else { 0.25 });
            if big && c[D_COMP] == 4 {
                c[D_COMP] = 2; // bzip2 of megabytes is slow; ZIP instead
            }
            let c = apply_target(&sp, &c, t, &mut rng);
            do_case(ctx, &mut pairs, c, t.clone(), "sweep", false);
        }
    }

    // ---- family C: random sizes
    let nrand = ctx.qt(100usize, 600usize);
    let reps_c = ctx.qt(3usize, 6usize);
    for i in 0..nrand {
        let mut rng = ctx.rng("C", i as u64);
        let n = if !quick && i % 100 == 99 {
            rng.gen_range(1 << 20..8 << 20)
        } else if i % 10 == 9 {
            rng.gen_range(65536..(if quick { 200_000 } else { 1 << 20 }))
        } else {
            rng.gen_range(0..65536)
        };
        let t = Target::free(n);
        for r in 0..reps_c {
            let mut c = rows[rng.gen_range(0..rows.len())];
            ration(&mut c, &mut rng, 0.25);
            if n > 300_000 && c[D_COMP] == 4 {
                c[D_COMP] = 2;
            }
            let c = apply_target(&sp, &c, &t, &mut rng);
            let _ = r;
            do_case(ctx, &mut pairs, c, t.clone(), "random", false);
        }
    }

    // ---- family D: Utf8 literals that must be refused (documented rejection), at boundaries
    let nspoil = ctx.qt(150usize, 1500usize);
    for i in 0..nspoil {
        let mut rng = ctx.rng("D", i as u64);
        let mut c = rows[rng.gen_range(0..rows.len())];
        c[D_MODE] = 1;
        c[D_DATA] = 0;
        ration(&mut c, &mut rng, 0.0);
        let t = if i % 2 == 0 { tg[rng.gen_range(0..tg.len())].clone() } else { Target::free(rng.gen_range(1..20000)) };
        let t = if t.value() == 0 || t.value() > 100_000 { Target::free(777) } else { t };
        let c = apply_target(&sp, &c, &t, &mut rng);
        do_case(ctx, &mut pairs, c, t, "utf8-reject", true);
    }

    if ctx.shard == 0 {
        ctx.tally("pairs.feasible", pairs.nfeasible as u64);
        ctx.extra.insert(
            "pairwise".into(),
            json!({"dimensions": DIM_NAMES.to_vec(), "cardinalities": sp.card.to_vec(), "feasible_pairs": pairs.nfeasible,
                   "pairs_planned_covered": pairs.ncovered, "array_rows": rows.len(), "size_targets": tg.len(), "cases_planned": case_no}),
        );
    }
    let _ = std::fs::remove_dir_all(&env.tmp);
}
