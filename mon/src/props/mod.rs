pub mod c14;
