//! C08 — secret-key locking: the right password restores the key, nothing else does.
//!
//! Oracles: (L) library lock -> {in-memory, serialised+parsed} unlock == original, reference unlock
//! of the library's bytes == original material; (W) reference-locked wire keys of every legal
//! usage/S2K/cipher/AEAD combination unlock in the library to the original key; (N) negatives —
//! wrong passwords and every single-bit flip of the secret part (and of the public part for AEAD
//! protection): `library accepts => reference accepts` (the reference applies exactly the RFC
//! checks, so an inherent 16-bit checksum collision is accepted by both and is not reported).

use pgp::composed::SignedSecretKey;
use pgp::crypto::aead::AeadAlgorithm;
use pgp::crypto::hash::HashAlgorithm;
use pgp::crypto::sym::SymmetricKeyAlgorithm;
use pgp::packet::{PacketHeader, SecretKey, SecretSubkey};
use pgp::ser::Serialize;
use pgp::types::{KeyDetails, Password, PlainSecretParams, S2kParams, StringToKey, Tag};
use rand::{Rng, RngCore};
use serde_json::json;

use crate::core::{describe_case, hexs, Ctx};
use crate::rfc::key::{RefProtection, RefPub, RefSecret};
use crate::rfc::sym::{aead_nonce_len, block_size, RefS2k};
use crate::zoo::{self, Alg, Spec};

/// A secret key packet under test: primary (tag 5) or subkey (tag 7)
#[derive(Clone)]
enum Sk {
    P(SecretKey),
    S(SecretSubkey),
}

impl Sk {
    fn tag(&self) -> u8 {
        match self {
            Sk::P(_) => 5,
            Sk::S(_) => 7,
        }
    }
    fn body(&self) -> Vec<u8> {
        match self {
            Sk::P(k) => k.to_bytes().expect("serialise"),
            Sk::S(k) => k.to_bytes().expect("serialise"),
        }
    }
    fn parse(tag: u8, body: &[u8]) -> pgp::errors::Result<Sk> {
        if tag == 5 {
            SecretKey::try_from_reader(PacketHeader::new_fixed(Tag::SecretKey, body.len() as u32), body).map(Sk::P)
        } else {
            SecretSubkey::try_from_reader(PacketHeader::new_fixed(Tag::SecretSubkey, body.len() as u32), body).map(Sk::S)
        }
    }
    fn lock(&mut self, pw: &Password, p: S2kParams) -> pgp::errors::Result<()> {
        match self {
            Sk::P(k) => k.set_password_with_s2k(pw, p),
            Sk::S(k) => k.set_password_with_s2k(pw, p),
        }
    }
    fn remove(&mut self, pw: &Password) -> pgp::errors::Result<()> {
        match self {
            Sk::P(k) => k.remove_password(pw),
            Sk::S(k) => k.remove_password(pw),
        }
    }
    fn unlock(&self, pw: &Password) -> pgp::errors::Result<PlainSecretParams> {
        match self {
            Sk::P(k) => k.unlock(pw, |_, p| Ok(p.clone()))?,
            Sk::S(k) => k.unlock(pw, |_, p| Ok(p.clone()))?,
        }
    }
    fn eq(&self, o: &Sk) -> bool {
        match (self, o) {
            (Sk::P(a), Sk::P(b)) => a == b,
            (Sk::S(a), Sk::S(b)) => a == b,
            _ => false,
        }
    }
    fn version(&self) -> u8 {
        match self {
            Sk::P(k) => k.version().into(),
            Sk::S(k) => k.version().into(),
        }
    }
    fn alg_name(&self) -> String {
        match self {
            Sk::P(k) => format!("{:?}", k.algorithm()),
            Sk::S(k) => format!("{:?}", k.algorithm()),
        }
    }
}

fn key_zoo(ctx: &Ctx) -> Vec<(String, Sk)> {
    let mut specs = vec![
        Spec::simple(false, Alg::Ed25519Legacy, Some(Alg::EcdhCv25519)),
        Spec::simple(false, Alg::EcdsaP256, Some(Alg::EcdhP256)),
        Spec::simple(true, Alg::Ed25519, Some(Alg::X25519)),
        Spec::simple(true, Alg::Ed448, Some(Alg::X448)),
        Spec::simple(false, Alg::EcdsaP521, Some(Alg::EcdhP384)),
        Spec::simple(true, Alg::EcdsaP384, Some(Alg::EcdhP521)),
        Spec::simple(false, Alg::EcdsaK256, None),
        Spec::simple(false, Alg::Rsa2048, Some(Alg::Rsa2048)),
        Spec::simple(true, Alg::Rsa2048, None),
    ];
    if !ctx.quick() {
        specs.push(Spec::simple(false, Alg::Dsa2048, None));
        specs.push(Spec::simple(false, Alg::Ed25519, Some(Alg::X25519)));
    }
    let mut out = vec![];
    for s in specs {
        let k: SignedSecretKey = zoo::key(&s, 1);
        out.push((format!("{}/primary", s.name()), Sk::P(k.primary_key.clone())));
        for sub in &k.secret_subkeys {
            out.push((format!("{}/subkey", s.name()), Sk::S(sub.key.clone())));
        }
    }
    out
}

#[derive(Clone, Debug)]
struct Prot {
    usage: u8, // 253, 254, 255 or legacy cipher id
    cipher: u8,
    aead: u8,
    s2k: RefS2k,
}

fn to_lib_s2k(s: &RefS2k) -> StringToKey {
    match s {
        RefS2k::Simple { hash } => StringToKey::Simple { hash_alg: HashAlgorithm::from(*hash) },
        RefS2k::Salted { hash, salt } => StringToKey::Salted { hash_alg: HashAlgorithm::from(*hash), salt: *salt },
        RefS2k::Iterated { hash, salt, count } => StringToKey::IteratedAndSalted { hash_alg: HashAlgorithm::from(*hash), salt: *salt, count: *count },
        RefS2k::Argon2 { salt, t, p, m } => StringToKey::Argon2 { salt: *salt, t: *t, p: *p, m_enc: *m },
    }
}

fn s2k_kind(s: &RefS2k) -> &'static str {
    match s {
        RefS2k::Simple { .. } => "simple",
        RefS2k::Salted { .. } => "salted",
        RefS2k::Iterated { .. } => "iterated",
        RefS2k::Argon2 { .. } => "argon2",
    }
}

fn passwords(rng: &mut impl Rng) -> Vec<Vec<u8>> {
    let mut long = vec![0u8; 200];
    rng.fill_bytes(&mut long);
    vec![
        b"".to_vec(),
        b"pw".to_vec(),
        b"correct horse battery staple".to_vec(),
        vec![0xFF, 0xFE, 0x00, 0x80, b'x'],
        long,
    ]
}

fn wrong_passwords(pw: &[u8]) -> Vec<Vec<u8>> {
    let mut v: Vec<Vec<u8>> = vec![];
    if !pw.is_empty() {
        v.push(vec![]);
        v.push(pw[..pw.len() - 1].to_vec());
        if pw.len() > 1016 {
            v.push(pw[..1016].to_vec());
            let mut c = pw.to_vec();
            let l = c.len() - 1;
            c[l] = c[l].wrapping_add(1);
            v.push(c);
        }
        let mut c = pw.to_vec();
        c[0] ^= 0x20;
        v.push(c);
        let mut c = pw.to_vec();
        let l = c.len() - 1;
        c[l] ^= 1;
        v.push(c);
    }
    let mut c = pw.to_vec();
    c.push(0);
    v.push(c);
    let mut c = pw.to_vec();
    c.push(b' ');
    v.push(c);
    let mut c = pw.to_vec();
    c.insert(0, b' ');
    v.push(c);
    v.push(b"wrong".to_vec());
    v.push(vec![0xC3, 0x28]);
    v.push(vec![b'a'; 300]);
    v.push(pw.iter().rev().cloned().chain(std::iter::once(b'x')).collect());
    v.push([pw, pw, b"!"].concat());
    v
}

/// raw secret material (no checksum) of an unprotected key body
fn raw_material(body: &[u8]) -> Option<(RefPub, Vec<u8>)> {
    let rs = RefSecret::parse(body)?;
    if rs.protection != RefProtection::None {
        return None;
    }
    let m = rs.unlock(5, b"")?.ok()?;
    Some((rs.public, m))
}

fn ref_protection(p: &Prot, rng: &mut impl Rng) -> Option<RefProtection> {
    Some(match p.usage {
        253 => {
            let mut nonce = vec![0u8; aead_nonce_len(p.aead)?];
            rng.fill_bytes(&mut nonce);
            RefProtection::Aead { cipher: p.cipher, aead: p.aead, s2k: p.s2k.clone(), nonce }
        }
        254 | 255 => {
            let mut iv = vec![0u8; block_size(p.cipher)?];
            rng.fill_bytes(&mut iv);
            if p.usage == 254 {
                RefProtection::Cfb { cipher: p.cipher, s2k: p.s2k.clone(), iv }
            } else {
                RefProtection::MalleableCfb { cipher: p.cipher, s2k: p.s2k.clone(), iv }
            }
        }
        c => {
            let mut iv = vec![0u8; block_size(c)?];
            rng.fill_bytes(&mut iv);
            RefProtection::LegacyCipher { cipher: c, iv }
        }
    })
}

fn lib_params(p: &Prot, rp: &RefProtection) -> Option<S2kParams> {
    Some(match rp {
        RefProtection::Aead { nonce, .. } => S2kParams::Aead {
            sym_alg: SymmetricKeyAlgorithm::from(p.cipher),
            aead_mode: AeadAlgorithm::from(p.aead),
            s2k: to_lib_s2k(&p.s2k),
            nonce: nonce.clone().into(),
        },
        RefProtection::Cfb { iv, .. } => S2kParams::Cfb {
            sym_alg: SymmetricKeyAlgorithm::from(p.cipher),
            s2k: to_lib_s2k(&p.s2k),
            iv: iv.clone().into(),
        },
        _ => return None,
    })
}

/// Negative trials on a serialised locked key: `library accepts => reference accepts`.
#[allow(clippy::too_many_arguments)]
fn negatives(ctx: &mut Ctx, label: &str, tag: u8, locked_body: &[u8], pw: &[u8], p: &Prot, flips_step: usize, replay: &serde_json::Value) {
    // Protection with a 16-bit checksum (usage 255 / legacy cipher octet) accepts a wrong password or
    // a tampered blob with inherent probability about 2^-16 per trial (the library additionally
    // compares the checksum of the *re-serialised* parsed material, so its collisions need not be
    // the reference's). A single acceptance therefore proves nothing: for these usages a violation is
    // reported only when 3 or more trials of one case are accepted (a missing check accepts nearly
    // always; chance gives 3 of ~2000 with probability < 1e-5).
    let weak16 = !matches!(p.usage, 253 | 254);
    let mut weak_accepts: Vec<String> = vec![];
    // wrong passwords
    for w in wrong_passwords(pw) {
        let Ok(k) = Sk::parse(tag, locked_body) else { return };
        let r = ctx.guarded("C08/neg", || replay.clone(), || k.unlock(&Password::from(&w[..])));
        ctx.eval();
        ctx.tally("neg.wrong_password", 1);
        if let Some(Ok(_)) = r {
            let refok = RefSecret::parse(locked_body).and_then(|r| r.unlock(tag, &w)).map(|r| r.is_ok()).unwrap_or(false);
            if refok {
                ctx.tally("neg.inherent_collision", 1);
            } else if weak16 {
                ctx.tally("neg.weak16.accepted_once", 1);
                weak_accepts.push(format!("wrong password {}", hexs(&w)));
            } else {
                ctx.violation(
                    format!("C08/wrong-password-accepted/usage-{}", usage_class(p.usage)),
                    format!("{label}: unlock with a wrong password returned Ok (usage {}, s2k {})", p.usage, s2k_kind(&p.s2k)),
                    replay.clone(),
                );
            }
        }
    }
    // bit flips
    let Some((rp, publen)) = RefPub::parse_prefix(locked_body) else { return };
    let _ = rp;
    let start = if p.usage == 253 { 0 } else { publen };
    let mut pos = start * 8;
    let end = locked_body.len() * 8;
    let pwd = Password::from(pw);
    while pos < end {
        let mut b = locked_body.to_vec();
        b[pos / 8] ^= 1 << (pos % 8);
        // a flip inside the S2K specifier may ask for a legitimately expensive derivation (Argon2 with hundreds of
        // MiB, iterated counts of tens of megabytes): those are C19's business, not judged here
        let costly = match RefSecret::parse(&b).map(|r| r.protection) {
            Some(RefProtection::Cfb { s2k, .. }) | Some(RefProtection::MalleableCfb { s2k, .. }) | Some(RefProtection::Aead { s2k, .. }) => match s2k {
                RefS2k::Argon2 { t, p, m, .. } => m <= 31 && (1u64 << m) * t.max(1) as u64 * p.max(1) as u64 > (64 << 10),
                RefS2k::Iterated { count, .. } => count > 0x90,
                _ => false,
            },
            _ => false,
        };
        if costly {
            ctx.tally("neg.flip.skipped-costly-s2k", 1);
            pos += if pos / 8 < publen + 40 && pos / 8 >= publen { 1 } else { flips_step };
            continue;
        }
        let region = if pos / 8 < publen { "public" } else { "secret" };
        let mut normalised_away = false;
        let r = ctx.guarded("C08/neg", || json!({"base": replay, "flip_bit": pos}), || match Sk::parse(tag, &b) {
            Ok(k) => {
                // a flip that the parser normalises away (the parsed value is the original key)
                normalised_away = k.body() == locked_body;
                k.unlock(&pwd).is_ok()
            }
            Err(_) => false,
        });
        ctx.eval();
        ctx.tally(&format!("neg.flip.{region}"), 1);
        if r == Some(true) {
            let refok = RefSecret::parse(&b).and_then(|r| r.unlock(tag, pw)).map(|r| r.is_ok()).unwrap_or(false);
            if normalised_away {
                ctx.tally("neg.flip.normalised_away_by_parser", 1);
            } else if refok {
                // either an inherent 16-bit collision or a bit neither implementation binds
                ctx.tally("neg.flip.accepted_by_both", 1);
            } else if weak16 {
                ctx.tally("neg.weak16.accepted_once", 1);
                weak_accepts.push(format!("flip bit {pos}"));
            } else {
                ctx.violation(
                    format!("C08/tampered-key-unlocks/usage-{}/{region}", usage_class(p.usage)),
                    format!("{label}: after flipping bit {pos} (byte {} of {}, public part {publen} bytes) unlock with the right password returned Ok", pos / 8, locked_body.len()),
                    json!({"base": replay, "flip_bit": pos, "body": hexs(&b)}),
                );
            }
        }
        // the usage octet, cipher / AEAD octets and the S2K specifier (first 40 octets behind the public part):
        // every bit; the rest in steps
        pos += if pos / 8 < publen + 40 && pos / 8 >= publen { 1 } else { flips_step };
    }
    if weak_accepts.len() >= 3 {
        ctx.violation(
            format!("C08/weak16-check-missing/usage-{}", usage_class(p.usage)),
            format!("{label}: {} negative trials of one key were accepted (16-bit checksum protection): {:?}", weak_accepts.len(), &weak_accepts[..3]),
            replay.clone(),
        );
    }
}

fn usage_class(u: u8) -> String {
    match u {
        253 | 254 | 255 => u.to_string(),
        _ => "legacy".into(),
    }
}

pub fn run(ctx: &mut Ctx) {
    let keys = key_zoo(ctx);
    let quick = ctx.quick();

    // protection grid
    let salt8 = [0xA1u8, 2, 3, 4, 5, 6, 7, 0xB8];
    let salt16 = [9u8; 16];
    let mut grid: Vec<Prot> = vec![];
    // every cipher in both tiers (a dispatch-table slip for one rarely used cipher must be seen)
    let cfb_ciphers: &[u8] = &[1, 2, 3, 4, 7, 8, 9, 10, 11, 12, 13];
    let hashes_strong: &[u8] = if quick { &[8, 10] } else { &[8, 9, 10, 11, 12, 14] };
    for &c in cfb_ciphers {
        for &h in hashes_strong {
            for s2k in [
                RefS2k::Salted { hash: h, salt: salt8 },
                RefS2k::Iterated { hash: h, salt: salt8, count: 0 },
                RefS2k::Iterated { hash: h, salt: salt8, count: 0x60 },
                RefS2k::Simple { hash: h },
            ] {
                for usage in [254u8, 255] {
                    grid.push(Prot { usage, cipher: c, aead: 0, s2k: s2k.clone() });
                }
            }
        }
        // weak hashes are still readable on v4
        for &h in &[2u8, 1, 3] {
            grid.push(Prot { usage: 254, cipher: c, aead: 0, s2k: RefS2k::Iterated { hash: h, salt: salt8, count: 16 } });
            grid.push(Prot { usage: 255, cipher: c, aead: 0, s2k: RefS2k::Simple { hash: h } });
        }
    }
    for &c in &[7u8, 8, 9] {
        for &a in &[1u8, 2, 3] {
            for s2k in [
                RefS2k::Iterated { hash: 8, salt: salt8, count: 0 },
                RefS2k::Iterated { hash: 10, salt: salt8, count: 0x42 },
                RefS2k::Argon2 { salt: salt16, t: 1, p: 1, m: 6 },
                RefS2k::Argon2 { salt: salt16, t: 2, p: 2, m: 7 },
                // the smallest legal memory exponents (3 + ceil(log2 p)): every flip downwards is illegal
                RefS2k::Argon2 { salt: salt16, t: 1, p: 1, m: 3 },
                RefS2k::Argon2 { salt: salt16, t: 1, p: 4, m: 5 },
                RefS2k::Argon2 { salt: salt16, t: 3, p: 3, m: 5 },
                RefS2k::Salted { hash: 8, salt: salt8 },
                RefS2k::Simple { hash: 8 },
            ] {
                grid.push(Prot { usage: 253, cipher: c, aead: a, s2k });
            }
        }
    }
    for &c in &[1u8, 3, 4, 7, 11] {
        grid.push(Prot { usage: c, cipher: c, aead: 0, s2k: RefS2k::Simple { hash: 1 } });
    }
    if !quick {
        // full count sweep on one cipher
        for count in 0..=255u8 {
            if count & 0xF0 > 0x90 && count % 16 != 0 {
                continue; // keep the expensive high counts sparse
            }
            grid.push(Prot { usage: 254, cipher: 7, aead: 0, s2k: RefS2k::Iterated { hash: 8, salt: salt8, count } });
        }
    }

    for (ki, (kname, key)) in keys.iter().enumerate() {
        let tag = key.tag();
        let v6 = key.version() == 6;
        let orig_body = key.body();
        let Some((_pubref, material)) = raw_material(&orig_body) else {
            ctx.inconclusive(format!("reference cannot parse unlocked key {kname}"));
            continue;
        };
        let orig_plain = match key.unlock(&Password::empty()) {
            Ok(p) => p,
            Err(e) => {
                ctx.inconclusive(format!("cannot read plain params of {kname}: {e}"));
                continue;
            }
        };
        let slow_key = kname.contains("Rsa") || kname.contains("Dsa");
        for (gi, p) in grid.iter().enumerate() {
            // ration: every key sees a slice of the grid; slow keys a thinner one
            let stride = if slow_key { 9 } else if quick { 3 } else { 1 };
            if (gi + ki) % stride != 0 {
                continue;
            }
            if !ctx.mine() {
                continue;
            }
            describe_case(&format!("{kname} usage {} cipher {} aead {} s2k {}", p.usage, p.cipher, p.aead, s2k_kind(&p.s2k)));
            let mut rng = ctx.rng("grid", (ki * 10000 + gi) as u64);
            let pws = passwords(&mut rng);
            let mut pw = pws[(gi + ki) % pws.len()].clone();
            // iterated S2K with a small count: salt+password longer than the decoded count must be
            // hashed in full once (RFC 9580 3.7.1.3) - use passwords of 1017..2100 octets there
            if let RefS2k::Iterated { count, .. } = &p.s2k {
                if *count <= 0x10 && (gi + ki) % 2 == 0 {
                    let n = [1017usize, 1100, 2100][(gi / 2 + ki) % 3];
                    pw = vec![0u8; n];
                    rng.fill_bytes(&mut pw);
                }
            }
            let pwd = Password::from(&pw[..]);
            let Some(rprot) = ref_protection(p, &mut rng) else { continue };
            let replay = json!({"key": kname, "usage": p.usage, "cipher": p.cipher, "aead": p.aead, "s2k": format!("{:?}", p.s2k), "pw": hexs(&pw)});
            let cls = format!("v{}-u{}-{}", key.version(), usage_class(p.usage), s2k_kind(&p.s2k));

            // what the RFC (and the library's documented restrictions) allow
            let weak = matches!(p.s2k, RefS2k::Simple { hash } | RefS2k::Salted { hash, .. } | RefS2k::Iterated { hash, .. } if matches!(hash, 1 | 2 | 3));
            let legal_wire = if v6 {
                matches!(p.usage, 253 | 254) && !weak && !matches!(p.s2k, RefS2k::Simple { .. })
            } else {
                true
            };

            // ---------------- (L) library lock
            if let Some(lp) = lib_params(p, &rprot) {
                let mut locked = key.clone();
                let lr = ctx.guarded("C08/lock", || replay.clone(), || locked.lock(&pwd, lp));
                ctx.eval();
                match lr {
                    None => {}
                    Some(Err(e)) => {
                        // documented refusals: weak hash, argon2 without AEAD, v6 restrictions
                        ctx.tally("L.lock_refused", 1);
                        if !weak && legal_wire && !matches!(p.s2k, RefS2k::Simple { .. }) && !(p.usage == 253 && matches!(p.s2k, RefS2k::Salted { .. })) {
                            ctx.violation(
                                format!("C08/lock-refused/{cls}"),
                                format!("{kname}: set_password_with_s2k refused a legal parameter set: {e}"),
                                replay.clone(),
                            );
                        }
                    }
                    Some(Ok(())) => {
                        ctx.cover(&("L", kname, gi));
                        ctx.seen("L.classes", cls.clone());
                        // in-memory unlock
                        match ctx.guarded("C08/unlock", || replay.clone(), || locked.unlock(&pwd)) {
                            Some(Ok(pl)) if pl == orig_plain => {}
                            Some(Ok(_)) => ctx.violation(format!("C08/L/unlock-different-material/{cls}"), format!("{kname}: lock->unlock returned different secret material"), replay.clone()),
                            Some(Err(e)) => ctx.violation(format!("C08/L/unlock-failed/{cls}"), format!("{kname}: lock->unlock with the same password failed: {e}"), replay.clone()),
                            None => {}
                        }
                        // serialise -> parse -> unlock / remove_password
                        let body = locked.body();
                        match Sk::parse(tag, &body) {
                            Err(e) => ctx.violation(format!("C08/L/own-locked-key-rejected/{cls}"), format!("{kname}: serialised locked key does not parse: {e}"), replay.clone()),
                            Ok(mut k2) => {
                                ctx.eval();
                                // (object equality incl. the stored packet header is C05's business)
                                if k2.body() != body {
                                    ctx.violation(format!("C08/L/reparse-reserialise-differs/{cls}"), format!("{kname}: parsed locked key serialises differently"), replay.clone());
                                }
                                match k2.unlock(&pwd) {
                                    Ok(pl) if pl == orig_plain => {}
                                    Ok(_) => ctx.violation(format!("C08/L/reparse-unlock-different-material/{cls}"), kname.to_string(), replay.clone()),
                                    Err(e) => ctx.violation(format!("C08/L/reparse-unlock-failed/{cls}"), format!("{kname}: {e}"), replay.clone()),
                                }
                                if k2.remove(&pwd).is_ok() {
                                    if k2.body() != orig_body {
                                        ctx.violation(format!("C08/L/remove_password-differs/{cls}"), format!("{kname}: after remove_password the key serialises differently from the original"), replay.clone());
                                    }
                                } else {
                                    ctx.violation(format!("C08/L/remove_password-failed/{cls}"), kname.to_string(), replay.clone());
                                }
                            }
                        }
                        // reference unlock of the library's bytes
                        match RefSecret::parse(&body).and_then(|r| r.unlock(tag, &pw)) {
                            Some(Ok(m)) if m == material => {}
                            Some(Ok(_)) => ctx.violation(format!("C08/L/reference-unlocks-different-material/{cls}"), kname.to_string(), replay.clone()),
                            Some(Err(())) => ctx.violation(
                                format!("C08/L/reference-cannot-unlock/{cls}"),
                                format!("{kname}: the RFC construction does not open the library's locked key (usage {}, cipher {}, aead {})", p.usage, p.cipher, p.aead),
                                json!({"base": replay, "body": hexs(&body)}),
                            ),
                            None => ctx.inconclusive("reference cannot parse library locked key"),
                        }
                        // negatives
                        let step = if quick { 7 } else if slow_key { 13 } else { 1 };
                        let heavy = matches!(p.s2k, RefS2k::Iterated { count, .. } if count > 0x70);
                        if !heavy && (gi % (if quick { 4 } else { 2 }) == 0 || p.usage == 253) {
                            negatives(ctx, kname, tag, &body, &pw, p, step, &replay);
                        }
                        if gi % 97 == 0 {
                            ctx.sample(json!({"family": "L", "key": kname, "class": cls, "locked_body": hexs(&body), "password": hexs(&pw)}));
                        }
                    }
                }
            }

            // ---------------- (W) reference-locked wire key
            let Some((rpub, _)) = RefPub::parse_prefix(&orig_body) else { continue };
            let Some(rs) = RefSecret::lock(&rpub, tag, rprot.clone(), &pw, &material) else {
                ctx.inconclusive("reference cannot lock");
                continue;
            };
            let wire = rs.encode();
            let parsed = ctx.guarded("C08/W/parse", || json!({"base": replay, "wire": hexs(&wire)}), || Sk::parse(tag, &wire));
            ctx.eval();
            match parsed {
                None => {}
                Some(Err(e)) => {
                    ctx.tally("W.parse_rejected", 1);
                    if legal_wire {
                        ctx.violation(format!("C08/W/legal-wire-key-rejected/{cls}"), format!("{kname}: {e}"), json!({"base": replay, "wire": hexs(&wire)}));
                    }
                }
                Some(Ok(mut k)) => {
                    ctx.cover(&("W", kname, gi));
                    ctx.seen("W.classes", cls.clone());
                    // usage octet must survive re-serialisation
                    let again = k.body();
                    if again != wire {
                        ctx.violation(format!("C08/W/reserialise-differs/{cls}"), format!("{kname}: accepted wire key is written back differently (usage octet {} -> {:?})", p.usage, again.get(wire.len() - rs.data.len().min(wire.len())..).map(|_| again[orig_pub_len(&wire)])), json!({"base": replay, "wire": hexs(&wire), "again": hexs(&again)}));
                    }
                    let policy_refused = p.usage == 253 && !matches!(p.s2k, RefS2k::Iterated { .. } | RefS2k::Argon2 { .. });
                    match ctx.guarded("C08/W/unlock", || json!({"base": replay, "wire": hexs(&wire)}), || k.unlock(&pwd)) {
                        None => {}
                        Some(Ok(pl)) => {
                            if pl != orig_plain {
                                ctx.violation(format!("C08/W/unlock-different-material/{cls}"), kname.to_string(), json!({"base": replay, "wire": hexs(&wire)}));
                            } else if k.remove(&pwd).is_ok() && k.body() != orig_body {
                                ctx.violation(format!("C08/W/remove_password-differs/{cls}"), kname.to_string(), json!({"base": replay, "wire": hexs(&wire)}));
                            }
                        }
                        Some(Err(e)) => {
                            if policy_refused || !legal_wire {
                                ctx.tally("W.policy_refused", 1);
                            } else {
                                ctx.violation(
                                    format!("C08/W/accepted-wire-key-does-not-unlock/{cls}"),
                                    format!("{kname}: key with usage octet {} parses but does not unlock with its password: {e}", p.usage),
                                    json!({"base": replay, "wire": hexs(&wire)}),
                                );
                            }
                        }
                    }
                    if (p.usage == 255 || p.usage < 253) && gi % 3 == 0 {
                        negatives(ctx, kname, tag, &wire, &pw, p, if quick { 5 } else { 1 }, &replay);
                    }
                    if gi % 101 == 0 {
                        ctx.sample(json!({"family": "W", "key": kname, "class": cls, "wire": hexs(&wire), "password": hexs(&pw)}));
                    }
                }
            }
        }
    }

    // ---- family G: the other locking interface, the key builder's `passphrase` option (incl. the empty
    // password): every secret packet of the generated key is protected, opens with that password and with no other
    {
        let specs = [
            Spec::simple(false, Alg::Ed25519Legacy, Some(Alg::EcdhCv25519)),
            Spec::simple(true, Alg::Ed25519, Some(Alg::X25519)),
            Spec::simple(false, Alg::EcdsaP256, Some(Alg::EcdhP256)),
            Spec::simple(true, Alg::Ed448, Some(Alg::X448)),
        ];
        let pws: [&str; 4] = ["", "x", "p\u{e4}ssw\u{f6}rd with blanks ", "0123456789012345678901234567890123456789012345678901234567890123456789"];
        for (si, base) in specs.iter().enumerate() {
            for (pi, pw) in pws.iter().enumerate() {
                if !ctx.mine() {
                    continue;
                }
                describe_case(&format!("G builder {} pw #{pi}", base.name()));
                let mut spec = base.clone();
                spec.sign_sub = Some(if base.v6 { Alg::Ed25519 } else { Alg::Ed25519Legacy });
                spec.passphrase = Some(pw.to_string());
                let mut rng = ctx.rng("G", (si * 10 + pi) as u64);
                let replay = json!({"family": "G", "spec": base.name(), "password": pw});
                let Some(Ok(key)) = ctx.guarded("C08/builder", || replay.clone(), || zoo::generate(&spec, &mut rng)) else {
                    ctx.inconclusive(format!("builder refused passphrase #{pi} for {}", base.name()));
                    continue;
                };
                let mut packets: Vec<(String, Sk)> = vec![("primary".into(), Sk::P(key.primary_key.clone()))];
                for (j, s) in key.secret_subkeys.iter().enumerate() {
                    packets.push((format!("subkey{j}"), Sk::S(s.key.clone())));
                }
                for (what, sk) in packets {
                    ctx.eval();
                    ctx.cover(&("G", base.name(), pi, &what));
                    ctx.seen("G.password-class", if pw.is_empty() { "empty" } else if pw.is_ascii() { "ascii" } else { "non-ascii" });
                    let body = sk.body();
                    let locked = RefSecret::parse(&body).map(|r| r.protection != RefProtection::None);
                    if locked != Some(true) {
                        ctx.violation(
                            format!("C08/builder/not-protected/{what}"),
                            format!("key built with passphrase {pw:?}: the {what} secret packet is written unprotected (reference view: {locked:?})"),
                            json!({"base": replay, "packet": hexs(&body)}),
                        );
                        continue;
                    }
                    if let Some(Err(e)) = ctx.guarded("C08/builder", || replay.clone(), || sk.unlock(&Password::from(*pw))) {
                        ctx.violation(format!("C08/builder/unlock-failed/{what}"), format!("key built with passphrase {pw:?}: {what} does not open with it: {e}"), json!({"base": replay, "packet": hexs(&body)}));
                    }
                    for w in wrong_passwords(pw.as_bytes()) {
                        if let Some(Ok(_)) = ctx.guarded("C08/builder", || replay.clone(), || sk.unlock(&Password::from(&w[..]))) {
                            ctx.violation(
                                format!("C08/builder/wrong-password-accepted/{what}"),
                                format!("key built with passphrase {pw:?}: {what} opens with the other password {}", hexs(&w)),
                                json!({"base": replay, "packet": hexs(&body)}),
                            );
                            break;
                        }
                    }
                }
            }
        }
    }
}

fn orig_pub_len(body: &[u8]) -> usize {
    RefPub::parse_prefix(body).map(|(_, n)| n).unwrap_or(0)
}

/// Debug aid: `mon DBG08 --out <hex body>:<hex pw>:<tag>` prints both views of a locked key.
pub fn debug(arg: &str) {
    let parts: Vec<&str> = arg.split(':').collect();
    let body = hex::decode(parts[0]).unwrap();
    let pw = hex::decode(parts[1]).unwrap();
    let tag: u8 = parts[2].parse().unwrap();
    let rs = RefSecret::parse(&body).unwrap();
    println!("ref protection {:?}", rs.protection);
    if let RefProtection::MalleableCfb { cipher, s2k, iv } | RefProtection::Cfb { cipher, s2k, iv } = &rs.protection {
        let key = s2k.derive(&pw, crate::rfc::sym::key_size(*cipher).unwrap()).unwrap();
        let mut d = rs.data.clone();
        crate::rfc::sym::cfb_decrypt(*cipher, &key, iv, &mut d);
        println!("ref plaintext {}", hex::encode(&d));
        println!("ref sum16 of material {:04x}", crate::rfc::sum16(&d[..d.len() - 2]));
    }
    println!("ref unlock {:?}", rs.unlock(tag, &pw).map(|r| r.map(|m| hex::encode(m))));
    match Sk::parse(tag, &body) {
        Ok(k) => match k.unlock(&Password::from(&pw[..])) {
            Ok(p) => {
                let mut k2 = k.clone();
                k2.remove(&Password::from(&pw[..])).unwrap();
                println!("lib unlock ok; unlocked body {}", hex::encode(k2.body()));
                let _ = p;
            }
            Err(e) => println!("lib unlock err {e}"),
        },
        Err(e) => println!("lib parse err {e}"),
    }
}
